//! JSONL export of what the node produced (judged by /verif/oracles/econ.py). Spent cells, the
//! live-cell totals and occupied capacities come from the MODEL's cell bytes (RefChain), never
//! from the node's calculators; `txs_fees` is what the node stored in BlockExt.

use crate::hgen::{self, Plan, Workload, occupied_formula, out_info};
use ckb_store::ChainStore;
use ckb_types::core::EpochExt;
use ckb_types::packed::CellbaseWitness;
use ckb_types::prelude::*;
use serde_json::{Value, json};
use std::collections::HashMap;
use vbase::hex;
use vnode::consensus::GenesisInfo;
use vnode::model::{CellRec, H, h};
use vnode::treegen::TreeGen;

fn epoch_ext_json(e: &EpochExt) -> Value {
    json!({
        "number": e.number(),
        "start": e.start_number(),
        "length": e.length(),
        "base_reward": e.base_block_reward().as_u64(),
        "remainder": e.remainder_reward().as_u64(),
    })
}

pub fn params_record(gi: &GenesisInfo, plan: &Plan, seed: u64, genesis_secondary: u64) -> Value {
    let c = &gi.consensus;
    let w = c.tx_proposal_window();
    let r = c.proposer_reward_ratio();
    let sr = c.satoshi_cell_occupied_ratio;
    json!({
        "t": "params",
        "seed": seed,
        "history": plan.index,
        "initial_primary_epoch_reward": c.initial_primary_epoch_reward().as_u64(),
        "secondary_epoch_reward": c.secondary_epoch_reward().as_u64(),
        "genesis_secondary_epoch_reward": genesis_secondary,
        "halving_interval": c.primary_epoch_reward_halving_interval(),
        "proposer_ratio": [r.numer(), r.denom()],
        "w_close": w.closest(),
        "w_far": w.farthest(),
        "finalization_delay": c.finalization_delay_length(),
        "genesis_epoch": epoch_ext_json(c.genesis_epoch_ext()),
        "dao_type_hash": hex(c.dao_type_hash().as_slice()),
        "satoshi": {"lock_args": hex(&c.satoshi_pubkey_hash.0), "ratio": [sr.numer(), sr.denom()]},
        "dao_lock_period_epochs": hgen::DAO_LOCK_PERIOD_EPOCHS,
    })
}

/// Is this the genesis "satoshi gift" cell (its occupied capacity is a consensus parameter)?
fn is_satoshi(gi: &GenesisInfo, c: &CellRec, lock_args: &[u8]) -> bool {
    c.block_number == 0 && c.tx_index == 0 && lock_args == &gi.consensus.satoshi_pubkey_hash.0[..]
}

/// Σ occupied capacity of the model's live set with the harness's own formula; the satoshi
/// cell counts `capacity * ratio`. Returns (with satoshi rule, plain formula only).
fn live_occupied(gi: &GenesisInfo, cells: &std::collections::BTreeMap<(H, u32), CellRec>) -> (u128, u128) {
    let sr = gi.consensus.satoshi_cell_occupied_ratio;
    let mut a: u128 = 0;
    let mut b: u128 = 0;
    for c in cells.values() {
        let oi = out_info(gi, &c.output);
        let occ = occupied_formula(oi.lock_args, oi.type_args, c.data.len()) as u128;
        b += occ;
        if is_satoshi(gi, c, &oi.lock_args_bytes) {
            a += oi.capacity as u128 * sr.numer() as u128 / sr.denom() as u128;
        } else {
            a += occ;
        }
    }
    (a, b)
}

pub struct BlockSummary {
    pub record: Value,
    /// hash of the economics of the block (for the distinct-cases counter)
    pub econ_hash: u64,
}

/// One record per generated block (the block must have been accepted by the builder node B;
/// `txs_fees` is read from B's store).
pub fn block_record(tg: &TreeGen, wl: &Workload, x: &H) -> BlockSummary {
    let gi = &tg.gi;
    let rec = tg.rc.get(x);
    let block = &rec.block;
    let number = rec.number;
    let st = tg.rc.replay(x);
    let parent_st = if number > 0 { Some(tg.rc.replay(&rec.parent)) } else { None };
    let epoch = block.epoch();
    let ext = rec.epoch.as_ref().expect("builder recorded the epoch ext");
    let cellbase = block.transaction(0).expect("cellbase");
    let witness_lock = cellbase
        .witnesses()
        .get(0)
        .and_then(|w| CellbaseWitness::from_slice(&w.raw_data()).ok())
        .map(|cw| hex(cw.lock().as_slice()));
    let cb_outputs: Vec<Value> = cellbase
        .outputs_with_data_iter()
        .map(|(o, d)| {
            let cap: u64 = o.capacity().into();
            json!({
                "capacity": cap,
                "lock": hex(o.lock().as_slice()),
                "lock_args_len": o.lock().args().raw_data().len(),
                "type_args_len": o.type_().to_opt().map(|t| t.args().raw_data().len()),
                "data_len": d.len(),
            })
        })
        .collect();
    let proposals: Vec<String> = block.data().proposals().into_iter().map(|p| hex(p.as_slice())).collect();
    let uncles: Vec<Value> = block
        .uncles()
        .into_iter()
        .map(|u| {
            json!({
                "number": u.number(),
                "hash": hex(u.hash().as_slice()),
                "proposals": u.data().proposals().into_iter().map(|p| hex(p.as_slice())).collect::<Vec<_>>(),
            })
        })
        .collect();
    let txs_fees: Option<Vec<u64>> = tg
        .b
        .shared
        .store()
        .get_block_ext(&block.hash())
        .map(|e| e.txs_fees.iter().map(|c| c.as_u64()).collect());

    // committed transactions with their spent cells from the model (overlay for cells created
    // earlier in the same block)
    let mut txs = vec![];
    let mut dao_kinds = vec![];
    let mut overlay: HashMap<(H, u32), CellRec> = HashMap::new();
    if number > 0 {
        let pst = parent_st.as_ref().unwrap();
        for (ti, tx) in block.transactions().iter().enumerate() {
            let th = h(&tx.hash());
            if ti > 0 {
                let mut inputs = vec![];
                let mut any_dao_input = false;
                for inp in tx.inputs().into_iter() {
                    let op = inp.previous_output();
                    let idx: u32 = op.index().into();
                    let k = (h(&op.tx_hash()), idx);
                    let since: u64 = inp.since().into();
                    let cell = overlay.get(&k).or_else(|| pst.cells.get(&k));
                    match cell {
                        Some(c) => {
                            let oi = out_info(gi, &c.output);
                            any_dao_input |= oi.is_dao;
                            inputs.push(json!({
                                "tx": hex(&k.0), "index": k.1, "since": since,
                                "capacity": oi.capacity,
                                "lock_args_len": oi.lock_args,
                                "type_args_len": oi.type_args,
                                "data_len": c.data.len(),
                                "data": if oi.is_dao { Value::String(hex(&c.data)) } else { Value::Null },
                                "dao": oi.is_dao,
                                "satoshi": is_satoshi(gi, c, &oi.lock_args_bytes),
                                "created_number": c.block_number,
                                "created_hash": hex(&c.block_hash),
                            }));
                        }
                        None => inputs.push(json!({"tx": hex(&k.0), "index": k.1, "since": since, "unknown": true})),
                    }
                }
                let outputs: Vec<Value> = tx
                    .outputs_with_data_iter()
                    .map(|(o, d)| {
                        let oi = out_info(gi, o.as_slice());
                        json!({
                            "capacity": oi.capacity,
                            "lock_args_len": oi.lock_args,
                            "type_args_len": oi.type_args,
                            "data_len": d.len(),
                            "dao": oi.is_dao,
                            "data": if oi.is_dao { Value::String(hex(&d)) } else { Value::Null },
                        })
                    })
                    .collect();
                let header_deps: Vec<Value> = tx
                    .header_deps_iter()
                    .map(|hd| {
                        let hh = h(&hd);
                        json!({"hash": hex(&hh), "number": if tg.rc.contains(&hh) { json!(tg.rc.get(&hh).number) } else { Value::Null }})
                    })
                    .collect();
                let witnesses: Vec<String> = if any_dao_input {
                    tx.witnesses().into_iter().map(|w| hex(&w.raw_data())).collect()
                } else {
                    vec![]
                };
                let kind = wl.dao_kind.get(&th).copied();
                if let Some(k) = kind {
                    dao_kinds.push(k);
                }
                txs.push(json!({
                    "id": hex(tx.proposal_short_id().as_slice()),
                    "hash": hex(&th),
                    "inputs": inputs,
                    "outputs": outputs,
                    "header_deps": header_deps,
                    "witnesses": witnesses,
                    "asked_max": wl.asked_max.contains(&th),
                    "gen_kind": kind,
                }));
            }
            for (oi, (o, d)) in tx.outputs_with_data_iter().enumerate() {
                overlay.insert(
                    (th, oi as u32),
                    CellRec {
                        output: o.as_slice().to_vec(),
                        data: d.to_vec(),
                        block_hash: *x,
                        block_number: number,
                        block_epoch: epoch.full_value(),
                        tx_index: ti as u32,
                    },
                );
            }
        }
    }
    let (live_occ, live_occ_plain) = live_occupied(gi, &st.cells);
    let cb_cap: u64 = cb_outputs.iter().map(|o| o["capacity"].as_u64().unwrap()).sum();
    let econ = format!(
        "{}/{} b{} r{} cb{} f{:?} p{} u{} d{:?}",
        epoch.index(),
        epoch.length(),
        ext.base_block_reward().as_u64(),
        ext.remainder_reward().as_u64(),
        cb_cap,
        txs_fees,
        proposals.len(),
        uncles.iter().map(|u| u["proposals"].as_array().unwrap().len()).sum::<usize>(),
        dao_kinds
    );
    let record = json!({
        "t": "block",
        "number": number,
        "hash": hex(x),
        "parent": hex(&rec.parent),
        "epoch": {"number": epoch.number(), "index": epoch.index(), "length": epoch.length()},
        "epoch_ext": epoch_ext_json(ext),
        "dao": hex(block.dao().as_slice()),
        "cellbase": {"outputs": cb_outputs, "witness_lock": witness_lock},
        "proposals": proposals,
        "uncles": uncles,
        "txs": txs,
        "txs_fees": txs_fees,
        "live_capacity": st.total_capacity as u64,
        "live_cells": st.cells.len(),
        "live_occupied": live_occ as u64,
        "live_occupied_plain_formula": live_occ_plain as u64,
    });
    BlockSummary {
        record,
        econ_hash: vbase::fnv1a(econ.as_bytes()),
    }
}
