//! Execution environment shared by every case: in-memory data loader, consensus with all VM
//! versions enabled, verifier construction (with a re-implementation of the test-only
//! DEBUG_PAUSE syscall 2178 used by the `*_with_snapshot` / `*_pause` test programs).

use ckb_chain_spec::consensus::{Consensus, ConsensusBuilder};
use ckb_script::types::{DebugPrinter, SgData, VmContext, VmId};
use ckb_script::{TransactionScriptsVerifier, TxVerifyEnv, generate_ckb_syscalls};
use ckb_traits::{CellDataProvider, ExtensionProvider, HeaderProvider};
use ckb_types::{
    bytes::Bytes,
    core::{
        EpochNumberWithFraction, HeaderView,
        cell::ResolvedTransaction,
        hardfork::{CKB2021, CKB2023, HardForks},
    },
    packed::{self, Byte32, OutPoint},
};
use ckb_vm::{Error as VMError, Register, SupportMachine, Syscalls, registers::A7};
use std::sync::{
    Arc,
    atomic::{AtomicBool, Ordering},
};

pub const V1_EPOCH: u64 = 5;
pub const V2_EPOCH: u64 = 10;
const DEBUG_PAUSE: u64 = 2178;

/// Every cell used by the cases carries its data in memory, so the loader is never consulted
/// for real data.
#[derive(Clone, Default)]
pub struct Loader;

impl CellDataProvider for Loader {
    fn get_cell_data(&self, _out_point: &OutPoint) -> Option<Bytes> {
        None
    }
    fn get_cell_data_hash(&self, _out_point: &OutPoint) -> Option<Byte32> {
        None
    }
}
impl HeaderProvider for Loader {
    fn get_header(&self, _hash: &Byte32) -> Option<HeaderView> {
        None
    }
}
impl ExtensionProvider for Loader {
    fn get_block_extension(&self, _hash: &Byte32) -> Option<packed::Bytes> {
        None
    }
}

#[derive(Clone)]
pub struct DebugCtx {
    pub printer: DebugPrinter,
    pub skip_pause: Arc<AtomicBool>,
}

/// Same semantics as the test-only `Pause` syscall of ckb-script: unless skipped it makes the
/// VM return `Error::Pause`, which the chunked runners turn into a suspension.
struct PauseSyscall {
    skip: Arc<AtomicBool>,
}

impl<Mac: SupportMachine> Syscalls<Mac> for PauseSyscall {
    fn initialize(&mut self, _machine: &mut Mac) -> Result<(), VMError> {
        Ok(())
    }
    fn ecall(&mut self, machine: &mut Mac) -> Result<bool, VMError> {
        if machine.registers()[A7].to_u64() != DEBUG_PAUSE {
            return Ok(false);
        }
        if self.skip.load(Ordering::SeqCst) {
            return Ok(true);
        }
        Err(VMError::Pause)
    }
}

fn gen_syscalls<DL, M>(
    vm_id: &VmId,
    sg_data: &SgData<DL>,
    vm_context: &VmContext<DL>,
    ctx: &DebugCtx,
) -> Vec<Box<dyn Syscalls<M>>>
where
    DL: CellDataProvider + HeaderProvider + ExtensionProvider + Send + Sync + Clone + 'static,
    M: SupportMachine,
{
    let mut syscalls = generate_ckb_syscalls(vm_id, sg_data, vm_context, &ctx.printer);
    syscalls.push(Box::new(PauseSyscall {
        skip: Arc::clone(&ctx.skip_pause),
    }));
    syscalls
}

pub type Verifier = TransactionScriptsVerifier<Loader, DebugCtx>;

pub fn consensus() -> Arc<Consensus> {
    let hardfork_switch = HardForks {
        ckb2021: CKB2021::new_mirana()
            .as_builder()
            .rfc_0032(V1_EPOCH)
            .build()
            .unwrap(),
        ckb2023: CKB2023::new_mirana()
            .as_builder()
            .rfc_0049(V2_EPOCH)
            .build()
            .unwrap(),
    };
    Arc::new(
        ConsensusBuilder::default()
            .hardfork_switch(hardfork_switch)
            .build(),
    )
}

/// `epoch` selects which VM versions are enabled (0: only V0; 5: V0,V1; 10: all).
pub fn build_verifier(
    consensus: &Arc<Consensus>,
    rtx: &Arc<ResolvedTransaction>,
    epoch: u64,
    skip_pause: bool,
) -> Verifier {
    let header = HeaderView::new_advanced_builder()
        .epoch(EpochNumberWithFraction::new(epoch, 0, 1))
        .build();
    let tx_env = Arc::new(TxVerifyEnv::new_commit(&header));
    let ctx = DebugCtx {
        printer: Arc::new(|_hash: &Byte32, _message: &str| {}),
        skip_pause: Arc::new(AtomicBool::new(skip_pause)),
    };
    TransactionScriptsVerifier::new_with_generator(
        Arc::clone(rtx),
        Loader,
        Arc::clone(consensus),
        tx_env,
        gen_syscalls,
        ctx,
    )
}
