//! Seeded workload for testdata/spawn_dag: a random spawn tree plus random pipe writes between
//! the VMs, encoded by hand in the molecule schema of testdata/spawn_dag.mol (port of
//! `generate_data_graph` in features_since_v2023.rs, without the daggy/molecule crates).
//!
//! Every VM walks the global write list in order (writer blocks until the reader reads), so the
//! smallest pending write always has both its endpoints ready: any edge set is deadlock free.

use ckb_types::bytes::Bytes;
use vbase::Rng;

fn table(fields: &[Vec<u8>]) -> Vec<u8> {
    let header = 4 + 4 * fields.len();
    let total: usize = header + fields.iter().map(|f| f.len()).sum::<usize>();
    let mut out = Vec::with_capacity(total);
    out.extend_from_slice(&(total as u32).to_le_bytes());
    let mut off = header;
    for f in fields {
        out.extend_from_slice(&(off as u32).to_le_bytes());
        off += f.len();
    }
    for f in fields {
        out.extend_from_slice(f);
    }
    out
}

// a dynvec has exactly the layout of a table whose fields are the items
fn dynvec(items: &[Vec<u8>]) -> Vec<u8> {
    table(items)
}

fn fixvec(item_count: usize, raw: &[u8]) -> Vec<u8> {
    let mut out = Vec::with_capacity(4 + raw.len());
    out.extend_from_slice(&(item_count as u32).to_le_bytes());
    out.extend_from_slice(raw);
    out
}

fn idx(v: u64) -> Vec<u8> {
    v.to_le_bytes().to_vec()
}

pub fn generate(rng: &mut Rng, spawns: usize, writes: usize) -> Bytes {
    // spawn tree: node 0 is the root VM, node i>0 has a random earlier parent
    let n = spawns + 1;
    let mut parent = vec![usize::MAX; n];
    let mut children: Vec<Vec<usize>> = vec![vec![]; n];
    for i in 1..n {
        let p = rng.usize_below(i);
        parent[i] = p;
        children[p].push(i);
    }
    let path_to_root = |mut a: usize| -> Vec<usize> {
        let mut v = vec![a];
        while parent[a] != usize::MAX {
            a = parent[a];
            v.push(a);
        }
        v
    };

    // fds passed along each spawn edge (keyed by child), pipes created per node
    let mut passed: Vec<Vec<u64>> = vec![vec![]; n];
    let mut pipes: Vec<(usize, u64, u64)> = vec![];
    let mut write_items: Vec<Vec<u8>> = vec![];
    for e in 0..writes {
        if n < 2 {
            break;
        }
        let writer = rng.usize_below(n);
        let mut reader = rng.usize_below(n);
        while reader == writer {
            reader = rng.usize_below(n);
        }
        let reader_fd = (e * 2) as u64;
        let writer_fd = (e * 2 + 1) as u64;
        let len = match rng.below(6) {
            0 => 1,
            1 => rng.range(1, 8),
            _ => rng.range(1, 1024),
        } as usize;
        let data = rng.bytes(len);
        write_items.push(table(&[
            idx(writer as u64),
            idx(writer_fd),
            idx(reader as u64),
            idx(reader_fd),
            fixvec(len, &data),
        ]));
        // lowest common ancestor creates the pipe and passes each end down
        let pw = path_to_root(writer);
        let pr = path_to_root(reader);
        let lca = *pw.iter().find(|x| pr.contains(x)).unwrap();
        for &x in pw.iter().take_while(|&&x| x != lca) {
            passed[x].push(writer_fd);
        }
        for &x in pr.iter().take_while(|&&x| x != lca) {
            passed[x].push(reader_fd);
        }
        pipes.push((lca, reader_fd, writer_fd));
    }

    // spawns in BFS order, children of a node in reverse creation order (as the original)
    let mut spawn_items: Vec<Vec<u8>> = vec![];
    let mut queue = std::collections::VecDeque::from([0usize]);
    while let Some(node) = queue.pop_front() {
        for &ch in children[node].iter().rev() {
            let raw: Vec<u8> = passed[ch].iter().flat_map(|f| f.to_le_bytes()).collect();
            spawn_items.push(table(&[
                idx(node as u64),
                idx(ch as u64),
                fixvec(passed[ch].len(), &raw),
            ]));
            queue.push_back(ch);
        }
    }
    pipes.sort_by_key(|p| p.0);
    let pipe_items: Vec<Vec<u8>> = pipes
        .iter()
        .map(|(vm, r, w)| table(&[idx(*vm as u64), idx(*r), idx(*w)]))
        .collect();

    table(&[
        dynvec(&spawn_items),
        dynvec(&pipe_items),
        dynvec(&write_items),
    ])
    .into()
}
