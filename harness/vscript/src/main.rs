//! Engine `script` — property C05: "Script verdict and cycle count do not depend on how
//! execution is chunked".
//!
//! For every (transaction, VM version) of the corpus the uninterrupted `verify(unlimited)` gives
//! the reference (R, C). Monitored runs of the real ckb-script code:
//!   (a) `resumable_verify` + `resume_from_state` under constant / growing / windowed / random
//!       per-chunk limits, `complete` from intermediate states;
//!   (b) budgets around the exact cost (`verify(C)`, `verify(C-1)`, `verify(C+k)`, ...);
//!   (c) `resumable_verify_with_signal` under seeded Suspend/Resume/Stop command sequences.
//! The oracle only compares observable results with the reference; it shares no code with the
//! scheduler.
//!
//! CLI: vscript --seed S --tier quick|thorough [threads=N] [only=substring] [work=N]

mod cases;
mod dag;
mod drive;
mod env;
mod signal;

use drive::{CaseCtx, Kind, Local, Reference};
use serde_json::{Value, json};
use std::collections::{BTreeMap, BTreeSet};
use std::sync::atomic::{AtomicUsize, Ordering};
use std::sync::{Arc, Mutex, mpsc};
use std::time::{Duration, Instant};
use vbase::{Args, Report, Rng, Tier, fnv1a};

const RULE: &str = "one evaluation = one comparison of a monitored run (chunked run to completion, complete() from a captured state, budgeted verify, signal-driven run) with the uninterrupted reference (R, C) of the same transaction; distinct = (case, mode, schedule)";

fn main() {
    let args = Args::parse();
    let thorough = args.tier == Tier::Thorough;
    let mut report = Report::new("C05", "exploration", &args, RULE);
    report.max_samples = 8;
    report.assume("the uninterrupted verify(max) run of the same build is the reference: a defect shared by all execution modes is invisible");
    report.assume("programs are the prebuilt RISC-V binaries of script/testdata; DEBUG_PAUSE (syscall 2178) is re-implemented in the harness exactly like the test-only syscall of ckb-script");
    report.assume("ckb-vm itself (instruction semantics, snapshot2) is trusted only through equality with the uninterrupted run");

    // panics of the code under test are observations; keep the output readable
    let default_hook = std::panic::take_hook();
    std::panic::set_hook(Box::new(move |info| {
        let on_runtime_worker = std::thread::current()
            .name()
            .map(|n| n.starts_with("tokio-rt-worker"))
            .unwrap_or(false);
        if on_runtime_worker {
            // the VM task spawned by resumable_verify_with_signal panicked: an observation
            signal::TASK_PANICS.fetch_add(1, Ordering::SeqCst);
            if let Ok(mut g) = signal::LAST_TASK_PANIC.lock() {
                *g = info.to_string();
            }
        } else if !drive::CATCHING.with(|c| c.get()) {
            default_hook(info);
        }
    }));

    if !signal::install_hook() {
        report.inconclusive("could not install the ckb_script::verif hook");
    }

    let threads = args
        .get_u64(
            "threads",
            std::thread::available_parallelism()
                .map(|n| n.get() as u64)
                .unwrap_or(8)
                .min(16),
        )
        .max(1) as usize;
    // per-case budget of the chunked phase in estimated thread-micro-seconds (cost model in
    // drive.rs); the wall-clock deadline is only a safety net
    let work: u64 = args.get_u64("work", if thorough { 100_000_000 } else { 3_000_000 });
    let case_deadline = Duration::from_secs(if thorough { 900 } else { 60 });
    let global_deadline = Duration::from_secs(if thorough { 28 * 60 } else { 6 * 60 });
    let n_signal: u64 = args.get_u64("signal", if thorough { 60 } else { 7 });

    let consensus = env::consensus();
    let mut all_cases = cases::build(args.seed, thorough);
    if let Some(f) = args.get_str("only") {
        all_cases.retain(|c| c.name.contains(f));
    }
    if let Some(path) = &args.replay {
        // replay of a recorded violation: the witness names the case; chunked witnesses also
        // carry the per-chunk limits that were used
        let j: Value = serde_json::from_str(&std::fs::read_to_string(path).expect("replay file"))
            .expect("replay json");
        let w = &j["witness"];
        let name = w["case"].as_str().unwrap_or("").to_string();
        let limits: Vec<u64> = w["observed"]["limits_head"]
            .as_array()
            .map(|a| a.iter().filter_map(|x| x.as_u64()).collect())
            .unwrap_or_default();
        println!("replay {}: case {name}", path.display());
        println!("recorded: {}", serde_json::to_string(&w["observed"]).unwrap_or_default());
        for case in all_cases.iter().filter(|c| c.name == name) {
            let pause = w["observed"]["mode"].as_str() == Some("pause");
            let v = env::build_verifier(&consensus, &case.rtx, case.epoch, !pause);
            println!("reference: {:?}", drive::verify(&v, case.ref_budget));
            if !limits.is_empty() {
                drive::trace_chunks(&v, &limits);
            } else {
                println!("(no chunk limits recorded: re-run with  only='{name}'  to drive this case again)");
            }
        }
        return;
    }
    if args.extra.contains_key("list") {
        // debug: print the reference of every selected case
        let budget = args.get_u64("refbudget", 0);
        for case in all_cases.iter() {
            let v = env::build_verifier(&consensus, &case.rtx, case.epoch, true);
            let t0 = Instant::now();
            let b = if budget > 0 { budget } else { case.ref_budget };
            let r = drive::verify(&v, b);
            let t_ref = t0.elapsed();
            let c = match &r { drive::Verdict::Ok(c) => *c, _ => b.min(3_000_000) };
            let (chunks, size, t, _) = drive::calibrate(&v, c / 7 + 1);
            println!("{:<70} {:?} ref={:.2}ms chunks={chunks} state_size={size} per_chunk={:.3}ms", case.name, r.class(), t_ref.as_secs_f64() * 1e3, t.as_secs_f64() * 1e3 / chunks.max(1) as f64);
        }
        return;
    }
    if let Some(lims) = args.get_str("limits") {
        // replay / debug: run the first selected case under explicit per-chunk limits and
        // print the captured state after every chunk
        let limits: Vec<u64> = lims.split(',').filter_map(|x| x.parse().ok()).collect();
        for case in all_cases.iter() {
            let v = env::build_verifier(&consensus, &case.rtx, case.epoch, !args.extra.contains_key("pause"));
            println!("case {}: reference {:?}", case.name, drive::verify(&v, case.ref_budget));
            drive::trace_chunks(&v, &limits);
        }
        return;
    }
    let all_cases = Arc::new(all_cases);
    let rt = Arc::new(
        tokio::runtime::Builder::new_multi_thread()
            .worker_threads(2 * threads + 2)
            .enable_time()
            .build()
            .expect("tokio runtime"),
    );

    // ---- pass 1: references (parallel) --------------------------------------------------
    let t_start = Instant::now();
    let refs: Arc<Mutex<Vec<Option<Reference>>>> =
        Arc::new(Mutex::new(vec![None; all_cases.len()]));
    let locals: Arc<Mutex<Vec<Local>>> = Arc::new(Mutex::new(vec![]));
    {
        let next = Arc::new(AtomicUsize::new(0));
        let mut hs = vec![];
        for _ in 0..threads {
            let (cases, refs, locals, next, consensus) = (
                Arc::clone(&all_cases),
                Arc::clone(&refs),
                Arc::clone(&locals),
                Arc::clone(&next),
                Arc::clone(&consensus),
            );
            hs.push(std::thread::spawn(move || {
                let mut l = Local::default();
                loop {
                    let i = next.fetch_add(1, Ordering::SeqCst);
                    if i >= cases.len() {
                        break;
                    }
                    let case = &cases[i];
                    let v = env::build_verifier(&consensus, &case.rtx, case.epoch, true);
                    let r = drive::reference(case, &v, &mut l);
                    refs.lock().unwrap()[i] = r;
                }
                locals.lock().unwrap().push(l);
            }));
        }
        for h in hs {
            let _ = h.join();
        }
    }
    let refs: Vec<Option<Reference>> = refs.lock().unwrap().clone();
    let t_refs = t_start.elapsed();

    // ---- pass 2: monitored runs, most expensive cases first ------------------------------
    let mut order: Vec<usize> = (0..all_cases.len()).filter(|i| refs[*i].is_some()).collect();
    order.sort_by_key(|i| std::cmp::Reverse(refs[*i].as_ref().unwrap().c));
    let order = Arc::new(order);
    let refs = Arc::new(refs);
    let (done_tx, done_rx) = mpsc::channel::<()>();
    {
        let next = Arc::new(AtomicUsize::new(0));
        for _ in 0..threads {
            let (cases, refs, locals, next, consensus, order, rt, done_tx) = (
                Arc::clone(&all_cases),
                Arc::clone(&refs),
                Arc::clone(&locals),
                Arc::clone(&next),
                Arc::clone(&consensus),
                Arc::clone(&order),
                Arc::clone(&rt),
                done_tx.clone(),
            );
            let seed = args.seed;
            std::thread::spawn(move || {
                let mut l = Local::default();
                loop {
                    let k = next.fetch_add(1, Ordering::SeqCst);
                    if k >= order.len() {
                        break;
                    }
                    let i = order[k];
                    let case = &cases[i];
                    let r = refs[i].as_ref().unwrap();
                    let t0 = Instant::now();
                    let mut lc = Local::default();
                    let body = std::panic::catch_unwind(std::panic::AssertUnwindSafe(|| {
                    let l = &mut lc;
                    let mut rng = Rng::new(seed ^ fnv1a(case.name.as_bytes()));
                    let cx = CaseCtx {
                        case,
                        r,
                        seed,
                        deadline: Instant::now() + case_deadline,
                    };
                    let v = env::build_verifier(&consensus, &case.rtx, case.epoch, true);
                    // (b) budgets
                    drive::budget_phase(&cx, &v, &mut rng, l, thorough);
                    // (c) signals
                    let sg = signal::signal_phase(&cx, &rt, &v, n_signal, &mut rng, l);
                    // (a) chunked
                    let (_, state_size, _, vms) = drive::calibrate(&v, r.c / 7 + 1);
                    let plan = drive::plan(r, thorough, work, state_size, vms, &mut rng);
                    let st = drive::chunk_phase(&cx, &v, "chunk", &plan, &mut rng, l);
                    let mut runs = st.runs;
                    let mut runs_suspended = st.runs_suspended;
                    let mut suspensions = st.suspensions;
                    let mut stalls = st.stalls;
                    // (a') the same with program-requested pauses (DEBUG_PAUSE honoured)
                    if case.uses_pause && r.kind != Kind::Exceeded {
                        let vp = env::build_verifier(&consensus, &case.rtx, case.epoch, false);
                        let mut plan_p =
                            drive::plan(r, thorough, work / 3, state_size, vms, &mut rng);
                        // unlimited chunks: only the program's own pauses suspend; this run
                        // also measures how many pauses the program requests
                        let probe_run = drive::run_chunked(
                            &vp,
                            &drive::Sched::Const(u64::MAX),
                            r.c,
                            u64::MAX,
                            false,
                            0,
                            200_000,
                            None,
                        );
                        plan_p.extra_chunks = probe_run.suspensions + 16;
                        let per_run = (probe_run.suspensions + 30)
                            * drive::chunk_cost_us(state_size, vms);
                        let keep = ((work / 3) / per_run.max(1)).max(6) as usize;
                        plan_p.scheds.insert(0, drive::Sched::Const(u64::MAX));
                        if plan_p.exhaustive_const {
                            // keep every 3rd constant step only
                            let mut k = 0usize;
                            plan_p.scheds.retain(|_| {
                                k += 1;
                                k % 3 == 1
                            });
                            plan_p.exhaustive_const = false;
                        }
                        plan_p.scheds.truncate(keep);
                        let sp = drive::chunk_phase(&cx, &vp, "pause", &plan_p, &mut rng, l);
                        runs += sp.runs;
                        runs_suspended += sp.runs_suspended;
                        suspensions += sp.suspensions;
                        stalls += sp.stalls;
                    }
                    l.count_n("chunk_runs", runs);
                    l.count_n("chunk_runs_suspended_at_least_once", runs_suspended);
                    l.count_n("suspensions_total", suspensions);
                    l.count_n("stalls_escalated", stalls);
                    l.count("cases");
                    l.count(&format!("cases_{}", case.version));
                    l.count(&format!("cases_kind_{:?}", r.kind));
                    if case.multi_group {
                        l.count("cases_multi_group");
                    }
                    if st.exhaustive_const {
                        l.count("cases_all_constant_steps");
                    }
                    l.per_case.push(json!({
                        "case": case.name, "kind": format!("{:?}", r.kind), "c": r.c,
                        "max_state_bytes": state_size,
                        "chunk_runs": runs, "suspensions": suspensions,
                        "all_constant_steps_1_to_C_plus_1": st.exhaustive_const,
                        "signal_runs": sg.runs, "stop_interrupted": sg.interrupted,
                        "wall_s": (t0.elapsed().as_secs_f64() * 100.0).round() / 100.0,
                    }));
                    }));
                    if body.is_err() {
                        lc.inconclusive(&format!("harness thread panicked while driving {}", case.name));
                    }
                    l.merge(lc);
                }
                locals.lock().unwrap().push(l);
                let _ = done_tx.send(());
            });
        }
    }
    drop(done_tx);
    let mut finished = 0;
    let mut watchdog_fired = false;
    while finished < threads {
        let left = global_deadline.saturating_sub(t_start.elapsed());
        match done_rx.recv_timeout(left.max(Duration::from_millis(10))) {
            Ok(()) => finished += 1,
            Err(mpsc::RecvTimeoutError::Timeout) => {
                watchdog_fired = true;
                break;
            }
            Err(mpsc::RecvTimeoutError::Disconnected) => break,
        }
    }
    if watchdog_fired {
        report.inconclusive("global watchdog: worker threads did not finish in time");
    }

    // ---- merge ----------------------------------------------------------------------------
    let locals = std::mem::take(&mut *locals.lock().unwrap());
    let mut per_case: Vec<Value> = vec![];
    let mut distinct: BTreeSet<u64> = BTreeSet::new();
    for l in locals {
        report.evals(l.evals);
        for (k, n) in &l.counters {
            if !k.starts_with("violation::") {
                report.count_n(k, *n);
            }
        }
        distinct.extend(l.distinct.iter().copied());
        for s in l.samples {
            report.sample(s);
        }
        for (sig, detail, w) in l.violations {
            let n = l.counters.get(&format!("violation::{sig}")).copied().unwrap_or(1);
            report.violation(&sig, detail, w);
            if n > 1 {
                report.count_n(&format!("violation::{sig}"), n - 1);
            }
        }
        for r in l.inconclusive {
            report.inconclusive(&r);
        }
        per_case.extend(l.per_case);
    }
    for d in distinct {
        report.distinct(d);
    }
    report.count_n("pauses_observed", signal::PAUSES.load(Ordering::SeqCst));
    let task_panics = signal::TASK_PANICS.load(Ordering::SeqCst);
    if task_panics > 0 {
        report.count_n("signal_vm_task_panics", task_panics);
        report.note(
            "last_signal_vm_task_panic",
            json!(signal::LAST_TASK_PANIC.lock().map(|g| g.clone()).unwrap_or_default()),
        );
    }

    // programs x versions actually covered
    let mut programs: BTreeMap<String, BTreeSet<String>> = BTreeMap::new();
    for (i, c) in all_cases.iter().enumerate() {
        if refs[i].is_some() {
            programs
                .entry(c.program.clone())
                .or_default()
                .insert(c.version.to_string());
        }
    }
    report.count_n("programs", programs.len() as u64);
    report.count_n(
        "program_versions",
        programs.values().map(|v| v.len() as u64).sum(),
    );
    report.note(
        "programs_by_version",
        json!(
            programs
                .iter()
                .map(|(k, v)| (k.clone(), v.iter().cloned().collect::<Vec<_>>()))
                .collect::<BTreeMap<_, _>>()
        ),
    );
    per_case.sort_by_key(|v| v["case"].as_str().unwrap_or("").to_string());
    report.note("cases", json!(per_case));
    report.note("threads", json!(threads));
    report.note("reference_pass_s", json!(t_refs.as_secs_f64()));
    report.note(
        "exhaustive_note",
        json!("per case: all_constant_steps_1_to_C_plus_1=true means every constant chunk size in [1, C+1] was run to completion; nothing else is exhaustive"),
    );

    let only = args.get_str("only").is_some();
    if !only {
        report.require("programs", 40);
        report.require("cases", if thorough { 150 } else { 140 });
        report.require("cases_multi_group", 10);
        report.require("cases_all_constant_steps", 10);
        report.require("signal_stop_interrupted", 1);
        report.require("complete_probes", 100);
    }
    report.require("suspensions_total", 1);
    report.require("chunk_runs_suspended_at_least_once", 1);
    report.require("pauses_observed", 1);

    let code = report.finish(None);
    std::process::exit(code);
}
