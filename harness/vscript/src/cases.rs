//! The corpus: resolved transactions wrapped around the prebuilt RISC-V binaries of
//! /repo/script/testdata (re-creation of the private `#[cfg(test)]` helpers of ckb-script).

use crate::env::{V1_EPOCH, V2_EPOCH};
use ckb_chain_spec::consensus::TYPE_ID_CODE_HASH;
use ckb_crypto::secp::Generator;
use ckb_hash::{blake2b_256, new_blake2b};
use ckb_script::ScriptVersion;
use ckb_test_chain_utils::{
    ckb_testnet_consensus, secp256k1_blake160_sighash_cell, secp256k1_data_cell,
    type_lock_script_code_hash,
};
use ckb_types::{
    H256,
    bytes::Bytes,
    core::{
        Capacity, DepType, ScriptHashType, TransactionBuilder, TransactionInfo, capacity_bytes,
        cell::{CellMeta, CellMetaBuilder, ResolvedTransaction},
    },
    h256,
    packed::{
        Byte32, CellDep, CellInput, CellOutput, OutPoint, Script, TransactionInfoBuilder,
        TransactionKeyBuilder, WitnessArgs,
    },
    prelude::*,
};
use std::collections::HashMap;
use std::path::PathBuf;
use std::sync::{Arc, Mutex, OnceLock};
use vbase::Rng;

const SOURCE_GROUP_FLAG: u64 = 0x0100_0000_0000_0000;

pub struct Case {
    /// program family (evidence: programs covered)
    pub program: String,
    /// full case name: family + parameters + version
    pub name: String,
    pub version: &'static str,
    pub rtx: Arc<ResolvedTransaction>,
    /// epoch of the verification environment (selects enabled VM versions)
    pub epoch: u64,
    /// budget for the reference run; u64::MAX for terminating programs, finite for programs
    /// that do not terminate by design.
    pub ref_budget: u64,
    /// the program calls the DEBUG_PAUSE syscall
    pub uses_pause: bool,
    /// several script groups
    pub multi_group: bool,
}

fn testdata_dir() -> PathBuf {
    PathBuf::from(
        std::env::var("VSCRIPT_TESTDATA").unwrap_or_else(|_| "/repo/script/testdata".to_string()),
    )
}

pub fn bin(name: &str) -> Bytes {
    static CACHE: OnceLock<Mutex<HashMap<String, Bytes>>> = OnceLock::new();
    let cache = CACHE.get_or_init(|| Mutex::new(HashMap::new()));
    let mut g = cache.lock().unwrap();
    if let Some(b) = g.get(name) {
        return b.clone();
    }
    // programs of the harness itself (`own_*`) live next to this crate
    let path = if name.starts_with("own_") {
        PathBuf::from(concat!(env!("CARGO_MANIFEST_DIR"), "/testdata")).join(name)
    } else {
        testdata_dir().join(name)
    };
    let data: Bytes = std::fs::read(path)
        .unwrap_or_else(|e| panic!("read testdata/{name}: {e}"))
        .into();
    g.insert(name.to_string(), data.clone());
    data
}

fn tx_info() -> TransactionInfo {
    TransactionInfoBuilder::default()
        .block_number(1u64)
        .block_epoch(0u64)
        .key(
            TransactionKeyBuilder::default()
                .block_hash(Byte32::zero())
                .index(1u32)
                .build(),
        )
        .build()
        .into()
}

/// A dep cell holding `data`; returns the cell and its data hash.
pub fn dep_cell(data: &Bytes) -> (CellMeta, Byte32) {
    let out = CellOutput::new_builder()
        .capacity(Capacity::bytes(data.len()).unwrap())
        .build();
    let meta = CellMetaBuilder::from_cell_output(out, data.clone())
        .transaction_info(tx_info())
        .build();
    let hash = meta.mem_cell_data_hash.clone().unwrap();
    (meta, hash)
}

fn dep(name: &str) -> (CellMeta, Byte32) {
    dep_cell(&bin(name))
}

fn cell_with_data(output: CellOutput, data: Bytes) -> CellMeta {
    CellMetaBuilder::from_cell_output(output, data)
        .transaction_info(tx_info())
        .build()
}

fn dummy_cell(output: CellOutput) -> CellMeta {
    cell_with_data(output, Bytes::new())
}

fn script(code_hash: &Byte32, ht: ScriptHashType, args: &[u8]) -> Script {
    Script::new_builder()
        .code_hash(code_hash.clone())
        .hash_type(ht)
        .args(Bytes::copy_from_slice(args))
        .build()
}

fn lock_output(lock: Script) -> CellOutput {
    CellOutput::new_builder()
        .capacity(capacity_bytes!(100))
        .lock(lock)
        .build()
}

fn vname(v: ScriptVersion) -> &'static str {
    match v {
        ScriptVersion::V0 => "v0",
        ScriptVersion::V1 => "v1",
        ScriptVersion::V2 => "v2",
    }
}

const ALL: [ScriptVersion; 3] = [ScriptVersion::V0, ScriptVersion::V1, ScriptVersion::V2];
const V12: [ScriptVersion; 2] = [ScriptVersion::V1, ScriptVersion::V2];
const V2: [ScriptVersion; 1] = [ScriptVersion::V2];
const NONTERM_BUDGET: u64 = 2_500_000;

struct Opt {
    budget: u64,
    pause: bool,
}
const PLAIN: Opt = Opt {
    budget: u64::MAX,
    pause: false,
};
const PAUSE: Opt = Opt {
    budget: u64::MAX,
    pause: true,
};
const NONTERM: Opt = Opt {
    budget: NONTERM_BUDGET,
    pause: false,
};

struct Corpus {
    cases: Vec<Case>,
}

impl Corpus {
    fn push(
        &mut self,
        program: &str,
        variant: &str,
        v: &'static str,
        rtx: ResolvedTransaction,
        epoch: u64,
        opt: &Opt,
    ) {
        let name = if variant.is_empty() {
            format!("{program}@{v}")
        } else {
            format!("{program}[{variant}]@{v}")
        };
        let rtx = Arc::new(rtx);
        let mut hashes = std::collections::BTreeSet::new();
        for c in rtx.resolved_inputs.iter() {
            hashes.insert((0u8, c.cell_output.calc_lock_hash()));
            if let Some(t) = c.cell_output.type_().to_opt() {
                hashes.insert((1u8, t.calc_script_hash()));
            }
        }
        for o in rtx.transaction.outputs().into_iter() {
            if let Some(t) = o.type_().to_opt() {
                hashes.insert((1u8, t.calc_script_hash()));
            }
        }
        self.cases.push(Case {
            program: program.to_string(),
            name,
            version: v,
            rtx,
            epoch,
            ref_budget: opt.budget,
            uses_pause: opt.pause,
            multi_group: hashes.len() > 1,
        });
    }

    /// `program` as the lock script of the only input; deps = [program, extra...].
    #[allow(clippy::too_many_arguments)]
    fn lock_cases(
        &mut self,
        program: &str,
        variant: &str,
        binary: &str,
        args: &[u8],
        extra_deps: &[Bytes],
        witnesses: &[Bytes],
        versions: &[ScriptVersion],
        opt: &Opt,
    ) {
        for v in versions {
            let (cell, hash) = dep(binary);
            let lock = script(&hash, v.data_hash_type(), args);
            let mut deps = vec![cell];
            for d in extra_deps {
                deps.push(dep_cell(d).0);
            }
            let tx = TransactionBuilder::default()
                .input(CellInput::new(OutPoint::null(), 0))
                .set_witnesses(witnesses.iter().map(|w| w.pack()).collect())
                .build();
            let rtx = ResolvedTransaction {
                transaction: tx,
                resolved_cell_deps: deps,
                resolved_inputs: vec![dummy_cell(lock_output(lock))],
                resolved_dep_groups: vec![],
            };
            self.push(program, variant, vname(*v), rtx, V2_EPOCH, opt);
        }
    }

    /// `program` as the type script of the only output, the input is locked by always_success
    /// (VM0) => two script groups.
    fn type_cases(
        &mut self,
        program: &str,
        variant: &str,
        binary: &str,
        args: &[u8],
        extra_deps: &[Bytes],
        versions: &[ScriptVersion],
        opt: &Opt,
    ) {
        for v in versions {
            let (cell, hash) = dep(binary);
            let ty = script(&hash, v.data_hash_type(), args);
            let mut deps = vec![cell];
            for d in extra_deps {
                deps.push(dep_cell(d).0);
            }
            let (as_cell, as_hash) = dep("always_success");
            deps.push(as_cell);
            let lock = script(&as_hash, ScriptHashType::Data, &[]);
            let output = CellOutput::new_builder()
                .capacity(capacity_bytes!(90))
                .lock(lock.clone())
                .type_(Some(ty))
                .build();
            let tx = TransactionBuilder::default()
                .input(CellInput::new(OutPoint::null(), 0))
                .output(output)
                .output_data(Bytes::new())
                .build();
            let rtx = ResolvedTransaction {
                transaction: tx,
                resolved_cell_deps: deps,
                resolved_inputs: vec![dummy_cell(lock_output(lock))],
                resolved_dep_groups: vec![],
            };
            self.push(
                program,
                &format!("{variant}{}as-type", if variant.is_empty() { "" } else { "," }),
                vname(*v),
                rtx,
                V2_EPOCH,
                opt,
            );
        }
    }
}

#[derive(Clone, Copy, Debug)]
enum From {
    TxInputWitness,
    GroupInputWitness,
    TxOutputWitness,
    GroupOutputWitness,
    TxCellDep,
    TxInputCell,
    TxOutputCell,
    GroupInputCell,
    GroupOutputCell,
    Slice(u64),
}

impl From {
    fn tag(&self) -> String {
        format!("{self:?}")
    }
}

/// Port of `test_exec` (features_since_v2021.rs): exec_configurable_caller/callee.
fn exec_configurable(
    v: ScriptVersion,
    flag: u8,
    recursion: u64,
    number: u64,
    expected: u64,
    from: From,
) -> ResolvedTransaction {
    let (dyn_lib_cell, dyn_lib_hash) = dep("mul2.lib");
    let (index, source, place, bounds): (u64, u64, u64, u64) = match from {
        From::TxInputWitness => (0, 1, 1, 0),
        From::TxOutputWitness => (0, 2, 1, 0),
        From::GroupInputWitness => (0, SOURCE_GROUP_FLAG | 1, 1, 0),
        From::GroupOutputWitness => (0, SOURCE_GROUP_FLAG | 2, 1, 0),
        From::TxCellDep => (1, 3, 0, 0),
        From::TxInputCell => (1, 1, 0, 0),
        From::TxOutputCell => (0, 2, 0, 0),
        From::GroupInputCell => (0, SOURCE_GROUP_FLAG | 1, 0, 0),
        From::GroupOutputCell => (0, SOURCE_GROUP_FLAG | 2, 0, 0),
        From::Slice(bounds) => (0, 1, 1, bounds),
    };
    let mut args = Vec::new();
    args.extend_from_slice(&flag.to_le_bytes());
    args.extend_from_slice(&recursion.to_le_bytes());
    args.extend_from_slice(&number.to_le_bytes());
    args.extend_from_slice(&expected.to_le_bytes());
    args.extend_from_slice(&index.to_le_bytes());
    args.extend_from_slice(&source.to_le_bytes());
    args.extend_from_slice(&place.to_le_bytes());
    args.extend_from_slice(&bounds.to_le_bytes());
    args.extend_from_slice(&dyn_lib_hash.raw_data());

    let (caller_cell, caller_hash) = dep("exec_configurable_caller");
    let (callee_cell, _) = dep("exec_configurable_callee");
    let callee_data = bin("exec_configurable_callee");
    let (as_cell, as_hash) = dep("always_success");
    let as_script = script(&as_hash, ScriptHashType::Data, &[]);
    let caller_script = script(&caller_hash, v.data_hash_type(), &args);
    let output = lock_output(caller_script.clone());
    let input = CellInput::new(OutPoint::null(), 0);

    let (transaction, resolved_inputs) = match from {
        From::TxOutputWitness | From::TxInputWitness | From::GroupInputWitness => {
            let tx = TransactionBuilder::default()
                .input(input)
                .set_witnesses(vec![callee_data.pack()])
                .build();
            (tx, vec![dummy_cell(output)])
        }
        From::Slice(bounds) => {
            let offset = (bounds >> 32) as usize;
            let mut data = vec![0u8; offset];
            data.extend_from_slice(&callee_data);
            let tx = TransactionBuilder::default()
                .input(input)
                .set_witnesses(vec![Bytes::from(data).pack()])
                .build();
            (tx, vec![dummy_cell(output)])
        }
        From::TxCellDep => {
            let tx = TransactionBuilder::default().input(input).build();
            (tx, vec![dummy_cell(output)])
        }
        From::GroupOutputWitness => {
            let output = CellOutput::new_builder()
                .capacity(capacity_bytes!(100))
                .type_(Some(caller_script))
                .build();
            let tx = TransactionBuilder::default()
                .output(output)
                .output_data(Bytes::new())
                .set_witnesses(vec![callee_data.pack()])
                .build();
            (tx, vec![])
        }
        From::TxInputCell => {
            let callee_output = CellOutput::new_builder()
                .capacity(capacity_bytes!(1000))
                .lock(as_script.clone())
                .build();
            let callee_in = cell_with_data(callee_output, callee_data.clone());
            let tx = TransactionBuilder::default().input(input).build();
            (tx, vec![dummy_cell(output), callee_in])
        }
        From::GroupInputCell => {
            let caller_output = CellOutput::new_builder()
                .capacity(capacity_bytes!(100))
                .lock(caller_script)
                .type_(Some(as_script.clone()))
                .build();
            let caller_in = cell_with_data(caller_output, callee_data.clone());
            let tx = TransactionBuilder::default().input(input).build();
            (tx, vec![caller_in])
        }
        From::TxOutputCell => {
            let callee_output = CellOutput::new_builder()
                .capacity(capacity_bytes!(100))
                .lock(as_script.clone())
                .build();
            let tx = TransactionBuilder::default()
                .input(input)
                .output(callee_output)
                .output_data(callee_data.clone())
                .build();
            (tx, vec![dummy_cell(output)])
        }
        From::GroupOutputCell => {
            let callee_output = CellOutput::new_builder()
                .capacity(capacity_bytes!(100))
                .type_(Some(caller_script))
                .build();
            let tx = TransactionBuilder::default()
                .output(callee_output)
                .output_data(callee_data.clone())
                .build();
            (tx, vec![])
        }
    };
    ResolvedTransaction {
        transaction,
        resolved_cell_deps: vec![caller_cell, callee_cell, dyn_lib_cell, as_cell],
        resolved_inputs,
        resolved_dep_groups: vec![],
    }
}

/// Port of `check_spawn_configurable_once` (features_since_v2023.rs).
fn spawn_configurable(v: ScriptVersion, from: From, slice_size: u64) -> ResolvedTransaction {
    let callee_data = bin("spawn_configurable_callee");
    let position: Vec<u64> = match from {
        From::TxInputWitness => vec![0, 1, 1, 0],
        From::GroupInputWitness => vec![0, SOURCE_GROUP_FLAG | 1, 1, 0],
        From::TxOutputWitness => vec![0, 2, 1, 0],
        From::GroupOutputWitness => vec![0, SOURCE_GROUP_FLAG | 2, 1, 0],
        From::TxCellDep => vec![1, 3, 0, 0],
        From::TxInputCell => vec![1, 1, 0, 0],
        From::TxOutputCell => vec![0, 2, 0, 0],
        From::GroupInputCell => vec![0, SOURCE_GROUP_FLAG | 1, 0, 0],
        From::GroupOutputCell => vec![0, SOURCE_GROUP_FLAG | 2, 0, 0],
        From::Slice(offset) => {
            let h = offset << 32;
            let l = if slice_size == 0 {
                0
            } else {
                callee_data.len() as u64
            };
            vec![0, 1, 1, h | l]
        }
    };
    let mut args = vec![];
    for e in position {
        args.extend(e.to_le_bytes());
    }
    let (caller_cell, caller_hash) = dep("spawn_configurable_caller");
    let (callee_cell, _) = dep("spawn_configurable_callee");
    let (as_cell, as_hash) = dep("always_success");
    let caller_script = script(&caller_hash, v.data_hash_type(), &args);
    let as_script = script(&as_hash, v.data_hash_type(), &[]);
    let input_caller = dummy_cell(lock_output(caller_script.clone()));

    match from {
        From::TxInputWitness | From::TxOutputWitness | From::GroupInputWitness => {
            ResolvedTransaction {
                transaction: TransactionBuilder::default()
                    .set_witnesses(vec![callee_data.pack()])
                    .build(),
                resolved_cell_deps: vec![caller_cell, callee_cell],
                resolved_inputs: vec![input_caller],
                resolved_dep_groups: vec![],
            }
        }
        From::GroupOutputWitness => ResolvedTransaction {
            transaction: TransactionBuilder::default()
                .output(
                    CellOutput::new_builder()
                        .capacity(capacity_bytes!(100))
                        .type_(Some(caller_script))
                        .build(),
                )
                .output_data(Bytes::new())
                .set_witnesses(vec![callee_data.pack()])
                .build(),
            resolved_cell_deps: vec![caller_cell, callee_cell],
            resolved_inputs: vec![],
            resolved_dep_groups: vec![],
        },
        From::TxCellDep => ResolvedTransaction {
            transaction: TransactionBuilder::default().build(),
            resolved_cell_deps: vec![caller_cell, callee_cell],
            resolved_inputs: vec![input_caller],
            resolved_dep_groups: vec![],
        },
        From::TxInputCell => {
            let callee_out = CellOutput::new_builder()
                .capacity(capacity_bytes!(1000))
                .lock(as_script)
                .build();
            let input_callee = cell_with_data(callee_out, callee_data.clone());
            ResolvedTransaction {
                transaction: TransactionBuilder::default().build(),
                resolved_cell_deps: vec![caller_cell, callee_cell, as_cell],
                resolved_inputs: vec![input_caller, input_callee],
                resolved_dep_groups: vec![],
            }
        }
        From::TxOutputCell => ResolvedTransaction {
            transaction: TransactionBuilder::default()
                .output(
                    CellOutput::new_builder()
                        .capacity(capacity_bytes!(100))
                        .lock(as_script)
                        .build(),
                )
                .output_data(callee_data.clone())
                .build(),
            resolved_cell_deps: vec![caller_cell, callee_cell, as_cell],
            resolved_inputs: vec![input_caller],
            resolved_dep_groups: vec![],
        },
        From::GroupInputCell => {
            let input_caller = cell_with_data(lock_output(caller_script), callee_data.clone());
            ResolvedTransaction {
                transaction: TransactionBuilder::default().build(),
                resolved_cell_deps: vec![caller_cell, callee_cell, as_cell],
                resolved_inputs: vec![input_caller],
                resolved_dep_groups: vec![],
            }
        }
        From::GroupOutputCell => ResolvedTransaction {
            transaction: TransactionBuilder::default()
                .output(
                    CellOutput::new_builder()
                        .capacity(capacity_bytes!(100))
                        .type_(Some(caller_script))
                        .build(),
                )
                .output_data(callee_data.clone())
                .build(),
            resolved_cell_deps: vec![caller_cell, callee_cell, as_cell],
            resolved_inputs: vec![],
            resolved_dep_groups: vec![],
        },
        From::Slice(offset) => {
            let mut data = vec![0u8; offset as usize];
            data.extend_from_slice(&callee_data);
            if slice_size != 0 {
                data.extend(vec![0u8; 0x12]);
            }
            ResolvedTransaction {
                transaction: TransactionBuilder::default()
                    .set_witnesses(vec![Bytes::from(data).pack()])
                    .build(),
                resolved_cell_deps: vec![caller_cell, callee_cell],
                resolved_inputs: vec![input_caller],
                resolved_dep_groups: vec![],
            }
        }
    }
}

/// Port of `random_2_in_2_out_rtx` (tests/utils.rs): two secp256k1-blake160 sighash lock
/// groups referenced by type hash through a dep group; `seed` picks the keys.
fn secp_2_in_2_out(seed: u64) -> ResolvedTransaction {
    let consensus = ckb_testnet_consensus();
    let dep_group_tx_hash = consensus.genesis_block().transactions()[1].hash();
    let secp_out_point = OutPoint::new(dep_group_tx_hash, 0);
    let cell_dep = CellDep::new_builder()
        .out_point(secp_out_point)
        .dep_type(DepType::DepGroup)
        .build();

    let input1 = CellInput::new(OutPoint::new(h256!("0x1234").into(), 0), 0);
    let input2 = CellInput::new(OutPoint::new(h256!("0x1111").into(), 0), 0);

    let mut generator = Generator::non_crypto_safe_prng(seed);
    let privkey = generator.gen_privkey();
    let pubkey_data = privkey.pubkey().expect("pubkey").serialize();
    let lock_arg = Bytes::from((blake2b_256(pubkey_data)[0..20]).to_owned());
    let privkey2 = generator.gen_privkey();
    let pubkey_data2 = privkey2.pubkey().expect("pubkey").serialize();
    let lock_arg2 = Bytes::from((blake2b_256(pubkey_data2)[0..20]).to_owned());

    let lock = Script::new_builder()
        .args(lock_arg)
        .code_hash(type_lock_script_code_hash())
        .hash_type(ScriptHashType::Type)
        .build();
    let lock2 = Script::new_builder()
        .args(lock_arg2)
        .code_hash(type_lock_script_code_hash())
        .hash_type(ScriptHashType::Type)
        .build();

    let output1 = lock_output(lock.clone());
    let output2 = lock_output(lock2.clone());
    let tx = TransactionBuilder::default()
        .cell_dep(cell_dep)
        .input(input1.clone())
        .input(input2.clone())
        .output(output1)
        .output(output2)
        .output_data(Bytes::default())
        .output_data(Bytes::default())
        .build();

    let tx_hash: H256 = tx.hash().into();
    let sign = |key: &ckb_crypto::secp::Privkey| {
        let witness = WitnessArgs::new_builder()
            .lock(Some(Bytes::from(vec![0u8; 65])))
            .build();
        let witness_len: u64 = witness.as_bytes().len() as u64;
        let mut hasher = new_blake2b();
        hasher.update(tx_hash.as_bytes());
        hasher.update(&witness_len.to_le_bytes());
        hasher.update(&witness.as_bytes());
        let mut buf = [0u8; 32];
        hasher.finalize(&mut buf);
        let sig = key.sign_recoverable(&H256::from(buf)).expect("sign");
        WitnessArgs::new_builder()
            .lock(Some(Bytes::from(sig.serialize())))
            .build()
    };
    let witness = sign(&privkey);
    let witness2 = sign(&privkey2);
    let tx = tx
        .as_advanced_builder()
        .witness(witness.as_bytes())
        .witness(witness2.as_bytes())
        .build();

    let (secp_cell, secp_cell_data) = secp256k1_blake160_sighash_cell(consensus.clone());
    let (secp_data_cell, secp_data_cell_data) = secp256k1_data_cell(consensus);

    let in1 = CellMetaBuilder::from_cell_output(lock_output(lock), Default::default())
        .out_point(input1.previous_output())
        .build();
    let in2 = CellMetaBuilder::from_cell_output(lock_output(lock2), Default::default())
        .out_point(input2.previous_output())
        .build();
    ResolvedTransaction {
        transaction: tx,
        resolved_cell_deps: vec![
            CellMetaBuilder::from_cell_output(secp_cell, secp_cell_data).build(),
            CellMetaBuilder::from_cell_output(secp_data_cell, secp_data_cell_data).build(),
        ],
        resolved_inputs: vec![in1, in2],
        resolved_dep_groups: vec![],
    }
}

/// One-in-one-out TYPE_ID transaction; the lock is `lock_bin` under version `v`.
fn type_id_tx(v: ScriptVersion, lock_bin: &str, lock_args: &[u8]) -> ResolvedTransaction {
    let (lock_cell, lock_hash) = dep(lock_bin);
    let lock = script(&lock_hash, v.data_hash_type(), lock_args);
    let type_id_script = Script::new_builder()
        .args(Bytes::from(h256!("0x1111").as_ref().to_vec()))
        .code_hash(TYPE_ID_CODE_HASH)
        .hash_type(ScriptHashType::Type)
        .build();
    let input = CellInput::new(OutPoint::new(h256!("0x1234").into(), 8), 0);
    let input_cell = CellOutput::new_builder()
        .capacity(capacity_bytes!(1000))
        .lock(lock.clone())
        .type_(Some(type_id_script.clone()))
        .build();
    let output_cell = CellOutput::new_builder()
        .capacity(capacity_bytes!(990))
        .lock(lock)
        .type_(Some(type_id_script))
        .build();
    let transaction = TransactionBuilder::default()
        .input(input.clone())
        .output(output_cell)
        .output_data(Bytes::new())
        .build();
    let resolved_input = CellMetaBuilder::from_cell_output(input_cell, Bytes::new())
        .out_point(input.previous_output())
        .build();
    ResolvedTransaction {
        transaction,
        resolved_cell_deps: vec![lock_cell],
        resolved_inputs: vec![resolved_input],
        resolved_dep_groups: vec![],
    }
}

/// A scripted multi-group transaction: deps[0] = spawn_cases (self-spawning programs always
/// spawn cell dep 0), deps[1] = exec_callee (exec_caller_from_cell_data execs cell dep 1).
/// `locks` / `types`: (binary, version, args).
fn multi_group_tx(
    locks: &[(&str, ScriptVersion, Vec<u8>)],
    types_in: &[(&str, ScriptVersion, Vec<u8>)],
    types_out: &[(&str, ScriptVersion, Vec<u8>)],
    type_id: bool,
) -> ResolvedTransaction {
    let mut deps: Vec<CellMeta> = vec![dep("spawn_cases").0, dep("exec_callee").0];
    let mut known: Vec<String> = vec!["spawn_cases".into(), "exec_callee".into()];
    let mut mk = |binary: &str, v: ScriptVersion, args: &[u8]| -> Script {
        let (cell, hash) = dep(binary);
        if !known.iter().any(|k| k == binary) {
            known.push(binary.to_string());
            deps.push(cell);
        }
        script(&hash, v.data_hash_type(), args)
    };
    let type_id_script = Script::new_builder()
        .args(Bytes::from(h256!("0x2222").as_ref().to_vec()))
        .code_hash(TYPE_ID_CODE_HASH)
        .hash_type(ScriptHashType::Type)
        .build();

    let mut inputs = vec![];
    let mut resolved_inputs = vec![];
    let mut in_types: Vec<Script> = vec![];
    if type_id {
        in_types.push(type_id_script.clone());
    }
    for (b, v, a) in types_in {
        in_types.push(mk(b, *v, a));
    }
    let n_in = locks.len().max(in_types.len()).max(1);
    for i in 0..n_in {
        let (b, v, a) = &locks[i % locks.len()];
        let lock = mk(b, *v, a);
        let ty = in_types.get(i).cloned();
        let out = CellOutput::new_builder()
            .capacity(capacity_bytes!(1000))
            .lock(lock)
            .type_(ty)
            .build();
        let mut h = [0u8; 32];
        h[0] = 0x77;
        h[1] = i as u8;
        let op = OutPoint::new(Byte32::from_slice(&h).unwrap(), i as u32);
        inputs.push(CellInput::new(op.clone(), 0));
        resolved_inputs.push(
            CellMetaBuilder::from_cell_output(out, Bytes::new())
                .out_point(op)
                .transaction_info(tx_info())
                .build(),
        );
    }
    let (b0, v0, a0) = &locks[0];
    let out_lock = mk(b0, *v0, a0);
    let mut tb = TransactionBuilder::default();
    for i in inputs {
        tb = tb.input(i);
    }
    if type_id {
        tb = tb
            .output(
                CellOutput::new_builder()
                    .capacity(capacity_bytes!(900))
                    .lock(out_lock.clone())
                    .type_(Some(type_id_script))
                    .build(),
            )
            .output_data(Bytes::new());
    }
    for (b, v, a) in types_out {
        let ty = mk(b, *v, a);
        tb = tb
            .output(
                CellOutput::new_builder()
                    .capacity(capacity_bytes!(100))
                    .lock(out_lock.clone())
                    .type_(Some(ty))
                    .build(),
            )
            .output_data(Bytes::new());
    }
    ResolvedTransaction {
        transaction: tb.build(),
        resolved_cell_deps: deps,
        resolved_inputs,
        resolved_dep_groups: vec![],
    }
}

fn cpop_args() -> Vec<u8> {
    let num0 = 0x0102030405060708u64;
    let num1 = u64::from(num0.count_ones());
    let mut v = Vec::new();
    v.extend_from_slice(&num0.to_le_bytes());
    v.extend_from_slice(&num1.to_le_bytes());
    v
}

fn is_even_args(number: u64) -> Vec<u8> {
    let (_, h) = dep("is_even.lib");
    let mut v = Vec::new();
    v.extend_from_slice(&number.to_le_bytes());
    v.extend_from_slice(&h.raw_data());
    v
}

fn arithmetic_args() -> Vec<u8> {
    let add1 = dep("add1.lib").1.raw_data();
    let sub1 = dep("sub1.lib").1.raw_data();
    let mul2 = dep("mul2.lib").1.raw_data();
    let div2 = dep("div2.lib").1.raw_data();
    let mut v = Vec::new();
    v.extend_from_slice(&0u64.to_le_bytes());
    v.extend_from_slice(&1u64.to_le_bytes());
    for op in [
        &add1, &mul2, &add1, &mul2, &mul2, &add1, &add1, &div2, &sub1, &div2, &sub1, &div2,
    ] {
        v.extend_from_slice(op);
    }
    v
}

fn stack_reuse_args(flag: u8, size: u64) -> Vec<u8> {
    let (_, h) = dep("is_even.lib");
    let mut v = Vec::new();
    v.extend_from_slice(&flag.to_le_bytes());
    v.extend_from_slice(&size.to_le_bytes());
    v.extend_from_slice(&h.raw_data());
    v
}

pub fn build(seed: u64, thorough: bool) -> Vec<Case> {
    let mut c = Corpus { cases: vec![] };
    let mut rng = Rng::new(seed ^ 0xC05C_05C0);

    // ---- single-VM basics -------------------------------------------------------------
    c.lock_cases("always_success", "", "always_success", &[], &[], &[], &ALL, &PLAIN);
    c.type_cases("always_success", "", "always_success", &[], &[], &ALL, &PLAIN);
    c.lock_cases("always_failure", "", "always_failure", &[], &[], &[], &ALL, &PLAIN);
    c.lock_cases("cadd_hint_lock", "", "cadd_hint_lock", &[], &[], &[], &ALL, &PLAIN);
    c.lock_cases("cpop_lock", "", "cpop_lock", &cpop_args(), &[], &[], &ALL, &PLAIN);
    c.lock_cases("mop_adc_lock", "", "mop_adc_lock", &[], &[], &[], &ALL, &PLAIN);
    c.lock_cases("jalr_zero", "", "jalr_zero", &[], &[], &[], &ALL, &PLAIN);
    c.lock_cases("current_cycles", "", "current_cycles", &[], &[], &[], &ALL, &PLAIN);
    c.type_cases("current_cycles", "", "current_cycles", &[], &[], &V12, &PLAIN);
    c.lock_cases(
        "current_cycles_with_snapshot",
        "",
        "current_cycles_with_snapshot",
        &[],
        &[],
        &[],
        &V12,
        &PAUSE,
    );
    c.lock_cases("vm_version", "", "vm_version", &[], &[], &[], &ALL, &PLAIN);
    c.lock_cases("vm_version_2", "", "vm_version_2", &[], &[], &[], &V12, &PLAIN);
    c.lock_cases(
        "vm_version_with_snapshot",
        "",
        "vm_version_with_snapshot",
        &[],
        &[],
        &[],
        &V12,
        &PAUSE,
    );
    c.type_cases("debugger", "", "debugger", &[], &[], &ALL, &PLAIN);
    c.lock_cases("infinite_loop", "", "infinite_loop", &[], &[], &[], &[ScriptVersion::V0, ScriptVersion::V2], &NONTERM);
    for f in ["crash-45a6098d", "crash-4717eb0e", "crash-5a27052f"] {
        c.lock_cases(f, "", f, &[], &[], &[], &ALL, &PLAIN);
    }

    // ---- a child that has terminated but is not yet waited for when the next one is spawned --
    // (root spawns worker A, which exits with 3 at once, counts for a while, spawns worker B,
    // then waits for both and checks the two exit codes; written for seeded change C05-8)
    c.lock_cases(
        "own_spawn_two_workers_joined_late",
        "",
        "own_spawn_two_workers_joined_late",
        &[],
        &[],
        &[],
        &[ScriptVersion::V2],
        &PLAIN,
    );

    // ---- load code --------------------------------------------------------------------
    let is_even = bin("is_even.lib");
    c.lock_cases(
        "load_is_even_into_global",
        "odd",
        "load_is_even_into_global",
        &is_even_args(1),
        &[is_even.clone()],
        &[],
        &ALL,
        &PLAIN,
    );
    c.lock_cases(
        "load_is_even_with_snapshot",
        "odd",
        "load_is_even_with_snapshot",
        &is_even_args(1),
        &[is_even.clone()],
        &[],
        &ALL,
        &PAUSE,
    );
    c.lock_cases(
        "load_is_even_with_snapshot",
        "even",
        "load_is_even_with_snapshot",
        &is_even_args(2),
        &[is_even.clone()],
        &[],
        &V12,
        &PAUSE,
    );
    c.lock_cases(
        "load_arithmetic",
        "",
        "load_arithmetic",
        &arithmetic_args(),
        &[bin("add1.lib"), bin("sub1.lib"), bin("mul2.lib"), bin("div2.lib")],
        &[],
        &ALL,
        &PAUSE,
    );
    for (tag, flag, size) in [
        ("load_and_write", 0b111u8, 40960u64),
        ("not_overlap", 0b111, 4),
        ("init_not_load", 0b101, 40960),
        ("load_not_write", 0x011, 40960),
    ] {
        c.lock_cases(
            "load_code_to_stack_then_reuse",
            tag,
            "load_code_to_stack_then_reuse",
            &stack_reuse_args(flag, size),
            &[is_even.clone()],
            &[],
            if tag == "load_and_write" { &ALL } else { &V12 },
            &PLAIN,
        );
    }

    // ---- exec -------------------------------------------------------------------------
    let exec_callee = bin("exec_callee");
    c.lock_cases(
        "exec_caller_from_cell_data",
        "",
        "exec_caller_from_cell_data",
        &[],
        &[exec_callee.clone()],
        &[],
        &ALL,
        &PLAIN,
    );
    c.type_cases(
        "exec_caller_from_cell_data",
        "",
        "exec_caller_from_cell_data",
        &[],
        &[exec_callee.clone()],
        &V12,
        &PLAIN,
    );
    c.lock_cases(
        "exec_caller_from_witness",
        "",
        "exec_caller_from_witness",
        &[],
        &[],
        &[exec_callee.clone()],
        &ALL,
        &PLAIN,
    );
    c.lock_cases(
        "exec_caller_from_cell_data",
        "callee_pause",
        "exec_caller_from_cell_data",
        &[],
        &[bin("exec_callee_pause")],
        &[],
        &V12,
        &PAUSE,
    );
    c.lock_cases(
        "exec_caller_from_cell_data",
        "wrong_callee_format",
        "exec_caller_from_cell_data",
        &[],
        &[Bytes::from_static(&[0, 1, 2, 3])],
        &[],
        &V12,
        &PLAIN,
    );
    c.lock_cases(
        "exec_caller_big_offset_length",
        "",
        "exec_caller_big_offset_length",
        &[],
        &[Bytes::from_static(&[0, 1, 2, 3])],
        &[],
        &V12,
        &PLAIN,
    );
    // (exec under VM1 rebuilds the machine in place and is slow: small budget)
    c.lock_cases("infinite_exec", "", "infinite_exec", &[], &[], &[], &[ScriptVersion::V1], &Opt { budget: 100_000, pause: false });
    c.lock_cases("infinite_exec", "", "infinite_exec", &[], &[], &[], &V2, &NONTERM);
    let callee_len = bin("exec_configurable_callee").len() as u64;
    let exec_cfgs: Vec<(u8, u64, u64, u64, From)> = vec![
        (0b0000, 1, 2, 1, From::TxCellDep),
        (0b0000, 1, 2, 1, From::TxInputWitness),
        (0b0000, 1, 2, 1, From::GroupOutputWitness),
        (0b0001, 1, 1, 1, From::TxInputCell),
        (0b0100, 1, 2, 2, From::TxOutputCell),
        (0b0111, 1, 1, 2, From::GroupInputCell),
        (0b0111, 1, 1, 2, From::GroupOutputCell),
        (0b0000, 1, 2, 1, From::Slice((10 << 32) | callee_len)),
        (0b0000, 1, 2, 1, From::Slice(((callee_len - 1) << 32) | 1)),
        (0b0111, 5, 3, 4, From::GroupInputWitness),
        (0b0000, 6, 7, 1, From::TxOutputWitness),
    ];
    for (flag, rec, num, exp, from) in exec_cfgs {
        for v in V12 {
            let rtx = exec_configurable(v, flag, rec, num, exp, from);
            c.push(
                "exec_configurable",
                &format!("f{flag:#06b},r{rec},n{num},e{exp},{}", from.tag()),
                vname(v),
                rtx,
                V2_EPOCH,
                &PAUSE,
            );
        }
    }

    // ---- type id + secp (several groups) ----------------------------------------------
    for v in ALL {
        c.push(
            "type_id",
            "1in1out,lock=always_success",
            vname(v),
            type_id_tx(v, "always_success", &[]),
            V2_EPOCH,
            &PLAIN,
        );
    }
    c.push(
        "type_id",
        "1in1out,lock=cpop",
        "v1",
        type_id_tx(ScriptVersion::V1, "cpop_lock", &cpop_args()),
        V2_EPOCH,
        &PLAIN,
    );
    for (epoch, v) in [(0u64, "v0"), (V1_EPOCH, "v1"), (V2_EPOCH, "v2")] {
        c.push("secp256k1_sighash_2in2out", "key42", v, secp_2_in_2_out(42), epoch, &PLAIN);
    }
    if thorough {
        let s = rng.below(1 << 30) + 100;
        c.push(
            "secp256k1_sighash_2in2out",
            &format!("key{s}"),
            "v2",
            secp_2_in_2_out(s),
            V2_EPOCH,
            &PLAIN,
        );
    }

    // ---- spawn ------------------------------------------------------------------------
    for id in 1u8..=19 {
        c.lock_cases(
            "spawn_cases",
            &format!("case{id}"),
            "spawn_cases",
            &[id],
            &[],
            &[],
            &V2,
            &PLAIN,
        );
    }
    c.lock_cases("spawn_cases", "case1", "spawn_cases", &[1], &[], &[], &[ScriptVersion::V1], &PLAIN);
    c.type_cases("spawn_cases", "case1", "spawn_cases", &[1], &[], &V2, &PLAIN);
    c.type_cases("spawn_cases", "case6", "spawn_cases", &[6], &[], &V2, &PLAIN);
    c.lock_cases(
        "spawn_caller_strcat",
        "",
        "spawn_caller_strcat",
        &[],
        &[bin("spawn_callee_strcat")],
        &[],
        &V12,
        &PLAIN,
    );
    c.lock_cases(
        "spawn_caller_out_of_cycles",
        "",
        "spawn_caller_out_of_cycles",
        &[],
        &[bin("spawn_callee_out_of_cycles")],
        &[],
        &V2,
        &NONTERM,
    );
    c.lock_cases(
        "spawn_caller_exec",
        "exec_caller+callee",
        "spawn_caller_exec",
        &[],
        &[bin("spawn_callee_exec_caller"), bin("spawn_callee_exec_callee")],
        &[],
        &V2,
        &PLAIN,
    );
    c.lock_cases(
        "spawn_caller_strcat_wrap",
        "",
        "spawn_caller_strcat_wrap",
        &[],
        &[bin("spawn_callee_strcat"), bin("spawn_caller_strcat")],
        &[],
        &V2,
        &PLAIN,
    );
    c.lock_cases(
        "spawn_caller_out_of_cycles_wrap",
        "",
        "spawn_caller_out_of_cycles_wrap",
        &[],
        &[bin("spawn_callee_out_of_cycles"), bin("spawn_caller_out_of_cycles")],
        &[],
        &V2,
        &NONTERM,
    );
    c.lock_cases("spawn_recursive", "", "spawn_recursive", &[], &[], &[], &V2, &PLAIN);
    c.lock_cases(
        "spawn_caller_exec",
        "current_cycles_with_snapshot",
        "spawn_caller_exec",
        &[],
        &[bin("current_cycles_with_snapshot")],
        &[],
        &V2,
        &PAUSE,
    );
    c.lock_cases(
        "spawn_caller_exec",
        "infinite_loop",
        "spawn_caller_exec",
        &[],
        &[bin("infinite_loop")],
        &[],
        &V2,
        &NONTERM,
    );
    c.lock_cases(
        "spawn_caller_current_cycles",
        "",
        "spawn_caller_current_cycles",
        &[],
        &[bin("spawn_callee_current_cycles")],
        &[],
        &V2,
        &PLAIN,
    );
    let spawn_cfgs: Vec<(From, u64)> = vec![
        (From::TxInputWitness, 0),
        (From::GroupOutputWitness, 0),
        (From::TxCellDep, 0),
        (From::TxInputCell, 0),
        (From::GroupOutputCell, 0),
        (From::Slice(1), 1),
    ];
    for (from, size) in spawn_cfgs {
        let rtx = spawn_configurable(ScriptVersion::V2, from, size);
        c.push(
            "spawn_configurable",
            &format!("{},{size}", from.tag()),
            "v2",
            rtx,
            V2_EPOCH,
            &PLAIN,
        );
    }
    c.lock_cases("spawn_huge_swap", "", "spawn_huge_swap", &[], &[], &[], &V2, &Opt { budget: 4_000_000, pause: false });
    c.lock_cases("spawn_cycles", "", "spawn_cycles", &[], &[bin("spawn_cycles")], &[], &V2, &PLAIN);
    for (io, check) in [(128u64, true), (128 + 1024, false), (7, true)] {
        let mut args = vec![0u8; 16];
        args[..8].copy_from_slice(&io.to_le_bytes());
        args[8] = check as u8;
        c.lock_cases(
            "spawn_io_cycles",
            &format!("io{io},check{}", check as u8),
            "spawn_io_cycles",
            &args,
            &[],
            &[],
            &V2,
            &PLAIN,
        );
    }
    c.lock_cases("spawn_saturate_memory", "", "spawn_saturate_memory", &[0], &[], &[], &V2, &PLAIN);
    c.lock_cases("spawn_times", "", "spawn_times", &[], &[], &[], &V2, &PLAIN);
    c.lock_cases("spawn_create_17_spawn", "", "spawn_create_17_spawn", &[], &[], &[], &V2, &PLAIN);

    // seeded: random IO command streams for parent and child (port of fuzz target syscall_spawn)
    let n_fuzz = if thorough { 12 } else { 4 };
    for i in 0..n_fuzz {
        // The program takes the command kind of *every* command from the first byte of the
        // witness (<=128 write, 129..=250 read, >250 close), then 3-byte buffer / length
        // pointers per command. Parent and child mostly get complementary kinds.
        let mk = |rng: &mut Rng, kind: u8| -> Bytes {
            let n = rng.range(1, 10) as usize;
            let mut w = vec![];
            for _ in 0..n {
                w.push(kind);
                if kind <= 250 {
                    let region = |rng: &mut Rng| -> u32 {
                        match rng.below(3) {
                            0 => 0x3F_E000 + rng.below(0x1F00) as u32, // stack
                            1 => 0x1_0000 + rng.below(0x8000) as u32,  // program image
                            _ => 0x2_0000 + rng.below(0x20000) as u32,
                        }
                    };
                    let p = region(rng);
                    let l = region(rng) & !7;
                    w.extend_from_slice(&p.to_le_bytes()[..3]);
                    w.extend_from_slice(&l.to_le_bytes()[..3]);
                }
            }
            w.into()
        };
        let (kp, kc) = match rng.below(6) {
            0 => (10u8, 200u8),
            1 => (200, 10),
            2 => (10, 10),
            3 => (200, 200),
            4 => (255, 10),
            _ => (10, 254),
        };
        let wp = mk(&mut rng, kp);
        let wc = mk(&mut rng, kc);
        c.lock_cases(
            "spawn_fuzzing",
            &format!("stream{i}"),
            "spawn_fuzzing",
            &[],
            &[],
            &[wp, wc],
            &V2,
            &PLAIN,
        );
    }

    // seeded spawn/pipe DAGs (port of test_random_dag without daggy/molecule crates)
    let n_dag = if thorough { 6 } else { 2 };
    for i in 0..n_dag {
        let spawns = rng.range(3, if thorough { 15 } else { 8 }) as usize;
        let writes = rng.range(2, if thorough { 24 } else { 8 }) as usize;
        let data = crate::dag::generate(&mut rng, spawns, writes);
        c.lock_cases(
            "spawn_dag",
            &format!("dag{i},s{spawns},w{writes}"),
            "spawn_dag",
            &[],
            &[],
            &[data],
            &V2,
            &PLAIN,
        );
    }

    // ---- scripted multi-group transactions --------------------------------------------
    use ScriptVersion::{V0 as S0, V1 as S1, V2 as S2};
    c.push(
        "multi_group",
        "3locks(spawn_cases 1,5,6)+type_id+2types",
        "mixed",
        multi_group_tx(
            &[
                ("spawn_cases", S2, vec![1]),
                ("spawn_cases", S2, vec![5]),
                ("spawn_cases", S2, vec![6]),
            ],
            &[("current_cycles", S1, vec![])],
            &[("cpop_lock", S2, cpop_args()), ("always_success", S0, vec![])],
            true,
        ),
        V2_EPOCH,
        &PLAIN,
    );
    c.push(
        "multi_group",
        "locks(always_success v0,cpop v1,exec v2)+types(spawn_cases 7,9)",
        "mixed",
        multi_group_tx(
            &[
                ("always_success", S0, vec![]),
                ("cpop_lock", S1, cpop_args()),
                ("exec_caller_from_cell_data", S2, vec![]),
            ],
            &[("spawn_cases", S2, vec![7]), ("spawn_cases", S2, vec![9])],
            &[("mop_adc_lock", S1, vec![])],
            false,
        ),
        V2_EPOCH,
        &PLAIN,
    );
    c.push(
        "multi_group",
        "locks(ok,ok)+failing type(always_failure)",
        "mixed",
        multi_group_tx(
            &[("always_success", S1, vec![]), ("cadd_hint_lock", S2, vec![])],
            &[],
            &[("always_failure", S1, vec![])],
            true,
        ),
        V2_EPOCH,
        &PLAIN,
    );
    c.push(
        "multi_group",
        "locks(spawn_cases 13,14)+deadlocking type(spawn_cases 2)",
        "mixed",
        multi_group_tx(
            &[("spawn_cases", S2, vec![13]), ("spawn_cases", S2, vec![14])],
            &[("spawn_cases", S2, vec![2])],
            &[],
            false,
        ),
        V2_EPOCH,
        &PLAIN,
    );
    // seeded random multi-group mixes
    let pool: Vec<(&str, Vec<ScriptVersion>, Vec<u8>)> = vec![
        ("always_success", ALL.to_vec(), vec![]),
        ("cadd_hint_lock", V12.to_vec(), vec![]),
        ("cpop_lock", V12.to_vec(), cpop_args()),
        ("mop_adc_lock", ALL.to_vec(), vec![]),
        ("current_cycles", V12.to_vec(), vec![]),
        ("exec_caller_from_cell_data", V12.to_vec(), vec![]),
        ("spawn_cases", V2.to_vec(), vec![1]),
        ("spawn_cases", V2.to_vec(), vec![3]),
        ("spawn_cases", V2.to_vec(), vec![5]),
        ("spawn_cases", V2.to_vec(), vec![8]),
        ("spawn_cases", V2.to_vec(), vec![12]),
        ("spawn_cases", V2.to_vec(), vec![19]),
    ];
    let n_mix = if thorough { 8 } else { 3 };
    for i in 0..n_mix {
        let pick = |rng: &mut Rng, n: usize| -> Vec<(&str, ScriptVersion, Vec<u8>)> {
            (0..n)
                .map(|_| {
                    let (b, vs, a) = rng.pick(&pool).clone();
                    (b, *rng.pick(&vs), a)
                })
                .collect()
        };
        let nl = rng.range(1, 3) as usize;
        let nti = rng.range(0, 2) as usize;
        let nto = rng.range(0, 2) as usize;
        let locks = pick(&mut rng, nl);
        let ti = pick(&mut rng, nti);
        let to = pick(&mut rng, nto);
        let tid = rng.bool();
        let desc = format!(
            "mix{i}:L{:?}/TI{:?}/TO{:?}/tid{}",
            locks.iter().map(|x| (x.0, vname(x.1), x.2.first().copied())).collect::<Vec<_>>(),
            ti.iter().map(|x| (x.0, vname(x.1), x.2.first().copied())).collect::<Vec<_>>(),
            to.iter().map(|x| (x.0, vname(x.1), x.2.first().copied())).collect::<Vec<_>>(),
            tid as u8
        );
        c.push(
            "multi_group",
            &desc,
            "mixed",
            multi_group_tx(&locks, &ti, &to, tid),
            V2_EPOCH,
            &PLAIN,
        );
    }

    c.cases
}
