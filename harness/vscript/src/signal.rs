//! Monitored runs (c): `resumable_verify_with_signal` under seeded Suspend / Resume / Stop
//! command sequences issued by a controller thread, with the `script::paused` hook counting the
//! pauses that really interrupted a running VM (and delaying there).

use crate::drive::{CaseCtx, Kind, Local, Verdict};
use crate::env::Verifier;
use ckb_script::ChunkCommand;
use serde_json::json;
use std::sync::Arc;
use std::sync::atomic::{AtomicBool, AtomicU64, Ordering};
use std::time::{Duration, Instant};
use tokio::sync::watch;
use vbase::Rng;

pub static PAUSES: AtomicU64 = AtomicU64::new(0);
pub static TASK_PANICS: AtomicU64 = AtomicU64::new(0);
pub static LAST_TASK_PANIC: std::sync::Mutex<String> = std::sync::Mutex::new(String::new());
static HOOK_DELAY_SEED: AtomicU64 = AtomicU64::new(0x9E3779B97F4A7C15);

pub fn install_hook() -> bool {
    ckb_script::verif::install(Box::new(|name| {
        if name == "script::paused" {
            PAUSES.fetch_add(1, Ordering::SeqCst);
            // small pseudo-random delay (0..~120us) while the VM sits paused
            let x = HOOK_DELAY_SEED
                .fetch_add(0x9E3779B97F4A7C15, Ordering::Relaxed)
                .wrapping_mul(0xBF58476D1CE4E5B9);
            let us = (x >> 58) * 2; // 0..126
            if us > 0 {
                spin(Duration::from_micros(us));
            }
        }
    }))
}

fn spin(d: Duration) {
    if d >= Duration::from_micros(400) {
        std::thread::sleep(d);
        return;
    }
    let t = Instant::now();
    while t.elapsed() < d {
        std::hint::spin_loop();
    }
}

#[derive(Clone, Debug)]
pub struct Step {
    pub delay_us: u64,
    pub cmd: ChunkCommand,
}

#[derive(Clone, Debug)]
pub struct SignalPlan {
    /// a Suspend is already pending when the verification starts
    pub pre_suspend: bool,
    pub steps: Vec<Step>,
    pub ends_with_stop: bool,
}

impl SignalPlan {
    pub fn describe(&self) -> String {
        let mut s = String::new();
        if self.pre_suspend {
            s.push_str("S0 ");
        }
        for st in &self.steps {
            s.push_str(&format!(
                "{}{} ",
                match st.cmd {
                    ChunkCommand::Suspend => "S",
                    ChunkCommand::Resume => "R",
                    ChunkCommand::Stop => "X",
                },
                st.delay_us
            ));
        }
        s
    }
}

/// `scale_us`: rough duration of the uninterrupted run, so that commands land inside it.
pub fn gen_plan(rng: &mut Rng, scale_us: u64, allow_stop: bool) -> SignalPlan {
    let pre_suspend = rng.chance(2, 3);
    let n = rng.range(1, 14);
    let mut steps = vec![];
    let mut suspended = pre_suspend;
    let delay = |rng: &mut Rng| -> u64 {
        match rng.below(6) {
            0 => 0,
            1 => rng.range(1, 8),
            2 => rng.range(5, 60),
            3 => rng.range(20, 400),
            _ => rng.range(0, scale_us.max(2) / 2),
        }
    };
    for _ in 0..n {
        let cmd = if suspended {
            // mostly resume; sometimes a redundant Suspend
            if rng.chance(1, 8) {
                ChunkCommand::Suspend
            } else {
                ChunkCommand::Resume
            }
        } else if rng.chance(1, 8) {
            ChunkCommand::Resume
        } else {
            ChunkCommand::Suspend
        };
        suspended = match cmd {
            ChunkCommand::Suspend => true,
            ChunkCommand::Resume => false,
            ChunkCommand::Stop => suspended,
        };
        steps.push(Step {
            delay_us: delay(rng),
            cmd,
        });
    }
    let ends_with_stop = allow_stop && rng.chance(1, 4);
    if ends_with_stop {
        steps.push(Step {
            delay_us: delay(rng),
            cmd: ChunkCommand::Stop,
        });
    }
    SignalPlan {
        pre_suspend,
        steps,
        ends_with_stop,
    }
}

pub enum SigEnd {
    Done(Verdict),
    Watchdog,
}

pub fn run_signal(
    rt: &tokio::runtime::Runtime,
    v: &Verifier,
    max_cycles: u64,
    plan: &SignalPlan,
    watchdog: Duration,
) -> SigEnd {
    let (tx, mut rx) = watch::channel(ChunkCommand::Resume);
    if plan.pre_suspend {
        let _ = tx.send(ChunkCommand::Suspend);
    }
    let done = Arc::new(AtomicBool::new(false));
    let done2 = Arc::clone(&done);
    let steps = plan.steps.clone();
    let ends_with_stop = plan.ends_with_stop;
    let tx = Arc::new(tx);
    let tx2 = Arc::clone(&tx);
    let controller = std::thread::spawn(move || {
        for st in steps {
            spin(Duration::from_micros(st.delay_us));
            if done2.load(Ordering::SeqCst) {
                return;
            }
            let _ = tx2.send(st.cmd);
        }
        // never leave the verification suspended: keep resuming until it is over
        let t0 = Instant::now();
        while !done2.load(Ordering::SeqCst) {
            if !ends_with_stop {
                let _ = tx2.send(ChunkCommand::Resume);
            } else if t0.elapsed() > Duration::from_millis(50) {
                // a Stop that was coalesced away by the watch channel: repeat it
                let _ = tx2.send(ChunkCommand::Stop);
            }
            spin(Duration::from_micros(150));
        }
    });
    let res = crate::drive::guarded(|| {
        rt.block_on(async {
            tokio::time::timeout(watchdog, v.resumable_verify_with_signal(max_cycles, &mut rx))
                .await
        })
    });
    done.store(true, Ordering::SeqCst);
    let out = match res {
        Ok(Ok(r)) => SigEnd::Done(Verdict::from(r)),
        Ok(Err(_)) => {
            let _ = tx.send(ChunkCommand::Stop);
            SigEnd::Watchdog
        }
        Err(p) => SigEnd::Done(Verdict::Panic(p)),
    };
    let _ = controller.join();
    out
}

pub struct SigStats {
    pub runs: u64,
    pub interrupted: u64,
}

pub fn signal_phase(
    cx: &CaseCtx,
    rt: &tokio::runtime::Runtime,
    v: &Verifier,
    n_plans: u64,
    rng: &mut Rng,
    l: &mut Local,
) -> SigStats {
    let r = cx.r;
    let mut st = SigStats {
        runs: 0,
        interrupted: 0,
    };
    let scale_us = (r.wall.as_micros() as u64).clamp(20, 200_000);
    let watchdog = Duration::from_secs(60) + r.wall * 200;
    for i in 0..n_plans {
        if Instant::now() > cx.deadline {
            l.count("cases_time_capped_signal");
            break;
        }
        // the first plan per case is the plain one (no command at all)
        let plan = if i == 0 {
            SignalPlan {
                pre_suspend: false,
                steps: vec![],
                ends_with_stop: false,
            }
        } else {
            gen_plan(rng, scale_us, true)
        };
        // budget: mostly the reference budget or more; sometimes exactly C; sometimes C-1
        let (max_cycles, short) = match r.kind {
            Kind::Exceeded => (r.c, false),
            _ => match rng.below(6) {
                0 => (r.c, false),
                1 if r.c > 0 && r.kind == Kind::Success => (r.c - 1, true),
                2 => (r.c.saturating_add(rng.range(1, 1 << 16)), false),
                _ => (u64::MAX, false),
            },
        };
        let desc = format!("{}max={max_cycles}", plan.describe());
        let pauses_before = PAUSES.load(Ordering::SeqCst);
        let end = run_signal(rt, v, max_cycles, &plan, watchdog);
        st.runs += 1;
        l.count("signal_runs");
        l.distinct_str(&format!("{}|signal|{desc}", cx.case.name));
        l.eval();
        match end {
            SigEnd::Watchdog => {
                l.count("signal_watchdog");
                l.inconclusive(&format!(
                    "watchdog: resumable_verify_with_signal did not return ({}; {desc})",
                    cx.case.name
                ));
                // a stuck run may keep a worker busy; stop driving this case
                break;
            }
            SigEnd::Done(got) => {
                let obs = json!({"mode": "signal", "plan": desc, "result": got.to_json(),
                    "pauses_during_run_global": PAUSES.load(Ordering::SeqCst) - pauses_before});
                let w = || {
                    json!({"case": cx.case.name, "program": cx.case.program,
                        "version": cx.case.version, "seed": cx.seed,
                        "reference": {"kind": format!("{:?}", r.kind), "verdict": r.verdict.to_json(), "c": r.c},
                        "observed": obs})
                };
                if let Verdict::Panic(msg) = &got {
                    // resumable_verify_with_signal itself panicked (the caller's thread)
                    let tag: String = msg
                        .chars()
                        .map(|c| if c.is_ascii_alphanumeric() { c } else { '_' })
                        .take(40)
                        .collect();
                    l.violation(
                        &format!("signal.panic@{tag}"),
                        format!(
                            "{}: {desc}: resumable_verify_with_signal panicked: {msg}; last panic of the spawned VM task: {}",
                            cx.case.name,
                            LAST_TASK_PANIC.lock().map(|g| g.clone()).unwrap_or_default()
                        ),
                        w(),
                    );
                    continue;
                }
                if got.is_interrupts() {
                    if plan.ends_with_stop {
                        st.interrupted += 1;
                        l.count("signal_stop_interrupted");
                    } else {
                        l.violation(
                            "signal.interrupted_without_stop",
                            format!("{}: {desc}: 'VM Interrupts' although no Stop was sent", cx.case.name),
                            w(),
                        );
                    }
                    continue;
                }
                if plan.ends_with_stop {
                    l.count("signal_stop_too_late");
                }
                let ok = if short || r.kind == Kind::Exceeded {
                    got.is_exceeded()
                } else {
                    got == r.verdict
                };
                if !ok {
                    let sig = if short && matches!(got, Verdict::Ok(_)) {
                        "signal.succeeds_over_budget".to_string()
                    } else if short && got.class() != "deadlock" {
                        format!("signal.short_budget_not_reported@{}", got.class())
                    } else {
                        // the listed finding `signal.cycles_changed` is specific: programs with
                        // several VMs report MORE cycles than the uninterrupted run (carried VM
                        // swap charges folded into the total at a pause); any other change of the
                        // cycle count gets a signature of its own
                        match (&got, &r.verdict) {
                            (Verdict::Ok(a), Verdict::Ok(b)) if a < b => "signal.cycles_lower_than_uninterrupted".to_string(),
                            (Verdict::Ok(_), Verdict::Ok(_)) if !cx.case.name.contains("spawn") => "signal.cycles_changed@single_vm".to_string(),
                            _ => crate::drive::mismatch_sig("signal", cx, &got, false),
                        }
                    };
                    l.violation(
                        &sig,
                        format!(
                            "{}: {desc}: expected {}, got {:?}",
                            cx.case.name,
                            if short || r.kind == Kind::Exceeded {
                                "ExceededMaximumCycles".to_string()
                            } else {
                                format!("{:?}", r.verdict)
                            },
                            got
                        ),
                        w(),
                    );
                }
            }
        }
    }
    st
}
