//! Monitored runs (a) chunked execution and (b) budgets, with the oracle comparing each of them
//! to the uninterrupted reference run.

use crate::cases::Case;
use crate::env::Verifier;
use ckb_script::{TransactionState, VerifyResult};
use serde_json::{Value, json};
use std::collections::{BTreeMap, BTreeSet};
use std::panic::{AssertUnwindSafe, catch_unwind};
use std::time::{Duration, Instant};
use vbase::{Rng, fnv1a};

// ------------------------------------------------------------------------------------------
// per-thread accumulation, merged into the Report by main
// ------------------------------------------------------------------------------------------

#[derive(Default)]
pub struct Local {
    pub evals: u64,
    pub counters: BTreeMap<String, u64>,
    pub distinct: BTreeSet<u64>,
    pub samples: Vec<Value>,
    pub violations: Vec<(String, String, Value)>,
    pub inconclusive: Vec<String>,
    pub per_case: Vec<Value>,
}

impl Local {
    pub fn eval(&mut self) {
        self.evals += 1;
    }
    pub fn count(&mut self, k: &str) {
        self.count_n(k, 1);
    }
    pub fn count_n(&mut self, k: &str, n: u64) {
        *self.counters.entry(k.to_string()).or_insert(0) += n;
    }
    pub fn distinct_str(&mut self, s: &str) {
        self.distinct.insert(fnv1a(s.as_bytes()));
    }
    pub fn violation(&mut self, sig: &str, detail: String, witness: Value) {
        self.count(&format!("violation::{sig}"));
        if self.violations.iter().filter(|v| v.0 == sig).count() == 0 {
            self.violations.push((sig.to_string(), detail, witness));
        }
    }
    pub fn inconclusive(&mut self, r: &str) {
        if !self.inconclusive.iter().any(|x| x == r) {
            self.inconclusive.push(r.to_string());
        }
    }
    pub fn merge(&mut self, o: Local) {
        self.evals += o.evals;
        for (k, n) in o.counters {
            *self.counters.entry(k).or_insert(0) += n;
        }
        self.distinct.extend(o.distinct);
        for s in o.samples {
            if self.samples.len() < 8 {
                self.samples.push(s);
            }
        }
        for v in o.violations {
            if !self.violations.iter().any(|x| x.0 == v.0) {
                self.violations.push(v);
            }
        }
        for r in o.inconclusive {
            self.inconclusive(&r);
        }
        self.per_case.extend(o.per_case);
    }
}

// ------------------------------------------------------------------------------------------
// verdicts
// ------------------------------------------------------------------------------------------

pub const EXCEEDED: &str = "ExceededMaximumCycles";
pub const INTERRUPTS: &str = "Interrupts";

#[derive(Clone, Debug, PartialEq, Eq)]
pub enum Verdict {
    Ok(u64),
    /// normalised error: the limit inside ExceededMaximumCycles is dropped (it is an input,
    /// not an observation); everything else is the full Display string.
    Err(String),
    Panic(String),
}

impl Verdict {
    pub fn from(r: Result<u64, ckb_error::Error>) -> Verdict {
        match r {
            Ok(c) => Verdict::Ok(c),
            Err(e) => Verdict::Err(norm_err(&e.to_string())),
        }
    }
    pub fn is_exceeded(&self) -> bool {
        matches!(self, Verdict::Err(s) if s == EXCEEDED)
    }
    pub fn is_interrupts(&self) -> bool {
        matches!(self, Verdict::Err(s) if s == INTERRUPTS)
    }
    /// short class used inside violation signatures
    pub fn class(&self) -> String {
        match self {
            Verdict::Ok(_) => "ok".into(),
            Verdict::Panic(_) => "panic".into(),
            Verdict::Err(s) => {
                if s == EXCEEDED || s == INTERRUPTS {
                    return s.clone();
                }
                if s.contains("deadlock") {
                    return "deadlock".into();
                }
                if let Some(p) = s.find("ValidationFailure") {
                    let code = s[p..]
                        .split("error code ")
                        .nth(1)
                        .and_then(|x| x.split(' ').next())
                        .unwrap_or("?");
                    return format!("ValidationFailure({code})");
                }
                if let Some(p) = s.find("VM Internal Error: ") {
                    let rest = &s[p + "VM Internal Error: ".len()..];
                    let name: String = rest
                        .chars()
                        .take_while(|c| c.is_ascii_alphanumeric())
                        .collect();
                    return format!("VMInternalError({name})");
                }
                if let Some(p) = s.find("cause: ") {
                    let rest = &s[p + 7..];
                    return rest
                        .chars()
                        .take_while(|c| c.is_ascii_alphanumeric())
                        .collect();
                }
                s.chars()
                    .filter(|c| c.is_ascii_alphanumeric())
                    .take(32)
                    .collect()
            }
        }
    }
    pub fn to_json(&self) -> Value {
        match self {
            Verdict::Ok(c) => json!({"ok_cycles": c}),
            Verdict::Err(e) => json!({"err": e}),
            Verdict::Panic(e) => json!({"panic": e}),
        }
    }
}

fn norm_err(s: &str) -> String {
    if s.contains("ExceededMaximumCycles") {
        EXCEEDED.to_string()
    } else if s.contains("VM Interrupts") {
        INTERRUPTS.to_string()
    } else {
        s.to_string()
    }
}

thread_local! {
    pub static CATCHING: std::cell::Cell<bool> = const { std::cell::Cell::new(false) };
}

/// Run code of the system under test; a panic becomes an observation instead of killing the run.
pub fn guarded<T>(f: impl FnOnce() -> T) -> Result<T, String> {
    CATCHING.with(|c| c.set(true));
    let r = catch_unwind(AssertUnwindSafe(f));
    CATCHING.with(|c| c.set(false));
    r.map_err(|e| {
        if let Some(s) = e.downcast_ref::<String>() {
            s.clone()
        } else if let Some(s) = e.downcast_ref::<&str>() {
            s.to_string()
        } else {
            "panic".to_string()
        }
    })
}

pub fn verify(v: &Verifier, max: u64) -> Verdict {
    match guarded(|| v.verify(max)) {
        Ok(r) => Verdict::from(r),
        Err(p) => Verdict::Panic(p),
    }
}

// ------------------------------------------------------------------------------------------
// reference
// ------------------------------------------------------------------------------------------

#[derive(Clone, Copy, Debug, PartialEq, Eq)]
pub enum Kind {
    /// verify(unlimited) == Ok(C)
    Success,
    /// verify(unlimited) fails with a script/VM error once `c` cycles are available
    Failure,
    /// the program does not terminate by design: verify(budget) == ExceededMaximumCycles
    Exceeded,
}

#[derive(Clone, Debug)]
pub struct Reference {
    pub kind: Kind,
    pub verdict: Verdict,
    /// Success: total cycles; Failure: minimal budget at which the failure (instead of the
    /// cycle limit) is reported; Exceeded: the case's budget.
    pub c: u64,
    pub wall: Duration,
}

pub fn reference(case: &Case, v: &Verifier, l: &mut Local) -> Option<Reference> {
    let t0 = Instant::now();
    let r = verify(v, case.ref_budget);
    let wall = t0.elapsed();
    match &r {
        Verdict::Panic(p) => {
            // not C05's business: the uninterrupted run itself is broken for this input
            l.count("reference_panicked");
            l.per_case
                .push(json!({"case": case.name, "skipped": format!("reference panicked: {p}")}));
            None
        }
        Verdict::Ok(c) => Some(Reference {
            kind: Kind::Success,
            verdict: r.clone(),
            c: *c,
            wall,
        }),
        Verdict::Err(_) if r.is_exceeded() => Some(Reference {
            kind: Kind::Exceeded,
            verdict: r,
            c: case.ref_budget,
            wall,
        }),
        Verdict::Err(_) => {
            // smallest budget that reports the failure rather than the cycle limit
            let mut hi: u64 = 1024;
            let mut lo: u64 = 0; // invariant: verify(lo - 1) != r  (lo = 0: nothing known)
            let cap = case.ref_budget.min(1 << 34);
            loop {
                if verify(v, hi) == r {
                    break;
                }
                lo = hi + 1;
                if hi >= cap {
                    hi = case.ref_budget;
                    break;
                }
                hi = (hi * 4).min(cap);
            }
            while lo < hi {
                let mid = lo + (hi - lo) / 2;
                if verify(v, mid) == r {
                    hi = mid;
                } else {
                    lo = mid + 1;
                }
            }
            Some(Reference {
                kind: Kind::Failure,
                verdict: r,
                c: hi,
                wall,
            })
        }
    }
}

// ------------------------------------------------------------------------------------------
// schedules
// ------------------------------------------------------------------------------------------

#[derive(Clone, Debug)]
pub enum Sched {
    /// every chunk gets `s` cycles
    Const(u64),
    /// the i-th chunk gets (i+1)*s cycles (TransactionState::next_limit_cycles policy)
    Grow(u64),
    /// first chunk `first`, then `k` chunks of `s`, then doubling
    Window { first: u64, s: u64, k: u32 },
    /// explicit per-chunk limits, then doubling
    Seq(Vec<u64>),
}

impl Sched {
    pub fn describe(&self) -> String {
        match self {
            Sched::Const(s) => format!("const:{s}"),
            Sched::Grow(s) => format!("grow:{s}"),
            Sched::Window { first, s, k } => format!("window:{first}+{k}x{s}"),
            Sched::Seq(v) => {
                let h = fnv1a(
                    &v.iter()
                        .flat_map(|x| x.to_le_bytes())
                        .collect::<Vec<u8>>(),
                );
                format!("seq:{}:{h:016x}", v.len())
            }
        }
    }
    fn limit(&self, i: u64, cap: u64) -> u64 {
        let dbl = |base: u64, n: u64| -> u64 {
            if n >= 63 {
                u64::MAX
            } else {
                base.max(1).saturating_mul(1u64 << n)
            }
        };
        match self {
            Sched::Const(s) => {
                if i < cap {
                    *s
                } else {
                    dbl(*s, i - cap + 1)
                }
            }
            Sched::Grow(s) => {
                if i < cap {
                    s.saturating_mul(i + 1)
                } else {
                    dbl(s.saturating_mul(cap + 1), i - cap + 1)
                }
            }
            Sched::Window { first, s, k } => {
                if i == 0 {
                    *first
                } else if i <= *k as u64 {
                    *s
                } else {
                    dbl(*s, i - *k as u64)
                }
            }
            Sched::Seq(v) => {
                if (i as usize) < v.len() {
                    v[i as usize]
                } else {
                    dbl(*v.last().unwrap_or(&1), i - v.len() as u64 + 1)
                }
            }
        }
    }
    /// rough number of chunks (for the cost model)
    pub fn est_chunks(&self, c: u64, cap: u64) -> u64 {
        match self {
            Sched::Const(s) => (c / (*s).max(1)).min(cap) + 24,
            Sched::Grow(s) => (((2 * c / (*s).max(1)) as f64).sqrt() as u64).min(cap) + 24,
            Sched::Window { k, .. } => *k as u64 + 24,
            Sched::Seq(v) => v.len() as u64 + 24,
        }
    }
}

#[derive(Clone, Debug)]
pub enum Probe {
    /// at the n-th suspension call `complete(state, budget)`
    Complete { at: u64, budget: u64 },
}

#[derive(Debug)]
pub enum End {
    Done(Verdict),
    /// consumed more than the reference budget without finishing (expected for Kind::Exceeded)
    OverBudget(u64),
    /// no progress although the chunk limit was practically unlimited
    HardStall,
    /// harness cap on the number of chunks
    ChunkCap,
}

pub struct RunOut {
    pub end: End,
    pub chunks: u64,
    pub suspensions: u64,
    pub stalls: u64,
    pub limits: Vec<u64>,
    pub first_limit: u64,
    pub completed_in_first: bool,
    /// (consumed at probe, consumed by the suspended group alone, budget, verdict)
    pub probe_result: Option<(u64, u64, u64, Verdict)>,
    pub max_vms: u64,
}

fn state_key(st: &TransactionState) -> (usize, u64, u64) {
    (
        st.current,
        st.current_cycles,
        st.state.as_ref().map(|s| s.total_cycles).unwrap_or(0),
    )
}

pub fn group_consumed(st: &TransactionState) -> u64 {
    st.state.as_ref().map(|s| s.total_cycles).unwrap_or(0)
}

pub fn consumed(st: &TransactionState) -> u64 {
    st.current_cycles
        .saturating_add(st.state.as_ref().map(|s| s.total_cycles).unwrap_or(0))
}

/// Drive `resumable_verify` + `resume_from_state` with the limits of `sched`. When a chunk makes
/// no progress at all (its limit is below the cost of the next instruction / syscall / TYPE_ID
/// script, which is by design), the limit is doubled until progress resumes, exactly like a
/// caller using `next_limit_cycles` would grow it.
pub fn run_chunked(
    v: &Verifier,
    sched: &Sched,
    stop_over: u64,
    max_limit: u64,
    clamp_to_budget: bool,
    cap_chunks: u64,
    extra_chunks: u64,
    probe: Option<&Probe>,
) -> RunOut {
    let mut out = RunOut {
        end: End::ChunkCap,
        chunks: 0,
        suspensions: 0,
        stalls: 0,
        limits: vec![],
        first_limit: 0,
        completed_in_first: false,
        probe_result: None,
        max_vms: 1,
    };
    let mut state: Option<TransactionState> = None;
    let mut prev_key = None;
    let mut boost: u64 = 0;
    let hard_cap = cap_chunks + 400 + extra_chunks;
    let mut i = 0u64;
    let mut used_so_far = 0u64;
    loop {
        if out.chunks >= hard_cap {
            out.end = End::ChunkCap;
            return out;
        }
        let mut limit = sched.limit(i, cap_chunks).max(boost).min(max_limit);
        if clamp_to_budget {
            // programs that never terminate: no chunk may run past the reference budget, so
            // that any verdict other than "still running" was produced within that budget
            limit = limit.min(stop_over.saturating_sub(used_so_far).max(1));
        }
        if out.limits.len() < 48 {
            out.limits.push(limit);
        }
        if out.chunks == 0 {
            out.first_limit = limit;
        }
        let res = guarded(|| match &state {
            None => v.resumable_verify(limit),
            Some(st) => v.resume_from_state(st, limit),
        });
        out.chunks += 1;
        i += 1;
        match res {
            Err(p) => {
                out.end = End::Done(Verdict::Panic(p));
                return out;
            }
            Ok(Err(e)) => {
                out.end = End::Done(Verdict::Err(norm_err(&e.to_string())));
                return out;
            }
            Ok(Ok(VerifyResult::Completed(c))) => {
                out.completed_in_first = out.chunks == 1;
                out.end = End::Done(Verdict::Ok(c));
                return out;
            }
            Ok(Ok(VerifyResult::Suspended(st))) => {
                out.suspensions += 1;
                if let Some(Probe::Complete { at, budget }) = probe {
                    if *at + 1 == out.suspensions {
                        let r = match guarded(|| v.complete(&st, *budget)) {
                            Ok(r) => Verdict::from(r),
                            Err(p) => Verdict::Panic(p),
                        };
                        out.probe_result = Some((consumed(&st), group_consumed(&st), *budget, r));
                    }
                }
                if let Some(fs) = &st.state {
                    out.max_vms = out.max_vms.max(fs.vms.len() as u64);
                }
                let key = state_key(&st);
                if Some(key) == prev_key {
                    out.stalls += 1;
                    if clamp_to_budget && limit >= stop_over.saturating_sub(used_so_far).max(1) {
                        // cannot make another step inside the budget: "still running at the
                        // end of the budget"
                        out.end = End::OverBudget(consumed(&st));
                        return out;
                    }
                    if limit >= max_limit && !clamp_to_budget {
                        out.end = End::HardStall;
                        return out;
                    }
                    boost = limit.max(1).saturating_mul(2);
                } else {
                    boost = 0;
                }
                prev_key = Some(key);
                let used = consumed(&st);
                used_so_far = used;
                if used > stop_over {
                    out.end = End::OverBudget(used);
                    return out;
                }
                state = Some(st);
            }
        }
    }
}

// ------------------------------------------------------------------------------------------
// planning
// ------------------------------------------------------------------------------------------

pub struct Plan {
    pub scheds: Vec<Sched>,
    pub exhaustive_const: bool,
    pub cap_chunks: u64,
    /// suspensions the program itself requests (DEBUG_PAUSE), on top of the limits
    pub extra_chunks: u64,
}

const PRIMES: [u64; 24] = [
    5, 7, 11, 13, 17, 19, 23, 29, 31, 37, 41, 43, 47, 53, 59, 61, 67, 71, 73, 79, 83, 89, 97, 101,
];

/// Cost model (deterministic, in estimated micro-seconds of one thread): a chunk costs the
/// construction of the VMs plus restoring / capturing the state (proportional to its size);
/// execution itself runs at roughly 700 cycles per micro-second.
pub fn chunk_cost_us(state_size: u64, vms: u64) -> u64 {
    450 * vms.max(1) + state_size / 2_500
}
const CYCLES_PER_US: u64 = 700;

fn log_uniform(rng: &mut Rng, lo: u64, hi: u64) -> u64 {
    let lo = lo.max(1);
    if hi <= lo {
        return lo;
    }
    let bits_lo = 63 - lo.leading_zeros() as u64;
    let bits_hi = 63 - hi.leading_zeros() as u64;
    let b = rng.range(bits_lo, bits_hi);
    let base = 1u64 << b;
    (base + rng.below(base)).clamp(lo, hi)
}

pub fn random_seq(rng: &mut Rng, c: u64) -> Sched {
    let m = rng.range(2, 48);
    let mean = (c / m).max(1);
    let n = rng.range(1, 2 * m);
    let mut v = Vec::with_capacity(n as usize);
    for _ in 0..n {
        let x = match rng.below(10) {
            0 => rng.range(1, 600),
            1 => log_uniform(rng, 1, c.max(2)),
            2 => mean.saturating_mul(rng.range(2, 6)),
            _ => rng.range(mean / 2 + 1, mean + mean / 2 + 1),
        };
        v.push(x);
    }
    Sched::Seq(v)
}

pub fn plan(
    r: &Reference,
    thorough: bool,
    work_us: u64,
    state_size: u64,
    vms: u64,
    rng: &mut Rng,
) -> Plan {
    let c = r.c.max(1);
    let k_c = chunk_cost_us(state_size, vms);
    // at most ~1/12 of the case budget for a single run
    let cap_chunks: u64 = (work_us / 12 / k_c).clamp(48, if thorough { 4096 } else { 512 });
    let small_limit: u64 = if thorough { 50_000 } else { 4_000 };
    let mut scheds: Vec<Sched> = vec![];
    let mut spent: u64 = 0;
    let cost = |s: &Sched| -> u64 { c / CYCLES_PER_US + s.est_chunks(c, cap_chunks) * k_c };
    let mut exhaustive_const = false;

    if c <= small_limit && r.kind != Kind::Exceeded {
        // every constant step size 1..=C+1
        for s in 1..=c + 1 {
            scheds.push(Sched::Const(s));
        }
        exhaustive_const = true;
        let n_extra = if thorough { 400 } else { 60 };
        for i in 0..n_extra {
            scheds.push(match i % 3 {
                0 => Sched::Grow(rng.range(1, c)),
                1 => random_seq(rng, c),
                _ => Sched::Window {
                    first: rng.range(0, c),
                    s: rng.range(1, 64),
                    k: rng.range(1, 40) as u32,
                },
            });
        }
        return Plan {
            scheds,
            exhaustive_const,
            cap_chunks: c + 64,
            extra_chunks: 0,
        };
    }

    // candidate list in priority order (interleaved categories), cut by the work budget
    let mut cands: Vec<Sched> = vec![];
    let mut steps: Vec<u64> = vec![c, c - 1, c + 1, 1, 2, 3, c / 2, c / 2 + 1, c / 3, c / 7 + 1];
    let mut p = 4u64;
    while p / 2 < c {
        steps.extend_from_slice(&[p - 1, p, p + 1]);
        p = p.saturating_mul(2);
        if p == 0 {
            break;
        }
    }
    steps.extend_from_slice(&PRIMES);
    let n_rand_steps = if thorough { 400 } else { 150 };
    for _ in 0..n_rand_steps {
        steps.push(log_uniform(rng, 1, c + 1));
    }
    let mut seen = BTreeSet::new();
    steps.retain(|s| *s >= 1 && seen.insert(*s));
    let n_seq = if thorough { 2000 } else { 80 };
    let n_win = if thorough { 600 } else { 80 };
    let mut si = steps.into_iter();
    let mut seqs = 0;
    let mut wins = 0;
    loop {
        let mut any = false;
        if let Some(s) = si.next() {
            cands.push(Sched::Const(s));
            if s < c / 4 && s % 3 == 1 {
                cands.push(Sched::Grow(s));
            }
            any = true;
        }
        if seqs < n_seq {
            cands.push(random_seq(rng, c));
            seqs += 1;
            any = true;
        }
        if wins < n_win {
            // fine-grained chunks deep inside the execution
            cands.push(Sched::Window {
                first: rng.range(0, c),
                s: match rng.below(4) {
                    0 => rng.range(1, 10),
                    1 => rng.range(10, 1000),
                    2 => rng.range(500, 1500),
                    _ => log_uniform(rng, 1, c / 4 + 1),
                },
                k: rng.range(1, 60) as u32,
            });
            wins += 1;
            any = true;
        }
        if !any {
            break;
        }
    }
    for s in cands {
        let k = cost(&s);
        if spent + k > work_us && scheds.len() >= 12 {
            break;
        }
        spent += k;
        scheds.push(s);
    }
    Plan {
        scheds,
        exhaustive_const,
        cap_chunks,
        extra_chunks: 0,
    }
}

// ------------------------------------------------------------------------------------------
// the oracle for one case: (a) chunked runs, (b) budgets
// ------------------------------------------------------------------------------------------

pub struct CaseCtx<'a> {
    pub case: &'a Case,
    pub r: &'a Reference,
    pub seed: u64,
    pub deadline: Instant,
}

fn witness(cx: &CaseCtx, what: &str, extra: Value) -> Value {
    json!({
        "case": cx.case.name, "program": cx.case.program, "version": cx.case.version,
        "seed": cx.seed, "what": what,
        "reference": {"kind": format!("{:?}", cx.r.kind), "verdict": cx.r.verdict.to_json(), "c": cx.r.c},
        "observed": extra,
    })
}

/// Signature of a result that differs from the reference. A "deadlock" error that the reference
/// does not have (or has in another script group) is one specific failure of suspending at a
/// cycle limit and resuming, whatever API the state went through afterwards.
pub fn mismatch_sig(mode: &str, cx: &CaseCtx, got: &Verdict, multi_vm_seen: bool) -> String {
    let r = cx.r;
    let multi_vm = multi_vm_seen || cx.case.name.contains("spawn");
    if got.class() == "deadlock" {
        return if mode == "signal" {
            "signal.spurious_deadlock".to_string()
        } else {
            "chunked.spurious_deadlock".to_string()
        };
    }
    let m = if mode == "signal" { "signal" } else { "chunked" };
    match (got, &r.verdict) {
        (Verdict::Ok(a), Verdict::Ok(b)) if m == "chunked" => {
            let _ = (a, b);
            if multi_vm {
                "chunked.cycles_changed@multi_vm".to_string()
            } else {
                "chunked.cycles_changed@single_vm".to_string()
            }
        }
        (Verdict::Ok(_), Verdict::Ok(_)) => format!("{m}.cycles_changed"),
        _ => format!("{m}.verdict_changed@{}->{}", r.verdict.class(), got.class()),
    }
}

/// Compare the end of a chunked run with the reference.
fn judge_chunked(cx: &CaseCtx, l: &mut Local, mode: &str, desc: &str, out: &RunOut) {
    let r = cx.r;
    l.eval();
    let obs = |o: &RunOut| {
        json!({"mode": mode, "schedule": desc, "limits_head": o.limits, "chunks": o.chunks,
               "vms_seen": o.max_vms,
               "suspensions": o.suspensions, "stalls": o.stalls, "end": format!("{:?}", o.end)})
    };
    match (&out.end, r.kind) {
        (End::ChunkCap, _) => {
            l.count("chunk_cap_hit");
            l.inconclusive(&format!(
                "a chunked run hit the harness chunk cap ({} {mode} {desc} chunks={} stalls={} limits_head={:?})",
                cx.case.name, out.chunks, out.stalls, out.limits
            ));
        }
        (End::HardStall, _) => {
            l.violation(
                "chunked.no_progress_with_unbounded_limit",
                format!(
                    "{}: {desc}: a chunk with a limit above twice the total cost neither progressed nor finished",
                    cx.case.name
                ),
                witness(cx, "hard stall", obs(out)),
            );
        }
        (End::OverBudget(_), Kind::Exceeded) => {
            l.count("chunked_nonterminating_over_budget_ok");
        }
        (End::OverBudget(used), _) => {
            l.violation(
                if out.max_vms > 1 || cx.case.name.contains("spawn") {
                    "chunked.consumed_more_than_total@multi_vm"
                } else {
                    "chunked.consumed_more_than_total@single_vm"
                },
                format!(
                    "{}: {mode} {desc}: suspended state reports {used} consumed cycles > reference total {}",
                    cx.case.name, r.c
                ),
                witness(cx, "consumed > C while still suspended", obs(out)),
            );
        }
        (End::Done(v), Kind::Exceeded) => {
            // a program that does not finish within the budget must not finish in fewer cycles
            if !v.is_exceeded() {
                l.violation(
                    &mismatch_sig(mode, cx, v, out.max_vms > 1),
                    format!(
                        "{}: {desc}: reference exceeds {} cycles, chunked run ended with {:?}",
                        cx.case.name, r.c, v
                    ),
                    witness(cx, "verdict", obs(out)),
                );
            }
        }
        (End::Done(v), _) => {
            if *v != r.verdict {
                let sig = mismatch_sig(mode, cx, v, out.max_vms > 1);
                if let (Verdict::Ok(a), Verdict::Ok(b)) = (v, &r.verdict) {
                    if std::env::var("VSCRIPT_DEBUG_DIFF").is_ok() {
                        l.count(&format!("dbg_cycle_diff_{}", *a as i64 - *b as i64));
                    }
                }
                l.violation(
                    &sig,
                    format!(
                        "{}: {mode} {desc}: expected {:?}, chunked run gave {:?} after {} chunks",
                        cx.case.name, r.verdict, v, out.chunks
                    ),
                    witness(cx, "verdict/cycles", obs(out)),
                );
            } else if r.kind == Kind::Success && out.completed_in_first && out.first_limit < r.c {
                l.violation(
                    "chunked.completed_under_limit",
                    format!(
                        "{}: {desc}: first chunk limit {} < C={} but the run completed",
                        cx.case.name, out.first_limit, r.c
                    ),
                    witness(cx, "completed under limit", obs(out)),
                );
            }
        }
    }
}

/// `complete(state, budget)` must behave like `verify(budget)`.
#[allow(clippy::too_many_arguments)]
fn judge_complete(
    cx: &CaseCtx,
    l: &mut Local,
    desc: &str,
    consumed_at: u64,
    group_at: u64,
    budget: u64,
    got: &Verdict,
    multi_vm_seen: bool,
) {
    let r = cx.r;
    if r.kind == Kind::Failure && budget < r.c {
        // which of "the failure" / "the cycle limit" a failing script reports under a short
        // budget is not fixed by the property: not judged
        l.count("complete_probes_not_judged");
        return;
    }
    l.eval();
    l.count("complete_probes");
    let expect_ref = match r.kind {
        Kind::Success | Kind::Failure => budget >= r.c,
        Kind::Exceeded => false,
    };
    let obs = json!({"mode": "complete", "schedule": desc, "state_consumed": consumed_at,
                     "state_consumed_by_suspended_group": group_at,
                     "budget": budget, "result": got.to_json()});
    if expect_ref {
        l.count("complete_probes_enough_budget");
        if *got != r.verdict {
            let sig = mismatch_sig("complete", cx, got, multi_vm_seen);
            l.violation(
                &sig,
                format!(
                    "{}: {desc}: complete(state@{consumed_at}, {budget}) gave {:?}, expected {:?}",
                    cx.case.name, got, r.verdict
                ),
                witness(cx, "complete with enough budget", obs),
            );
        }
    } else {
        l.count("complete_probes_short_budget");
        if !got.is_exceeded() {
            let sig = match got {
                // (the suffix tells whether "the budget was only applied to what the suspended
                // group still had to run" would explain the success)
                Verdict::Ok(_) if budget >= r.c.saturating_sub(group_at) => {
                    "complete.succeeds_over_budget@budget>=C-suspended_group_consumed".to_string()
                }
                Verdict::Ok(_) => {
                    "complete.succeeds_over_budget@budget<C-suspended_group_consumed".to_string()
                }
                _ if got.class() == "deadlock" => "chunked.spurious_deadlock".to_string(),
                _ => format!("complete.short_budget_not_reported@{}", got.class()),
            };
            l.violation(
                &sig,
                format!(
                    "{}: {desc}: complete(state@{consumed_at}, budget {budget}) gave {:?}; the uninterrupted cost is {} so the cycle limit must be reported",
                    cx.case.name, got, r.c
                ),
                witness(cx, "complete with short budget", obs),
            );
        }
    }
}

fn pick_budget(r: &Reference, rng: &mut Rng, consumed_hint: u64) -> u64 {
    let c = r.c;
    match r.kind {
        Kind::Exceeded => c,
        Kind::Failure => match rng.below(4) {
            0 => c,
            1 => c + 1,
            2 => c.saturating_add(rng.range(1, 1 << 20)),
            _ => u64::MAX,
        },
        Kind::Success => match rng.below(8) {
            0 => c,
            1 => c + 1,
            2 => c.saturating_add(rng.range(1, 1 << 20)),
            3 => u64::MAX,
            4 => c.saturating_sub(1),
            5 => rng.range(consumed_hint.min(c.saturating_sub(1)), c.saturating_sub(1)),
            6 => c.saturating_sub(rng.range(1, 600).min(c)),
            _ => rng.range(0, c.saturating_sub(1)),
        },
    }
}

pub struct CaseStats {
    pub runs: u64,
    pub runs_suspended: u64,
    pub suspensions: u64,
    pub stalls: u64,
    pub time_capped: bool,
    pub exhaustive_const: bool,
}

pub fn chunk_phase(
    cx: &CaseCtx,
    v: &Verifier,
    mode: &str,
    plan: &Plan,
    rng: &mut Rng,
    l: &mut Local,
) -> CaseStats {
    let r = cx.r;
    let mut st = CaseStats {
        runs: 0,
        runs_suspended: 0,
        suspensions: 0,
        stalls: 0,
        time_capped: false,
        exhaustive_const: plan.exhaustive_const,
    };
    let stop_over = r.c;
    // a limit that is "practically unlimited" for this case; it also bounds the damage of a
    // defect that would turn a terminating program into a non-terminating one
    let max_limit = if mode == "pause" && r.kind != Kind::Exceeded {
        u64::MAX
    } else {
        r.c.saturating_mul(2).saturating_add(4_000_000)
    };
    for (idx, sched) in plan.scheds.iter().enumerate() {
        if Instant::now() > cx.deadline {
            st.time_capped = true;
            st.exhaustive_const = false;
            l.count("cases_time_capped");
            break;
        }
        let desc = sched.describe();
        // a `complete` probe on a fraction of the runs
        let est = sched.est_chunks(r.c, plan.cap_chunks).max(1);
        // (not in pause mode: `complete` reports any suspension, also a program-requested
        // DEBUG_PAUSE, as the cycle limit - that syscall only exists in tests)
        let probe = if mode != "pause" && rng.chance(1, if plan.exhaustive_const { 3 } else { 2 }) {
            let at = if rng.chance(1, 3) { 0 } else { rng.below(est.min(64)) };
            let hint = rng.below(r.c.max(1));
            Some(Probe::Complete {
                at,
                budget: pick_budget(r, rng, hint),
            })
        } else {
            None
        };
        let out = run_chunked(
            v,
            sched,
            stop_over,
            max_limit,
            r.kind == Kind::Exceeded,
            plan.cap_chunks,
            plan.extra_chunks,
            probe.as_ref(),
        );
        st.runs += 1;
        st.suspensions += out.suspensions;
        st.stalls += out.stalls;
        if out.suspensions > 0 {
            st.runs_suspended += 1;
        }
        l.distinct_str(&format!("{}|{mode}|{desc}", cx.case.name));
        l.count(&format!(
            "{mode}_runs_{}",
            match sched {
                Sched::Const(_) => "const",
                Sched::Grow(_) => "grow",
                Sched::Window { .. } => "window",
                Sched::Seq(_) => "seq",
            }
        ));
        judge_chunked(cx, l, mode, &desc, &out);
        if let Some((consumed_at, group_at, budget, got)) = &out.probe_result {
            judge_complete(cx, l, &desc, *consumed_at, *group_at, *budget, got, out.max_vms > 1);
        }
        if idx < 2 && l.samples.len() < 3 && out.suspensions > 1 {
            l.samples.push(json!({"case": cx.case.name, "mode": mode, "schedule": desc,
                "chunks": out.chunks, "suspensions": out.suspensions, "stalls": out.stalls,
                "limits_head": out.limits.iter().take(8).collect::<Vec<_>>(),
                "end": format!("{:?}", out.end), "reference_c": r.c}));
        }
    }
    st
}

/// (b) budgets around the exact cost.
pub fn budget_phase(cx: &CaseCtx, v: &Verifier, rng: &mut Rng, l: &mut Local, thorough: bool) {
    let r = cx.r;
    let c = r.c;
    let check = |l: &mut Local, what: &str, budget: u64, got: Verdict, want_ref: bool| {
        l.eval();
        l.count("budget_checks");
        let ok = if want_ref {
            got == r.verdict
        } else {
            got.is_exceeded()
        };
        if !ok {
            let sig = if want_ref {
                format!("budget.{what}.enough_budget@{}->{}", r.verdict.class(), got.class())
            } else {
                format!("budget.{what}.short_budget@{}", got.class())
            };
            l.violation(
                &sig,
                format!(
                    "{}: {what}({budget}) gave {:?}; reference {:?} with cost {c}",
                    cx.case.name, got, r.verdict
                ),
                witness(cx, what, json!({"budget": budget, "result": got.to_json()})),
            );
        }
    };
    match r.kind {
        Kind::Exceeded => {
            // cheaper budgets must report the limit as well
            for b in [0, 1, c / 2, c - 1] {
                check(l, "verify", b, verify(v, b), false);
            }
        }
        Kind::Success | Kind::Failure => {
            check(l, "verify", c, verify(v, c), true);
            check(l, "verify", c + 1, verify(v, c + 1), true);
            let n = if thorough { 12 } else { 4 };
            for _ in 0..n {
                let b = c.saturating_add(rng.biased_u64() >> rng.below(40)).max(c);
                check(l, "verify", b, verify(v, b), true);
            }
            if c > 0 {
                check(l, "verify", c - 1, verify(v, c - 1), false);
                for _ in 0..n {
                    let b = match rng.below(3) {
                        0 => c - 1 - rng.below(c.min(600)),
                        1 => rng.below(c),
                        _ => log_uniform(rng, 1, c) - 1,
                    };
                    check(l, "verify", b, verify(v, b), false);
                }
            }
            // resumable_verify with exactly C must complete in one chunk with C cycles
            let one = match guarded(|| v.resumable_verify(c)) {
                Ok(Ok(VerifyResult::Completed(x))) => Verdict::Ok(x),
                Ok(Ok(VerifyResult::Suspended(_))) => Verdict::Err("Suspended".into()),
                Ok(Err(e)) => Verdict::Err(norm_err(&e.to_string())),
                Err(p) => Verdict::Panic(p),
            };
            check(l, "resumable_verify", c, one, true);
            if c > 0 && r.kind == Kind::Success {
                // with C-1 it must suspend, and completing that state with C-1 must report the
                // limit while completing it with C must give (R, C)
                match guarded(|| v.resumable_verify(c - 1)) {
                    Ok(Ok(VerifyResult::Suspended(st))) => {
                        l.eval();
                        l.count("budget_checks");
                        let used = consumed(&st);
                        for b in [c - 1, c] {
                            let got = match guarded(|| v.complete(&st, b)) {
                                Ok(x) => Verdict::from(x),
                                Err(p) => Verdict::Panic(p),
                            };
                            judge_complete(
                                cx,
                                l,
                                "resumable_verify(C-1)",
                                used,
                                group_consumed(&st),
                                b,
                                &got,
                                false,
                            );
                        }
                    }
                    other => {
                        let got = match other {
                            Ok(Ok(VerifyResult::Completed(x))) => Verdict::Ok(x),
                            Ok(Err(e)) => Verdict::Err(norm_err(&e.to_string())),
                            Err(p) => Verdict::Panic(p),
                            _ => unreachable!(),
                        };
                        check(l, "resumable_verify", c - 1, got, false);
                    }
                }
            }
        }
    }
}

/// Debug / replay helper: explicit per-chunk limits (the last one repeats), state printed after
/// every chunk.
pub fn trace_chunks(v: &Verifier, limits: &[u64]) {
    let mut state: Option<TransactionState> = None;
    for i in 0..10_000usize {
        let limit = *limits.get(i).or(limits.last()).unwrap_or(&u64::MAX);
        let res = guarded(|| match &state {
            None => v.resumable_verify(limit),
            Some(st) => v.resume_from_state(st, limit),
        });
        match res {
            Err(p) => {
                println!("chunk {i} limit {limit}: PANIC {p}");
                return;
            }
            Ok(Err(e)) => {
                println!("chunk {i} limit {limit}: ERROR {e}");
                return;
            }
            Ok(Ok(VerifyResult::Completed(c))) => {
                println!("chunk {i} limit {limit}: COMPLETED cycles={c}");
                return;
            }
            Ok(Ok(VerifyResult::Suspended(st))) => {
                let vms = st.state.as_ref().map(|s| {
                    s.vms
                        .iter()
                        .map(|(id, state, _)| format!("{id}:{state:?}"))
                        .collect::<Vec<_>>()
                });
                println!(
                    "chunk {i} limit {limit}: SUSPENDED group={} prev_groups_cycles={} group_total={:?} iteration_cycles={:?} fds={:?} vms={:?}",
                    st.current,
                    st.current_cycles,
                    st.state.as_ref().map(|s| s.total_cycles),
                    st.state.as_ref().map(|s| s.iteration_cycles),
                    st.state.as_ref().map(|s| s.fds.len()),
                    vms
                );
                state = Some(st);
            }
        }
    }
}

/// Calibration: constant chunks of `step`; returns (chunks, max captured state size, wall).
pub fn calibrate(v: &Verifier, step: u64) -> (u64, u64, Duration, u64) {
    let t0 = Instant::now();
    let mut state: Option<TransactionState> = None;
    let mut chunks = 0u64;
    let mut size = 0u64;
    let mut vms = 1u64;
    let mut limit = step.max(1);
    while chunks < 40 {
        let res = guarded(|| match &state {
            None => v.resumable_verify(limit),
            Some(st) => v.resume_from_state(st, limit),
        });
        chunks += 1;
        match res {
            Ok(Ok(VerifyResult::Suspended(st))) => {
                size = size.max(st.state.as_ref().map(|s| s.size()).unwrap_or(0));
                vms = vms.max(
                    st.state
                        .as_ref()
                        .map(|s| s.instantiated_ids.len() as u64)
                        .unwrap_or(1),
                );
                if let Some(p) = &state {
                    if state_key(p) == state_key(&st) {
                        limit = limit.saturating_mul(2);
                    }
                }
                state = Some(st);
            }
            _ => break,
        }
    }
    (chunks, size, t0.elapsed(), vms)
}
