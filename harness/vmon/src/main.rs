fn main() { println!("vmon"); }
