//! vmon — multi-call monitor binary for the chain-dependent engines.
//! usage: vmon <engine> [--seed S] [--tier quick|thorough] [--props C01,C02] [key=value ...]
mod engines;

fn main() {
    let args = vbase::Args::parse();
    // keep ckb's own logging quiet unless asked
    let code = match args.engine.as_str() {
        "chain" => engines::chain::run(&args),
        "pool" => engines::pool::run(&args),
        "rules" => engines::rules::run(&args),
        "tx" => engines::tx::run(&args),
        "crash" => engines::crash::run(&args),
        "freeze" => engines::freeze::run(&args),
        "freeze-child" => engines::freeze::child(&args),
        "crash-child" => engines::crash::child(&args),
        other => {
            eprintln!("unknown engine {other}");
            3
        }
    };
    vnode::node::exit(code)
}
