//! Engine `crash` (C08): fault enumeration over the durable-write points of block import.
//!
//! Parent: generates a history (block tree + arrival order incl. orphans, duplicates, invalid
//! blocks) with the builder node and RefChain; runs a baseline child (no crash) to learn the
//! number M of durable writes; then for every selected (k, before|after) runs a child that dies
//! at write k (hook H2: `VERIF_CRASH_AT`), and a recovery child that reopens the database
//! through the production path (SharedBuilder::new -> migration check -> build, chain services
//! incl. InitLoadUnverified), dumps the state, redelivers the whole history and dumps again.
//! Depth-2: the recovery child itself is crashed at a sampled write. The parent judges every
//! dump with RefChain.

use ckb_chain::RemoteBlock;
use ckb_store::ChainStore;
use ckb_types::core::BlockView;
use ckb_types::packed;
use ckb_types::prelude::*;
use serde_json::{Value, json};
use std::collections::HashSet;
use std::path::{Path, PathBuf};
use std::process::Command;
use std::sync::Arc;
use std::sync::Mutex;
use std::time::{Duration, Instant};
use vbase::{Args, Report, Rng};
use vnode::consensus;
use vnode::dump;
use vnode::model::{H, RefChain, hx};
use vnode::node::{DbKind, Node, NodeCfg};
use vnode::treegen::{TreeCfg, TreeGen};

use super::chain::{params_variant, set_faketime};

fn hex_to_bytes(s: &str) -> Vec<u8> {
    (0..s.len() / 2)
        .map(|i| u8::from_str_radix(&s[2 * i..2 * i + 2], 16).unwrap())
        .collect()
}

// ---------------------------------------------------------------------------------------
// child

/// `vmon crash-child db=DIR history=FILE out=FILE deliver=0|1`
pub fn child(args: &Args) -> i32 {
    set_faketime();
    let db = PathBuf::from(args.get_str("db").expect("db="));
    let hist: Value = serde_json::from_str(&std::fs::read_to_string(args.get_str("history").expect("history=")).unwrap()).unwrap();
    let out = PathBuf::from(args.get_str("out").expect("out="));
    let deliver = args.get_u64("deliver", 1) == 1;
    let variant = hist["variant"].as_u64().unwrap();
    let pseed = hist["pseed"].as_u64().unwrap();
    let params = params_variant(&mut Rng::new(pseed), variant);
    let gi = consensus::build(&params);
    let blocks: Vec<Arc<BlockView>> = hist["blocks"]
        .as_array()
        .unwrap()
        .iter()
        .map(|b| Arc::new(packed::Block::from_compatible_slice(&hex_to_bytes(b.as_str().unwrap())).unwrap().into_view()))
        .collect();
    let node = Node::boot(
        &gi,
        &NodeCfg {
            db: DbKind::Path { root: db, freezer: false },
            ..Default::default()
        },
    );
    // flush whatever the start-up scan re-submitted
    flush(&node);
    let d1 = dump::dump(&node.shared.store().get_snapshot());
    let mut result = json!({
        "opened": true,
        "dump_after_open": dump::to_json(&d1),
        "commits_after_open": ckb_db::verif::commit_count(),
        "orphans_after_open": node.chain().orphan_blocks_len(),
    });
    if deliver {
        let n_cb = Arc::new(Mutex::new(0usize));
        for b in &blocks {
            let c = Arc::clone(&n_cb);
            node.chain().asynchronous_process_remote_block(RemoteBlock {
                block: Arc::clone(b),
                verify_callback: Box::new(move |_| {
                    *c.lock().unwrap() += 1;
                }),
            });
        }
        flush(&node);
        flush(&node);
        let d2 = dump::dump(&node.shared.store().get_snapshot());
        result["dump_after_deliver"] = dump::to_json(&d2);
        result["callbacks"] = json!(*n_cb.lock().unwrap());
        result["orphans_after_deliver"] = json!(node.chain().orphan_blocks_len());
    }
    result["commits"] = json!(ckb_db::verif::commit_count());
    std::fs::write(&out, serde_json::to_string(&result).unwrap()).unwrap();
    drop(node);
    0
}

/// FIFO flush through the chain service / preload / verify threads by re-submitting the
/// main-chain block #1 (a legal duplicate) when there is one.
fn flush_once(node: &Node) {
    let store = node.shared.store();
    let b1 = store.get_block_hash(1).and_then(|x| store.get_block(&x));
    match b1 {
        Some(b) => {
            let (tx, rx) = std::sync::mpsc::channel();
            node.chain().asynchronous_process_remote_block(RemoteBlock {
                block: Arc::new(b),
                verify_callback: Box::new(move |_| {
                    let _ = tx.send(());
                }),
            });
            let _ = rx.recv_timeout(Duration::from_secs(60));
        }
        None => std::thread::sleep(Duration::from_millis(30)),
    }
}

/// Logical quiescence: flushed, tip stable over two rounds, and no stored block is waiting for
/// verification although its parent has been judged. Gives up after 20 s (the oracle in the
/// parent then sees whatever is left).
fn flush(node: &Node) {
    let t0 = Instant::now();
    let mut last_tip = None;
    loop {
        flush_once(node);
        let snap = node.shared.store().get_snapshot();
        let d = dump::dump(&snap);
        let mut pending = 0;
        for (_, x) in &d.number_hash {
            if d.block_ext.contains_key(x) {
                continue;
            }
            let hash = packed::Byte32::from_slice(x).unwrap();
            if let Some(hd) = snap.get_block_header(&hash) {
                if snap.get_block_ext(&hd.parent_hash()).map(|e| e.verified != Some(false)).unwrap_or(false) {
                    pending += 1;
                }
            }
        }
        if pending == 0 && last_tip == Some(d.tip) {
            return;
        }
        last_tip = Some(d.tip);
        if t0.elapsed() > Duration::from_secs(20) {
            return;
        }
        std::thread::sleep(Duration::from_millis(10));
    }
}

// ---------------------------------------------------------------------------------------
// parent

struct History {
    tg: TreeGen,
    order: Vec<H>,
    file: PathBuf,
}

fn make_history(rng: &mut Rng, idx: u64, dir: &Path, args: &Args) -> History {
    let variant = idx % 4;
    let pseed = rng.next_u64();
    let params = params_variant(&mut Rng::new(pseed), variant);
    let gi = consensus::build(&params);
    let cfg = TreeCfg {
        n_blocks: args.tier.pick(18, 30) + rng.usize_below(14),
        fork_pm: 250,
        max_fork_depth: 4,
        invalid: 1 + rng.usize_below(2),
        ..Default::default()
    };
    let mut tg = TreeGen::new(&gi, cfg, rng.next_u64());
    tg.generate();
    // arrival order: generation order with some children moved before their parents, some
    // duplicates
    let mut order = tg.order.clone();
    for _ in 0..(order.len() / 5) {
        let i = rng.usize_below(order.len());
        let j = rng.usize_below(order.len());
        order.swap(i, j);
    }
    for _ in 0..2 {
        let x = order[rng.usize_below(order.len())];
        order.push(x);
    }
    let blocks: Vec<String> = order.iter().map(|x| vbase::hex(tg.rc.get(x).block.data().as_slice())).collect();
    let file = dir.join(format!("history-{idx}.json"));
    std::fs::write(&file, serde_json::to_string(&json!({"variant": variant, "pseed": pseed, "blocks": blocks})).unwrap()).unwrap();
    History { tg, order, file }
}

struct ChildOut {
    exit_ok: bool,
    out: Option<Value>,
    stderr_tail: String,
}

fn run_child(db: &Path, history: &Path, out: &Path, deliver: bool, crash_at: Option<(u64, bool)>) -> ChildOut {
    let _ = std::fs::remove_file(out);
    let exe = std::env::current_exe().unwrap();
    let mut cmd = Command::new(exe);
    cmd.arg("crash-child")
        .arg(format!("db={}", db.display()))
        .arg(format!("history={}", history.display()))
        .arg(format!("out={}", out.display()))
        .arg(format!("deliver={}", if deliver { 1 } else { 0 }))
        .env_remove("VERIF_CRASH_AT")
        .env_remove("VERIF_OUT_DIR")
        .env("VERIF_SCRATCH_BASE", db.parent().unwrap())
        .stdout(std::process::Stdio::null())
        .stderr(std::process::Stdio::piped());
    if let Some((k, before)) = crash_at {
        cmd.env("VERIF_CRASH_AT", format!("{}:{}", k, if before { "before" } else { "after" }));
    }
    let o = cmd.output().expect("spawn child");
    let stderr = String::from_utf8_lossy(&o.stderr);
    let mut tail: String = stderr
        .lines()
        .skip_while(|l| !l.contains("panicked"))
        .take(3)
        .collect::<Vec<_>>()
        .join(" | ");
    if tail.is_empty() {
        tail = stderr.chars().rev().take(800).collect::<String>().chars().rev().collect();
    }
    let out_v = std::fs::read_to_string(out).ok().and_then(|s| serde_json::from_str(&s).ok());
    ChildOut {
        exit_ok: o.status.success(),
        out: out_v,
        stderr_tail: tail,
    }
}

fn judge_dump(d: &dump::Dump, rc: &RefChain, received: &HashSet<H>, ctx: &str, must_be_best: bool, r: &mut Report, wit: &Value) {
    r.eval();
    r.count(&format!("dumps_judged.{ctx}"));
    if !rc.contains(&d.tip) {
        r.violation(&format!("recovered_tip_unknown@{ctx}"), format!("tip {} is not a delivered block", hx(&d.tip)), wit.clone());
        return;
    }
    let rec = rc.get(&d.tip);
    if !rec.chain_valid {
        r.violation(&format!("recovered_tip_on_invalid_chain@{ctx}"), format!("tip {} (#{})", hx(&d.tip), rec.number), wit.clone());
    }
    for (sig, detail) in dump::compare(d, rc, "store").into_iter().chain(dump::compare_epoch_index(d, rc, "store")) {
        r.violation(&format!("{sig}@{ctx}"), detail, wit.clone());
    }
    // stored-but-unverified blocks whose parent is verified must have been picked up
    for (n, x) in &d.number_hash {
        if d.block_ext.contains_key(x) || !rc.contains(x) {
            continue;
        }
        let p = rc.get(x).parent;
        let parent_ext = d.block_ext.get(&p).and_then(|raw| dump::decode_ext(raw));
        if let Some(pe) = parent_ext {
            if pe.verified != Some(false) {
                r.violation(
                    &format!("stored_block_not_reverified@{ctx}"),
                    format!("block {} (#{}) is stored without verification record although its parent has one (verified={:?})", hx(x), n, pe.verified),
                    wit.clone(),
                );
            }
        }
    }
    if must_be_best {
        let (best_td, best) = rc.best(received);
        if rec.td != best_td || !best.contains(&d.tip) {
            r.violation(
                &format!("not_converged_to_heaviest_valid_chain@{ctx}"),
                format!("tip {} (#{}, td {:#x}) but the heaviest fully valid chain has td {:#x}", hx(&d.tip), rec.number, rec.td, best_td),
                wit.clone(),
            );
        }
    }
}

pub fn run(args: &Args) -> i32 {
    set_faketime();
    let mut r = Report::new(
        "C08",
        "fault_enumeration",
        args,
        "histories (block trees with forks, invalid blocks, orphan / duplicate arrival) x crash at durable write k (before / after the write, hook H2) in a child process x recovery child reopening through the production path, dump, redelivery, dump; depth-2 crashes inside recovery; distinct = (history, k, side, depth) crash points whose recovery was judged",
    );
    let mut rng = Rng::new(args.seed ^ 0xC8);
    let scratch = vbase::Scratch::new("crash");
    let n_hist = args.get_u64("histories", args.tier.pick(2, 10));
    let stride = args.get_u64("stride", args.tier.pick(5, 1));
    let deadline = Instant::now() + Duration::from_secs(args.get_u64("budget_s", args.tier.pick(150, 1500)));
    let workers = 14usize;
    'hist: for hi in 0..n_hist {
        let hist = make_history(&mut rng, hi, &scratch.path, args);
        let rc = &hist.tg.rc;
        let received: HashSet<H> = hist.order.iter().cloned().collect();
        r.count("histories");
        // baseline
        let base_db = scratch.join(&format!("h{hi}-base"));
        let base_out = scratch.join(&format!("h{hi}-base.json"));
        let b = run_child(&base_db, &hist.file, &base_out, true, None);
        let Some(bo) = b.out else {
            r.inconclusive(&format!("harness: baseline child failed: {}", b.stderr_tail.chars().take(400).collect::<String>()));
            continue;
        };
        let m = bo["commits"].as_u64().unwrap_or(0);
        let base_dump = dump::from_json(&bo["dump_after_deliver"]);
        let wit0 = json!({"history": hi, "blocks": hist.order.len(), "order": hist.order.iter().map(|x| format!("{}#{}{}", hx(x), rc.get(x).number, if rc.get(x).chain_valid {""} else {"!"})).collect::<Vec<_>>()});
        judge_dump(&base_dump, rc, &received, "baseline", true, &mut r, &wit0);
        r.count_n("baseline_durable_writes", m);
        let _ = std::fs::remove_dir_all(&base_db);
        // crash points
        let mut points: Vec<(u64, bool, Option<(u64, bool)>)> = vec![];
        let off = rng.below(stride);
        let mut k = 1 + off;
        while k <= m {
            points.push((k, true, None));
            points.push((k, false, None));
            k += stride;
        }
        // depth 2: crash again during recovery/redelivery at a sampled write
        let n_d2 = args.tier.pick(4, 24);
        for _ in 0..n_d2 {
            let k1 = 1 + rng.below(m.max(1));
            let k2 = 1 + rng.below((m / 2).max(1));
            points.push((k1, rng.bool(), Some((k2, rng.bool()))));
        }
        let results: Mutex<Vec<(u64, bool, Option<(u64, bool)>, Result<(Value, u64), String>)>> = Mutex::new(vec![]);
        let next = std::sync::atomic::AtomicUsize::new(0);
        let stop = std::sync::atomic::AtomicBool::new(false);
        std::thread::scope(|s| {
            for w in 0..workers {
                let points = &points;
                let results = &results;
                let next = &next;
                let stop = &stop;
                let scratch = &scratch;
                let file = &hist.file;
                s.spawn(move || loop {
                    let i = next.fetch_add(1, std::sync::atomic::Ordering::SeqCst);
                    if i >= points.len() || stop.load(std::sync::atomic::Ordering::SeqCst) {
                        break;
                    }
                    if Instant::now() > deadline {
                        stop.store(true, std::sync::atomic::Ordering::SeqCst);
                        break;
                    }
                    let (k, before, d2) = points[i];
                    let db = scratch.join(&format!("h{hi}-w{w}-p{i}"));
                    let out = scratch.join(&format!("h{hi}-w{w}-p{i}.json"));
                    let c1 = run_child(&db, file, &out, true, Some((k, before)));
                    let mut crashes = 0u64;
                    if !c1.exit_ok && c1.out.is_none() {
                        crashes += 1;
                    }
                    if let Some((k2, b2)) = d2 {
                        let c2 = run_child(&db, file, &out, true, Some((k2, b2)));
                        if !c2.exit_ok && c2.out.is_none() {
                            crashes += 1;
                        }
                    }
                    let rec = run_child(&db, file, &out, true, None);
                    let res = match rec.out {
                        Some(v) => Ok((v, crashes)),
                        None => Err(rec.stderr_tail),
                    };
                    results.lock().unwrap().push((k, before, d2, res));
                    let _ = std::fs::remove_dir_all(&db);
                    let _ = std::fs::remove_file(&out);
                });
            }
        });
        for (k, before, d2, res) in results.into_inner().unwrap() {
            let side = if before { "before" } else { "after" };
            let wit = json!({"history": hi, "crash_at": k, "side": side, "second_crash": d2.map(|(a, b)| format!("{}:{}", a, if b {"before"} else {"after"})), "baseline_writes": m, "order": wit0["order"]});
            r.distinct(vbase::fnv1a(format!("{hi}-{k}-{side}-{d2:?}").as_bytes()));
            match res {
                Err(stderr) => {
                    r.eval();
                    let what: String = stderr.lines().filter(|l| l.contains("panicked") || l.contains("rror")).take(2).collect::<Vec<_>>().join(" | ").chars().take(200).collect();
                    r.violation(
                        "reopen_after_crash_failed",
                        format!("recovery child did not complete after crash at write {k} ({side}): {what}"),
                        json!({"witness": wit, "stderr_tail": stderr}),
                    );
                }
                Ok((v, crashes)) => {
                    r.count_n("crashes_injected", crashes);
                    r.count(if d2.is_some() { "crash_points_depth2" } else { "crash_points_depth1" });
                    if crashes == 0 {
                        r.count("crash_points_not_reached");
                    }
                    let d1 = dump::from_json(&v["dump_after_open"]);
                    let d2d = dump::from_json(&v["dump_after_deliver"]);
                    judge_dump(&d1, rc, &received, "after_reopen", false, &mut r, &wit);
                    judge_dump(&d2d, rc, &received, "after_redelivery", true, &mut r, &wit);
                    // convergence to the baseline state
                    r.eval();
                    let (_, best) = rc.best(&received);
                    if best.len() == 1 && d2d.tip != base_dump.tip {
                        r.violation("redelivery_tip_differs_from_uncrashed_run", format!("{} vs baseline {}", hx(&d2d.tip), hx(&base_dump.tip)), wit.clone());
                    }
                    if d1.tip != rc.genesis {
                        r.count("recovered_with_progress");
                    }
                    if r.samples.len() < 5 && crashes > 0 {
                        r.sample(json!({"history": hi, "crash_at_write": k, "side": side, "second_crash": wit["second_crash"], "tip_after_reopen": format!("{}#{}", hx(&d1.tip), rc.get(&d1.tip).number), "tip_after_redelivery": format!("{}#{}", hx(&d2d.tip), rc.get(&d2d.tip).number), "stored_blocks_after_reopen": d1.number_hash.len()}));
                    }
                }
            }
        }
        if Instant::now() > deadline {
            r.note("stopped_by_budget_after_histories", json!(hi + 1));
            break 'hist;
        }
    }
    r.require("histories", 1);
    r.require("crashes_injected", 10);
    r.require("recovered_with_progress", 1);
    r.assume("RocksDB WAL atomicity: a crash is modelled as process death immediately before or after a durable write (transaction commit / batch write); torn writes inside RocksDB are not modelled");
    r.assume("which thread performs write k varies between runs (real scheduling); every observed recovery is judged on its own");
    let code = r.finish(None);
    if args.get_u64("keep", 0) == 1 {
        eprintln!("keeping scratch {}", scratch.path.display());
        std::mem::forget(scratch);
    } else {
        drop(scratch);
    }
    code
}
