//! Engine `chain`: C01 (heaviest valid chain under any delivery order / schedule),
//! C02 (store & snapshots == replay of main chain), C19 (MMR part), C20 (proposal view).
//!
//! Random block trees are generated on a builder node B; every tree is then delivered to
//! fresh nodes under several arrival orders, submitter-thread counts and delay plans while the
//! monitors watch callbacks, published snapshots, concurrent snapshot readers and the final
//! store, and judge them against RefChain.

use ckb_chain::RemoteBlock;
use ckb_merkle_mountain_range::leaf_index_to_pos;
use ckb_store::ChainStore;
use ckb_types::core::BlockView;
use ckb_types::packed;
use ckb_types::prelude::*;
use ckb_types::utilities::merkle_mountain_range::VerifiableHeader;
use serde_json::json;
use std::collections::{HashMap, HashSet};
use std::sync::atomic::{AtomicBool, AtomicU64, Ordering};
use std::sync::{Arc, Mutex};
use std::time::{Duration, Instant};
use vbase::{Args, Report, Rng};
use vnode::consensus::{self, ChainParams, EpochMode, GenesisInfo};
use vnode::dump;
use vnode::hooks;
use vnode::model::{self, H, RefChain, h, hx};
use vnode::node::{Node, NodeCfg};
use vnode::treegen::{TreeCfg, TreeGen};

pub struct Reports {
    pub c01: Report,
    pub c02: Report,
    pub c19: Report,
    pub c20: Report,
}

#[derive(Clone, Debug)]
pub enum OrderKind {
    InOrder,
    Reverse,
    Random,
    ChildBeforeParent,
    RandomWithDuplicates,
    /// generation order, but every block that is not fully valid is delivered 2-3 times in a row
    InOrderInvalidTwice,
    /// generation order; every invalid block is delivered again 36-50 positions later while the
    /// verify thread is slowed down, so both copies are queued before the first is judged
    InvalidDupLagged,
    /// A -> B -> A: the first blocks of the finally best chain after a fork point, then a side
    /// branch that is heavier than those, then the rest; one submitter, parents first, so every
    /// intermediate tip is adopted and the first blocks are re-attached as "already verified"
    SwitchBack,
    /// generation order, but an ancestor of the best tip is held back until everything else has
    /// arrived and the orphan clean-up timer (hook H3b: 100 ms period) has fired several times
    /// while its descendants wait in the orphan pool
    OrphansAcrossCleanTimer,
    /// generation order, one submitter; for one block P that becomes the new tip the verify thread
    /// is parked (logical gate) between the database commit of P and the publication of the new
    /// snapshot, P's child (the next block of the order) is delivered and handled by the chain
    /// service inside that window, then the verify thread is released
    ChildInCommitWindow,
}

#[derive(Clone)]
struct Cb {
    hash: H,
    ok: Option<bool>,
    err: Option<String>,
}

pub fn params_variant(rng: &mut Rng, i: u64) -> ChainParams {
    let mut p = ChainParams::default();
    match i % 4 {
        0 => {
            p.epoch = EpochMode::Permanent {
                genesis_len: 4,
                epoch_len: 4,
            };
            p.window = (2, 10);
        }
        1 => {
            p.epoch = EpochMode::Permanent {
                genesis_len: 3,
                epoch_len: 2,
            };
            p.window = (1, 3);
        }
        2 => {
            // real difficulty adjustment: forks around the end of the (short) genesis epoch
            // get different difficulties in epoch 1
            p.epoch = EpochMode::Adjusting {
                genesis_len: 4 + rng.below(6),
                duration_target: 80,
            };
            p.window = (2, 10);
        }
        _ => {
            p.epoch = EpochMode::Permanent {
                genesis_len: 6,
                epoch_len: 5,
            };
            p.window = (1, 1);
        }
    }
    p.median_time_block_count = Some(3 + rng.below(9) as usize | 1);
    p
}

pub fn run(args: &Args) -> i32 {
    set_faketime();
    hooks::install();
    hooks::install_panic_monitor();
    let mk = |id: &str, rule: &str| Report::new(id, "exploration", args, rule);
    let mut r = Reports {
        c01: mk("C01", "random block trees (forks, uneven difficulty, invalid blocks, descendants of invalid blocks) generated on a builder node; each tree delivered to fresh nodes under several arrival orders x submitter threads x delay plans; distinct = (tree shape, order kind, threads, schedule-trace signature)"),
        c02: mk("C02", "full store dumps at quiescent points of delivered nodes and of the builder (after truncations) and dumps taken through concurrently loaded snapshots, compared both ways with a replay of the model main chain; distinct = (tip, state size, context) of compared dumps"),
        c19: mk("C19", "chain-root commitment of every generated block on any fork vs the model's own MMR; MMR membership proofs after reorgs verified against the committed root and against competing forks' roots; distinct = (tree, tip, position set)"),
        c20: mk("C20", "proposal view (set/gap) of every published snapshot and of quiescent nodes vs the model window; distinct = (tip, |set|, |gap|)"),
    };
    let mut rng = Rng::new(args.seed);
    let n_trees = args.get_u64("trees", args.tier.pick(10, 120));
    let n_orders = args.get_u64("orders", args.tier.pick(8, 12));
    let deadline = Instant::now() + Duration::from_secs(args.get_u64("budget_s", args.tier.pick(70, 900)));
    for ti in 0..n_trees {
        if Instant::now() > deadline {
            r.c01.note("stopped_by_budget_after_trees", json!(ti));
            break;
        }
        let mut trng = rng.fork(ti);
        let params = params_variant(&mut trng, ti);
        let gi = consensus::build(&params);
        let cfg = TreeCfg {
            n_blocks: args.tier.pick(12 + trng.usize_below(40), 20 + trng.usize_below(120)),
            fork_pm: 120 + trng.below(250),
            max_fork_depth: 1 + trng.below(8),
            invalid: trng.usize_below(4),
            ..Default::default()
        };
        let mut tg = TreeGen::new(&gi, cfg.clone(), trng.next_u64());
        // the builder is a real node: if it refuses a block that the production calculators
        // built on its own tip, generation stops; its state is still judged (C02) and the
        // refusal itself is reported (after a truncation the node must behave like any node
        // that reached that tip)
        let generated = std::panic::catch_unwind(std::panic::AssertUnwindSafe(|| tg.generate()));
        let _ = hooks::take_panics();
        if let Err(e) = generated {
            let msg = e.downcast_ref::<String>().cloned().or_else(|| e.downcast_ref::<&str>().map(|s| s.to_string())).unwrap_or_default();
            let before = r.c02.violations_len();
            check_builder_state(&tg, &mut r);
            r.c01.count("builder_generation_aborted");
            if r.c02.violations_len() == before {
                r.c01.violation(
                    &format!("builder.refused_block_built_on_its_own_tip:{}", msg.chars().take(60).collect::<String>()),
                    format!("the builder node (after {} truncations) refused or could not build a block on its own tip: {msg}", tg.stats.get("truncations").cloned().unwrap_or(0)),
                    json!({"tree": ti, "blocks_so_far": tg.order.len()}),
                );
            }
            continue;
        }
        r.c01.count("trees");
        for (k, v) in tg.stats.clone() {
            r.c01.count_n(&format!("gen.{k}"), v);
        }
        check_generated_roots(&tg, &mut r);
        check_builder_state(&tg, &mut r);
        let shape = model::tree_shape(&tg.rc, &tg.order);
        for oi in 0..n_orders {
            let kind = match oi {
                0 => OrderKind::InOrder,
                1 => OrderKind::Reverse,
                2 => OrderKind::ChildBeforeParent,
                3 => OrderKind::RandomWithDuplicates,
                4 => OrderKind::InOrderInvalidTwice,
                5 => OrderKind::SwitchBack,
                6 => OrderKind::OrphansAcrossCleanTimer,
                7 => OrderKind::ChildInCommitWindow,
                8 => OrderKind::InvalidDupLagged,
                _ => {
                    if trng.bool() {
                        OrderKind::Random
                    } else {
                        OrderKind::RandomWithDuplicates
                    }
                }
            };
            let threads = if oi < 2 || (4..=8).contains(&oi) { 1 } else { 1 + trng.usize_below(4) };
            let readers = if oi == 0 { 0 } else { trng.usize_below(3) };
            let with_plan = oi >= 2;
            deliver_and_check(&tg, &gi, &kind, threads, readers, with_plan, &mut trng, shape, &mut r);
        }
        if ti == 0 {
            r.c01.sample(json!({
                "params": format!("{:?}", params),
                "tree_blocks": tg.order.len(),
                "gen_stats": tg.stats.iter().map(|(k, v)| (k.to_string(), *v)).collect::<HashMap<_, _>>(),
            }));
        }
    }
    scenario_duplicate_invalid(args, &mut rng, &mut r);
    for _ in 0..args.tier.pick(2, 10) {
        scenario_child_of_invalid_tip(&mut rng, &mut r);
    }
    {
        let want = args.tier.pick(2, 12);
        let mut tries = 0;
        while r.c01.counter("scenario.light_branch_overtakes_runs") < want && tries < want * 4 {
            tries += 1;
            scenario_light_branch_overtakes(&mut rng, &mut r);
        }
    }
    for _ in 0..args.tier.pick(3, 12) {
        scenario_refused_heavier_fork(&mut rng, &mut r);
    }
    for _ in 0..args.tier.pick(4, 16) {
        scenario_commit_fault(&mut rng, &mut r);
    }
    for _ in 0..args.tier.pick(8, 40) {
        scenario_side_block_while_tip_moves(&mut rng, &mut r);
    }
    let hits = hooks::hits();
    for (k, v) in &hits {
        r.c01.count_n(&format!("hook.{k}"), *v);
    }
    r.c01.require("trees", 1);
    r.c01.require("deliveries_runs", 1);
    r.c01.require("obs.reorgs", 1);
    r.c01.require("scenario.light_branch_overtakes_runs", 1);
    r.c01.require("scenario.child_of_invalid_tip_runs", 1);
    if n_orders > 5 && FIXED_ORDER.with(|f| f.borrow().is_none()) {
        r.c01.require("order.SwitchBack.realised", 1);
    }
    if n_orders > 6 && FIXED_ORDER.with(|f| f.borrow().is_none()) {
        r.c01.require("order.OrphansAcrossCleanTimer.realised", 1);
    }
    if n_orders > 7 && FIXED_ORDER.with(|f| f.borrow().is_none()) {
        r.c01.require("order.ChildInCommitWindow.realised", 1);
    }
    r.c01.require("obs.orphaned_deliveries", 1);
    r.c01.require("hook.chain::after_store_snapshot", 1);
    r.c02.require("dump_compares", 1);
    r.c19.require("roots_checked", 1);
    r.c20.require("views_checked", 1);
    if FIXED_ORDER.with(|f| f.borrow().is_none()) {
        r.c20.require("views_checked.after_restart", 1);
    }
    for rep in [&mut r.c01, &mut r.c02, &mut r.c19, &mut r.c20] {
        rep.assume("RocksDB snapshot isolation and WAL atomicity are trusted");
        rep.assume("dao/reward/epoch fields of generated blocks are filled in by production calculators (judged by C06/C07 oracles, not here)");
    }
    let mut code = 0;
    for (id, rep) in [("C01", &r.c01), ("C02", &r.c02), ("C19", &r.c19), ("C20", &r.c20)] {
        if args.wants(id) {
            let out = args.get_str("out").map(|d| std::path::PathBuf::from(d).join(format!("{id}.json")));
            code = code.max(rep.finish(out.as_deref()));
        }
    }
    code
}

pub fn set_faketime() {
    vnode::node::set_time(ChainParams::default().genesis_timestamp + 3_000_000_000);
}

/// C19: the chain root committed by every generated (valid) block equals the model's MMR
/// root over its ancestors — on every fork.
fn check_generated_roots(tg: &TreeGen, r: &mut Reports) {
    for x in &tg.order {
        let rec = tg.rc.get(x);
        if !rec.self_valid {
            continue;
        }
        let st = tg.rc.replay(&rec.parent);
        let want = st.mmr.root().unwrap().hash();
        let ext = rec.block.extension().map(|e| e.raw_data().to_vec()).unwrap_or_default();
        r.c19.eval();
        r.c19.count("roots_checked");
        r.c19.distinct(vbase::fnv1a(&[&x[..], &want[..]].concat()));
        if r.c19.samples.len() < 3 && rec.number > 2 {
            r.c19.sample(json!({"kind": "committed_root", "block": format!("{}#{}", hx(x), rec.number), "model_mmr_root": vbase::hex(&want), "extension_prefix": vbase::hex(&ext[..ext.len().min(32)])}));
        }
        if ext.len() < 32 || ext[..32] != want[..] {
            r.c19.violation(
                "chain_root.committed_root_differs_from_model_mmr",
                format!("block {} (#{}) commits {} but the MMR over its ancestors is {}", hx(x), rec.number, vbase::hex(&ext[..ext.len().min(32)]), vbase::hex(&want)),
                json!({"block": vbase::hex(x), "number": rec.number}),
            );
        }
    }
}

/// C02/C20 on the builder node: it went through every truncation.
fn check_builder_state(tg: &TreeGen, r: &mut Reports) {
    let snap = tg.b.shared.snapshot();
    let d = dump::dump(tg.b.shared.store());
    compare_and_report(&d, &tg.rc, "builder_after_truncations", r, true);
    check_view(&tg.rc, &h(&snap.tip_hash()), snap.proposals().set(), snap.proposals().gap(), "builder", r);
}

fn compare_and_report(d: &dump::Dump, rc: &RefChain, ctx: &str, r: &mut Reports, epoch_index: bool) {
    r.c02.eval();
    r.c02.count("dump_compares");
    r.c02.count(&format!("dump_compares.{ctx}"));
    r.c02.distinct(vbase::fnv1a(format!("{:?}{}{}{}", d.tip, d.cells.len(), d.tx_info.len(), ctx).as_bytes()));
    let diffs = dump::compare(d, rc, "store");
    for (sig, detail) in diffs {
        let sig = format!("{sig}@{ctx}");
        if sig.contains("mmr_node") {
            r.c19.violation(&sig, detail.clone(), json!({"tip": vbase::hex(&d.tip)}));
        }
        r.c02.violation(&sig, detail, json!({"tip": vbase::hex(&d.tip), "context": ctx}));
    }
    if epoch_index {
        for (sig, detail) in dump::compare_epoch_index(d, rc, "store") {
            r.c02.violation(&sig, detail, json!({"tip": vbase::hex(&d.tip), "context": ctx}));
        }
    }
}

fn check_view(
    rc: &RefChain,
    tip: &H,
    set: &HashSet<packed::ProposalShortId>,
    gap: &HashSet<packed::ProposalShortId>,
    ctx: &str,
    r: &mut Reports,
) {
    if !rc.contains(tip) {
        return;
    }
    let (mset, mgap) = rc.window_sets(tip);
    r.c20.eval();
    r.c20.count("views_checked");
    r.c20.count(&format!("views_checked.{ctx}"));
    if !mset.is_empty() {
        r.c20.count("views_nonempty_set");
    }
    if !mgap.is_empty() {
        r.c20.count("views_nonempty_gap");
    }
    r.c20.distinct(vbase::fnv1a(format!("{:?}{}{}", tip, mset.len(), mgap.len()).as_bytes()));
    if r.c20.samples.len() < 5 && !mset.is_empty() && !mgap.is_empty() {
        r.c20.sample(json!({
            "context": ctx, "tip": format!("{}#{}", hx(tip), rc.get(tip).number), "window": [rc.window.0, rc.window.1],
            "node_set": model::short_ids(set), "node_gap": model::short_ids(gap),
            "model_set": model::short_ids(&mset), "model_gap": model::short_ids(&mgap),
        }));
    }
    if *set != mset {
        r.c20.violation(
            &format!("proposal_view.set_differs_from_window@{ctx}"),
            format!("tip {} (#{}): node set {:?} model {:?}", hx(tip), rc.get(tip).number, model::short_ids(set), model::short_ids(&mset)),
            json!({"tip": vbase::hex(tip)}),
        );
    }
    if *gap != mgap {
        r.c20.violation(
            &format!("proposal_view.gap_differs_from_window@{ctx}"),
            format!("tip {} (#{}): node gap {:?} model {:?}", hx(tip), rc.get(tip).number, model::short_ids(gap), model::short_ids(&mgap)),
            json!({"tip": vbase::hex(tip)}),
        );
    }
}

fn make_order(tg: &TreeGen, kind: &OrderKind, rng: &mut Rng) -> Vec<H> {
    let mut v: Vec<H> = tg.order.clone();
    match kind {
        OrderKind::InOrder => {}
        OrderKind::ChildInCommitWindow => {
            // the best tip C and its parent P go last (P's other descendants wait as orphans), so
            // that nothing arrives after C that could make the chain service look at its orphan
            // pool again; only when P is heavier than everything delivered before it (its import
            // publishes a tip) -- otherwise plain generation order
            let all: HashSet<H> = v.iter().cloned().collect();
            let (_, best) = tg.rc.best(&all);
            let c = best[0];
            let p = tg.rc.get(&c).parent;
            if best.len() == 1 && p != tg.rc.genesis && tg.rc.get(&p).chain_valid {
                let ptd = tg.rc.get(&p).td.clone();
                let lighter = v.iter().filter(|x| **x != p && **x != c).all(|x| {
                    let rec = tg.rc.get(x);
                    // blocks that cannot connect before P arrives do not matter
                    !rec.chain_valid || rec.td < ptd || tg.rc.ancestor_at(x, tg.rc.get(&p).number) == Some(p)
                });
                if lighter {
                    v.retain(|x| *x != p && *x != c);
                    v.push(p);
                    v.push(c);
                }
            }
        }
        OrderKind::Reverse => v.reverse(),
        OrderKind::Random => rng.shuffle(&mut v),
        OrderKind::ChildBeforeParent => {
            // swap every block with its parent's position where possible: deliver children
            // right before their parents across fork points
            let pos: HashMap<H, usize> = v.iter().enumerate().map(|(i, x)| (*x, i)).collect();
            let mut out = v.clone();
            for x in &v {
                let p = tg.rc.get(x).parent;
                if let (Some(&i), Some(&j)) = (pos.get(x), pos.get(&p)) {
                    if rng.chance(600, 1000) && j < i {
                        out.swap(i, j);
                    }
                }
            }
            v = out;
        }
        OrderKind::InvalidDupLagged => {
            // main chain up to the parent of an invalid block M; M; then every block that is
            // not heavier than parent(M) (side branches: they keep the tip where it is while
            // cycling the store's small read caches); M again; the rest.
            let inv: Vec<H> = v
                .iter()
                .filter(|x| {
                    let r = tg.rc.get(x);
                    !r.self_valid && tg.rc.get(&r.parent).chain_valid && r.invalid_rule.as_deref() != Some("BadTxRoot")
                })
                .cloned()
                .collect();
            if let Some(m) = inv.first() {
                let mrec = tg.rc.get(m);
                let path: Vec<H> = tg.rc.path(&mrec.parent).into_iter().skip(1).collect();
                let on_path: HashSet<H> = path.iter().cloned().collect();
                let limit = tg.rc.get(&mrec.parent).td.clone();
                let mut res = path.clone();
                res.push(*m);
                let mut delivered: HashSet<H> = res.iter().cloned().collect();
                delivered.insert(tg.rc.genesis);
                for x in &v {
                    let r = tg.rc.get(x);
                    if on_path.contains(x) || x == m || !r.chain_valid {
                        continue;
                    }
                    if r.td <= limit && delivered.contains(&r.parent) {
                        res.push(*x);
                        delivered.insert(*x);
                    }
                }
                res.push(*m);
                for x in &v {
                    if !delivered.contains(x) {
                        res.push(*x);
                        delivered.insert(*x);
                    }
                }
                v = res;
            }
        }
        OrderKind::OrphansAcrossCleanTimer => {
            let all: HashSet<H> = v.iter().cloned().collect();
            let (_, best) = tg.rc.best(&all);
            if let Some(best_tip) = best.first() {
                let p = tg.rc.path(best_tip);
                if p.len() >= 4 {
                    let back = 1 + rng.usize_below(3.min(p.len() - 2));
                    let x = p[p.len() - 1 - back];
                    v.retain(|y| *y != x);
                    v.push(x);
                }
            }
        }
        OrderKind::SwitchBack => {
            let all: HashSet<H> = v.iter().cloned().collect();
            let (_, best) = tg.rc.best(&all);
            if let Some(best_tip) = best.first() {
                let p: Vec<H> = tg.rc.path(best_tip);
                let on_p: HashMap<H, usize> = p.iter().enumerate().map(|(i, x)| (*x, i)).collect();
                let best_td = tg.rc.get(best_tip).td.clone();
                // candidate side tips: fully valid, off the best path, lighter than the best tip
                let mut choice: Option<(usize, usize, H)> = None; // (fork index on p, k, side tip)
                for t in &v {
                    let rt = tg.rc.get(t);
                    if !rt.chain_valid || on_p.contains_key(t) || rt.td >= best_td {
                        continue;
                    }
                    let tp = tg.rc.path(t);
                    let Some(fi) = tp.iter().rev().find_map(|x| on_p.get(x).cloned()) else { continue };
                    // k = number of best-path blocks after the fork point that stay lighter than t
                    let k = p[fi + 1..].iter().take_while(|x| tg.rc.get(x).td < rt.td).count();
                    if k >= 1 && fi + 1 + k < p.len() && choice.as_ref().map(|c| k > c.1).unwrap_or(true) {
                        choice = Some((fi, k, *t));
                    }
                }
                if let Some((fi, k, t)) = choice {
                    let mut res: Vec<H> = p[1..=fi + k].to_vec();
                    let tp = tg.rc.path(&t);
                    let start = tp.iter().position(|x| *x == p[fi]).unwrap_or(0);
                    res.extend(tp[start + 1..].iter().cloned());
                    let seen: HashSet<H> = res.iter().cloned().collect();
                    res.extend(v.iter().filter(|x| !seen.contains(*x)).cloned());
                    v = res;
                }
            }
        }
        OrderKind::InOrderInvalidTwice => {
            let mut out = vec![];
            for x in &v {
                out.push(*x);
                if !tg.rc.get(x).chain_valid {
                    out.push(*x);
                    if rng.bool() {
                        out.push(*x);
                    }
                }
            }
            v = out;
        }
        OrderKind::RandomWithDuplicates => {
            let n = v.len();
            for _ in 0..(n / 4 + 1) {
                let x = v[rng.usize_below(n)];
                v.push(x);
                if rng.chance(200, 1000) {
                    v.push(x);
                }
            }
            rng.shuffle(&mut v);
        }
    }
    v
}

#[allow(clippy::too_many_arguments)]
fn deliver_and_check(
    tg: &TreeGen,
    gi: &GenesisInfo,
    kind: &OrderKind,
    threads: usize,
    readers: usize,
    with_plan: bool,
    rng: &mut Rng,
    shape: u64,
    r: &mut Reports,
) {
    let rc = &tg.rc;
    let order = FIXED_ORDER
        .with(|f| f.borrow().clone())
        .unwrap_or_else(|| make_order(tg, kind, rng));
    if matches!(kind, OrderKind::SwitchBack) && order != tg.order {
        r.c01.count("order.SwitchBack.realised");
    }
    let across_timer = matches!(kind, OrderKind::OrphansAcrossCleanTimer) && order != tg.order;
    if across_timer {
        // read once when the chain service thread starts
        unsafe { std::env::set_var("VERIF_ORPHAN_CLEAN_MS", "100") };
        r.c01.count("order.OrphansAcrossCleanTimer.realised");
    }
    // some runs use a database directory so that the node can be restarted at the end
    static RESTART_DIR: std::sync::atomic::AtomicU64 = std::sync::atomic::AtomicU64::new(0);
    let restart_root = if matches!(kind, OrderKind::InOrder | OrderKind::SwitchBack | OrderKind::Random | OrderKind::ChildBeforeParent) {
        Some(vnode::node::scratch_dir().join(format!("restart-{}", RESTART_DIR.fetch_add(1, Ordering::SeqCst))))
    } else {
        None
    };
    let node_cfg = match &restart_root {
        Some(root) => NodeCfg { db: vnode::node::DbKind::Path { root: root.clone(), freezer: false }, ..Default::default() },
        None => NodeCfg::default(),
    };
    let node = Node::boot(gi, &node_cfg);
    if across_timer {
        std::thread::sleep(Duration::from_millis(20));
        unsafe { std::env::remove_var("VERIF_ORPHAN_CLEAN_MS") };
    }
    let pause_before: Option<H> = if across_timer { order.last().cloned() } else { None };
    // ChildInCommitWindow: P = a valid block whose successor in the order is its valid child and
    // which is the heaviest block delivered so far when it arrives (so its import publishes a tip)
    let window_at: Option<usize> = if matches!(kind, OrderKind::ChildInCommitWindow) {
        let mut cands = vec![];
        let mut best_td: Option<ckb_types::U256> = None;
        // blocks connected to genesis through delivered blocks (orphans do not compete)
        let mut connected: HashSet<H> = HashSet::new();
        connected.insert(rc.genesis);
        for i in 0..order.len().saturating_sub(1) {
            let rec = rc.get(&order[i]);
            if !connected.contains(&rec.parent) {
                continue;
            }
            connected.insert(order[i]);
            let heaviest = best_td.as_ref().map(|t| rec.td > *t).unwrap_or(true);
            if heaviest && rec.chain_valid {
                best_td = Some(rec.td.clone());
            }
            let next = rc.get(&order[i + 1]);
            if i >= 1 && heaviest && rec.chain_valid && next.chain_valid && next.parent == order[i] {
                cands.push(i);
            }
        }
        // (make_order puts the pair (parent of the best tip, best tip) last when it qualifies)
        let last_pair = order.len().checked_sub(2).filter(|i| cands.contains(i));
        if let Some(i) = last_pair {
            r.c01.count("order.ChildInCommitWindow.child_is_last_delivery");
            Some(i)
        } else if cands.is_empty() {
            None
        } else {
            Some(cands[rng.usize_below(cands.len())])
        }
    } else {
        None
    };
    let window_realised = AtomicBool::new(false);
    hooks::observe(Some(node.shared.clone()));
    hooks::set_plan(if matches!(kind, OrderKind::InvalidDupLagged) {
        let mut points = std::collections::BTreeMap::new();
        points.insert("chain::before_verify_block", (2000u64, 4000u64));
        hooks::DelayPlan { points, seed: rng.next_u64() }
    } else if matches!(kind, OrderKind::InOrderInvalidTwice) {
        // slow preload thread: every block arrives while its parent is still pending, and is
        // loaded by the preload thread only after the parent's verdict is out -- for the child of
        // an invalid block: after its parent has been deleted
        let mut points = std::collections::BTreeMap::new();
        points.insert("chain::before_preload", (2000u64, 12_000u64));
        hooks::DelayPlan { points, seed: rng.next_u64() }
    } else if with_plan {
        hooks::random_chain_plan(rng)
    } else {
        hooks::DelayPlan::default()
    });
    let callbacks: Arc<Mutex<Vec<Cb>>> = Arc::new(Mutex::new(vec![]));
    let stop = AtomicBool::new(false);
    let reader_diffs: Mutex<Vec<(String, String, H)>> = Mutex::new(vec![]);
    let reader_stats = (AtomicU64::new(0), AtomicU64::new(0)); // light checks, full dumps
    let reader_views: Mutex<Vec<(H, HashSet<packed::ProposalShortId>, HashSet<packed::ProposalShortId>)>> = Mutex::new(vec![]);
    let watchdog = Instant::now();
    let mut inconclusive: Option<String> = None;

    std::thread::scope(|s| {
        // concurrent snapshot readers (C02 "inside every published snapshot")
        for ri in 0..readers {
            let node = &node;
            let stop = &stop;
            let reader_diffs = &reader_diffs;
            let reader_stats = &reader_stats;
            let reader_views = &reader_views;
            s.spawn(move || {
                let mut last: Option<H> = None;
                let mut iter = 0u64;
                while !stop.load(Ordering::SeqCst) {
                    let snap = node.shared.snapshot();
                    let tip = h(&snap.tip_hash());
                    iter += 1;
                    if Some(tip) == last {
                        std::thread::sleep(Duration::from_micros(50));
                        continue;
                    }
                    last = Some(tip);
                    // the header fields must describe the same tip as the snapshot's store view
                    let view_tip = snap
                        .get_tip_header()
                        .map(|hd| h(&hd.hash()))
                        .unwrap_or([0u8; 32]);
                    reader_stats.0.fetch_add(1, Ordering::Relaxed);
                    if view_tip != tip {
                        reader_diffs.lock().unwrap().push((
                            "snapshot.header_tip_differs_from_store_view".into(),
                            format!("snapshot says tip {} but its store view has tip {}", hx(&tip), hx(&view_tip)),
                            tip,
                        ));
                    }
                    reader_views.lock().unwrap().push((
                        tip,
                        snap.proposals().set().clone(),
                        snap.proposals().gap().clone(),
                    ));
                    if (iter + ri as u64) % 2 == 0 && rc.contains(&tip) {
                        let d = dump::dump(snap.as_ref());
                        reader_stats.1.fetch_add(1, Ordering::Relaxed);
                        let mut diffs = dump::compare(&d, rc, "snapshot");
                        let rec = rc.get(&tip);
                        if *snap.total_difficulty() != rec.td {
                            diffs.push(("snapshot.total_difficulty".into(), format!("snapshot td {:#x} model {:#x}", snap.total_difficulty(), rec.td)));
                        }
                        if let Some(ep) = &rec.epoch {
                            if snap.epoch_ext() != ep {
                                diffs.push(("snapshot.epoch_ext".into(), format!("snapshot epoch {} differs from tip's epoch {}", snap.epoch_ext().number(), ep.number())));
                            }
                        }
                        let mut g = reader_diffs.lock().unwrap();
                        for (sig, det) in diffs {
                            g.push((format!("{sig}@concurrent_reader"), det, tip));
                        }
                    }
                }
            });
        }
        // submitters
        let chunks: Vec<Vec<H>> = {
            let mut c = vec![vec![]; threads];
            for (i, x) in order.iter().enumerate() {
                c[if threads == 1 { 0 } else { (i * 7 + i / 3) % threads }].push(*x);
            }
            c
        };
        let mut handles = vec![];
        for chunk in chunks {
            let node = &node;
            let callbacks = Arc::clone(&callbacks);
            let window_realised = &window_realised;
            handles.push(s.spawn(move || {
                for (pos, x) in chunk.into_iter().enumerate() {
                    if Some(x) == pause_before {
                        std::thread::sleep(Duration::from_millis(700));
                    }
                    if window_at == Some(pos) {
                        // let everything delivered so far drain, then arm the gate for P
                        let t0 = Instant::now();
                        while callbacks.lock().unwrap().len() < pos && t0.elapsed() < Duration::from_secs(20) {
                            std::thread::sleep(Duration::from_millis(1));
                        }
                        hooks::arm_gate("chain::between_commit_and_store_snapshot");
                    }
                    if window_at.map(|w| w + 2) == Some(pos) {
                        // P's child has been handed over; give the chain service thread time to
                        // deal with it (an injected delay, not a verdict), then let P be published
                        std::thread::sleep(Duration::from_millis(40));
                        if hooks::release_gate() {
                            window_realised.store(true, Ordering::SeqCst);
                        }
                    }
                    let block: Arc<BlockView> = Arc::clone(&rc.get(&x).block);
                    let cbs = Arc::clone(&callbacks);
                    node.chain().asynchronous_process_remote_block(RemoteBlock {
                        block,
                        verify_callback: Box::new(move |res| {
                            let cb = match res {
                                Ok(b) => Cb { hash: x, ok: Some(b), err: None },
                                Err(e) => Cb { hash: x, ok: None, err: Some(e.to_string()) },
                            };
                            cbs.lock().unwrap().push(cb);
                        }),
                    });
                    if window_at == Some(pos) {
                        // P is delivered: wait until the verify thread is parked behind its commit
                        let _ = hooks::wait_gate_held(Duration::from_secs(10));
                    }
                }
                if window_at.is_some() && hooks::gate_is_holding() {
                    // P's child was the last block of the order
                    std::thread::sleep(Duration::from_millis(40));
                    if hooks::release_gate() {
                        window_realised.store(true, Ordering::SeqCst);
                    }
                }
            }));
        }
        for hdl in handles {
            let _ = hdl.join();
        }
        let _ = hooks::release_gate();
        if window_realised.load(Ordering::SeqCst) {
            r.c01.count("order.ChildInCommitWindow.realised");
            // Before anything else is delivered (the flush below re-delivers a block, and any
            // arrival makes the chain service look at its orphan pool again): once P's verdict is
            // out, its child must be on its way through verification, not parked as an orphan.
            if let Some(w) = window_at.filter(|w| w + 2 == order.len()) {
                let (p, c) = (order[w], order[w + 1]);
                let t0 = Instant::now();
                let mut parked_polls = 0;
                while t0.elapsed() < Duration::from_secs(5) {
                    let (p_done, c_done) = {
                        let g = callbacks.lock().unwrap();
                        (g.iter().any(|cb| cb.hash == p), g.iter().any(|cb| cb.hash == c))
                    };
                    if c_done {
                        break;
                    }
                    if p_done && node.chain().orphan_blocks_len() > 0 {
                        parked_polls += 1;
                        if parked_polls >= 60 {
                            break;
                        }
                    } else {
                        parked_polls = 0;
                    }
                    std::thread::sleep(Duration::from_millis(5));
                }
                r.c01.eval();
                if parked_polls >= 60 {
                    r.c01.violation(
                        "orphans.child_parked_although_parent_attached@child_arrived_between_commit_and_publication_of_parent",
                        format!(
                            "block {} arrived while its parent {} was committed but not yet published; the parent's verdict is out, nothing else has been delivered, and the child sits in the orphan pool ({} orphan(s)) instead of being verified (observed over 60 polls / 300 ms)",
                            hx(&c), hx(&p), node.chain().orphan_blocks_len()
                        ),
                        json!({"order_kind": "ChildInCommitWindow", "parent": hx(&p), "child": hx(&c), "tip": hx(&h(&node.tip_hash()))}),
                    );
                }
            }
        }
        // logical quiescence: FIFO flush through chain-service / preload / verify threads by
        // re-delivering an already delivered valid block (a legal duplicate) until the number
        // of callbacks is stable across two flushes.
        let received: HashSet<H> = order.iter().cloned().collect();
        let (_, best) = rc.best(&received);
        let sentinel = rc.ancestor_at(&best[0], 1);
        let mut prev = usize::MAX;
        for round in 0..8 {
            if let Some(sx) = sentinel {
                let (tx, rx) = std::sync::mpsc::channel();
                node.chain().asynchronous_process_remote_block(RemoteBlock {
                    block: Arc::clone(&rc.get(&sx).block),
                    verify_callback: Box::new(move |res| {
                        let _ = tx.send(res.is_ok());
                    }),
                });
                let t0 = Instant::now();
                let mut done = false;
                while t0.elapsed() < Duration::from_secs(60) {
                    if rx.recv_timeout(Duration::from_millis(20)).is_ok() {
                        done = true;
                        break;
                    }
                    if hooks::peek_panics() > 0 {
                        break;
                    }
                }
                if hooks::peek_panics() > 0 {
                    break;
                }
                if !done {
                    inconclusive = Some("watchdog: sentinel flush did not return within 60 s".into());
                    break;
                }
            } else {
                std::thread::sleep(Duration::from_millis(30));
            }
            let now = callbacks.lock().unwrap().len();
            if now == prev && round >= 1 {
                break;
            }
            prev = now;
        }
        stop.store(true, Ordering::SeqCst);
    });
    let _ = watchdog;
    let panics = hooks::take_panics();
    if !panics.is_empty() {
        // post-mortem for the witness: what the store and the status map say about every block
        let post_mortem: Vec<String> = {
            let mut seen = HashSet::new();
            order
                .iter()
                .filter(|x| seen.insert(**x))
                .map(|x| {
                    let bh = packed::Byte32::from_slice(x).unwrap();
                    let store = node.shared.store();
                    format!(
                        "{}#{}{} parent={} status={:?} header={} block={} ext_verified={:?}",
                        hx(x), rc.get(x).number, if rc.get(x).chain_valid { "" } else { "!" }, hx(&rc.get(x).parent),
                        node.shared.get_block_status(&bh), store.get_block_header(&bh).is_some(), store.get_block(&bh).is_some(),
                        store.get_block_ext(&bh).map(|e| e.verified)
                    )
                })
                .collect()
        };
        for p in &panics {
            // a panicking node thread wedges block processing: the node can no longer reach
            // the heaviest chain for whatever arrives next
            let file = p.location.rsplit('/').next().unwrap_or("").split(':').next().unwrap_or("").to_string();
            r.c01.violation(
                &format!("node_thread_panicked@{}:{}:{}", p.thread, file, p.message.chars().take(60).collect::<String>()),
                format!("thread '{}' of the node under test panicked at {}: {}", p.thread, p.location, p.message),
                json!({
                    "order_kind": format!("{kind:?}"), "threads": threads, "readers": readers, "delay_plan": with_plan,
                    "order": order.iter().map(|x| format!("{}#{}{}", hx(x), rc.get(x).number, if rc.get(x).chain_valid {""} else {"!"})).collect::<Vec<_>>(),
                    "post_mortem": post_mortem,
                    "in_repo_frames": p.frames,
                    "callbacks": callbacks.lock().unwrap().iter().map(|c| format!("{} ok={:?} err={:?}", hx(&c.hash), c.ok, c.err.as_ref().map(|e| e.chars().take(70).collect::<String>()))).collect::<Vec<_>>(),
                }),
            );
        }
        r.c01.count("deliveries_runs_aborted_by_node_panic");
        hooks::observe(None);
        hooks::set_plan(hooks::DelayPlan::default());
        std::mem::forget(node); // its pipeline is dead; joining could hang
        return;
    }
    if let Some(reason) = inconclusive {
        r.c01.inconclusive(&reason);
        hooks::observe(None);
        return;
    }

    // ---------------- oracles ----------------
    let cbs = callbacks.lock().unwrap().clone();
    let received: HashSet<H> = order.iter().cloned().collect();
    let mut deliveries: HashMap<H, usize> = HashMap::new();
    for x in &order {
        *deliveries.entry(*x).or_insert(0) += 1;
    }
    let mut cb_count: HashMap<H, usize> = HashMap::new();
    for c in &cbs {
        *cb_count.entry(c.hash).or_insert(0) += 1;
    }
    r.c01.count("deliveries_runs");
    r.c01.count_n("deliveries", order.len() as u64);
    r.c01.count_n("callbacks", cbs.len() as u64);
    r.c01.count(&format!("order.{kind:?}"));
    r.c01.count(&format!("threads.{threads}"));
    let witness = |extra: serde_json::Value| {
        json!({
            "order_kind": format!("{kind:?}"), "threads": threads, "readers": readers, "delay_plan": with_plan,
            "order": order.iter().map(|x| format!("{}#{}{}", hx(x), rc.get(x).number, if rc.get(x).chain_valid {""} else {"!"})).collect::<Vec<_>>(),
            "extra": extra,
        })
    };
    // orphaned deliveries observed (child delivered before an ancestor)
    {
        let mut seen: HashSet<H> = HashSet::new();
        seen.insert(rc.genesis);
        for x in &order {
            if !seen.contains(&rc.get(x).parent) {
                r.c01.count("obs.orphaned_deliveries");
            }
            seen.insert(*x);
        }
    }
    if std::env::var("VERIF_DEBUG").is_ok() {
        for c in &cbs {
            if !rc.get(&c.hash).chain_valid {
                eprintln!("DEBUG cb {} #{} ok={:?} err={:?}", hx(&c.hash), rc.get(&c.hash).number, c.ok, c.err);
            }
        }
    }
    // (a) callbacks
    for (x, n) in &deliveries {
        let rec = rc.get(x);
        let got = cb_count.get(x).copied().unwrap_or(0);
        r.c01.eval();
        let connectable = rc.connectable(&rec.parent, &received) || rec.parent == rc.genesis;
        let ancestors_valid = rc.get(&rec.parent).chain_valid;
        if got > *n {
            r.c01.violation("callbacks.more_than_deliveries", format!("block {} delivered {} times got {} callbacks", hx(x), n, got), witness(json!({"block": vbase::hex(x)})));
        }
        if connectable && ancestors_valid && got == 0 {
            let describe = |y: &H| -> serde_json::Value {
                let hash = packed::Byte32::from_slice(y).unwrap();
                let store = node.shared.store();
                json!({
                    "block": format!("{}#{}", hx(y), rc.get(y).number),
                    "deliveries": deliveries.get(y).copied().unwrap_or(0),
                    "callbacks": cbs.iter().filter(|c| c.hash == *y).map(|c| format!("{:?}/{:?}", c.ok, c.err)).collect::<Vec<_>>(),
                    "in_orphan_pool": node.chain().get_orphan_block(store, &hash).is_some(),
                    "status": format!("{:?}", node.shared.get_block_status(&hash)),
                    "stored": store.get_block_header(&hash).is_some(),
                    "ext": store.get_block_ext(&hash).map(|e| format!("verified={:?}", e.verified)),
                    "on_main_chain": store.is_main_chain(&hash),
                })
            };
            let mut chain_info = vec![describe(x)];
            let mut cur = rec.parent;
            for _ in 0..4 {
                chain_info.push(describe(&cur));
                if cur == rc.genesis { break; }
                cur = rc.get(&cur).parent;
            }
            r.c01.violation(
                "callbacks.connectable_block_never_answered",
                format!("block {} (#{}) whose ancestors were all delivered and valid got no verification callback (stuck as orphan or lost)", hx(x), rec.number),
                witness(json!({"block": vbase::hex(x), "orphans_in_pool": node.chain().orphan_blocks_len(), "block_and_ancestors": chain_info})),
            );
        }
    }
    for c in &cbs {
        let rec = rc.get(&c.hash);
        if rec.chain_valid && c.err.is_some() {
            r.c01.violation(
                "callbacks.valid_block_reported_failed",
                format!("block {} (#{}) is valid with valid ancestors but its submitter got Err({})", hx(&c.hash), rec.number, c.err.clone().unwrap_or_default()),
                witness(json!({"block": vbase::hex(&c.hash)})),
            );
        }
        if !rc.connectable(&rec.parent, &received) && rec.parent != rc.genesis && c.ok.is_some() {
            r.c01.violation("callbacks.unconnectable_block_reported_ok", format!("block {} has a missing ancestor but got Ok", hx(&c.hash)), witness(json!({})));
        }
        let _ = c.ok;
    }
    // (e) no connectable block remains in the orphan pool
    let orphan_len = node.chain().orphan_blocks_len();
    let unconnectable = received.iter().filter(|x| !rc.connectable(x, &received)).count();
    r.c01.eval();
    if orphan_len > unconnectable {
        r.c01.violation(
            "orphan_pool.connectable_block_left_in_pool",
            format!("{} blocks in the orphan pool but only {} delivered blocks have a missing ancestor", orphan_len, unconnectable),
            witness(json!({})),
        );
    }
    // (b) published tips: strictly increasing total difficulty, every tip fully valid
    let published = hooks::take_published();
    let mut prev_td = rc.get(&rc.genesis).td.clone();
    let mut prev_tip = rc.genesis;
    let mut reorgs = 0;
    for p in &published {
        if p.tip == prev_tip {
            continue; // a publication observed twice (builder thread activity) is not a change
        }
        r.c01.eval();
        if !rc.contains(&p.tip) {
            continue;
        }
        let rec = rc.get(&p.tip);
        if rec.parent != prev_tip {
            reorgs += 1;
        }
        if p.td <= prev_td {
            r.c01.violation(
                "tip.left_for_not_strictly_heavier_chain",
                format!("tip moved {} (td {:#x}) -> {} (td {:#x})", hx(&prev_tip), prev_td, hx(&p.tip), p.td),
                witness(json!({})),
            );
        }
        if !rec.chain_valid {
            r.c01.violation(
                "tip.invalid_chain_published",
                format!("published tip {} (#{}) is on an invalid chain (rule {:?})", hx(&p.tip), rec.number, rec.invalid_rule),
                witness(json!({})),
            );
        }
        if p.td != rec.td {
            r.c01.violation("tip.published_total_difficulty_wrong", format!("published td {:#x} model {:#x}", p.td, rec.td), witness(json!({})));
        }
        check_view(rc, &p.tip, &p.set, &p.gap, "published_snapshot", r);
        prev_td = p.td.clone();
        prev_tip = p.tip;
    }
    r.c01.count_n("obs.published_tips", published.len() as u64);
    r.c01.count_n("obs.reorgs", reorgs);
    // (c) final tip
    let snap = node.shared.snapshot();
    let tip = h(&snap.tip_hash());
    let (best_td, best) = rc.best(&received);
    r.c01.eval();
    r.c01.distinct(vbase::fnv1a(format!("{shape}{kind:?}{threads}{}", hooks::trace_signature()).as_bytes()));
    if best.len() > 1 {
        r.c01.count("obs.equal_work_ties");
    }
    if *snap.total_difficulty() != best_td || !best.contains(&tip) {
        r.c01.violation(
            "final_tip.not_heaviest_valid_chain",
            format!(
                "final tip {} (#{}, td {:#x}, valid_chain={}) but the heaviest fully valid chain has td {:#x} (tips {:?})",
                hx(&tip), snap.tip_number(), snap.total_difficulty(),
                rc.contains(&tip) && rc.get(&tip).chain_valid, best_td,
                best.iter().map(hx).collect::<Vec<_>>()
            ),
            witness(json!({"tip": vbase::hex(&tip)})),
        );
    }
    if published.last().map(|p| p.tip != tip).unwrap_or(tip != rc.genesis) && !published.is_empty() {
        r.c01.violation("final_tip.differs_from_last_published", format!("last published {:?} final {}", published.last().map(|p| hx(&p.tip)), hx(&tip)), witness(json!({})));
    }
    // block status of invalid blocks that were connectable: never on main chain (dump check),
    // C02 at quiescence: store and snapshot
    let d = dump::dump(node.shared.store());
    compare_and_report(&d, rc, "delivered_node_quiescent", r, true);
    let ds = dump::dump(snap.as_ref());
    compare_and_report(&ds, rc, "delivered_node_snapshot", r, false);
    check_view(rc, &tip, snap.proposals().set(), snap.proposals().gap(), "quiescent", r);
    // concurrent readers
    for (sig, det, t) in reader_diffs.lock().unwrap().iter() {
        r.c02.violation(sig, det.clone(), witness(json!({"reader_tip": vbase::hex(t)})));
    }
    r.c02.evals(reader_stats.0.load(Ordering::Relaxed) + reader_stats.1.load(Ordering::Relaxed));
    r.c02.count_n("concurrent_snapshot_light_checks", reader_stats.0.load(Ordering::Relaxed));
    r.c02.count_n("concurrent_snapshot_full_dumps", reader_stats.1.load(Ordering::Relaxed));
    for (t, set, gap) in reader_views.lock().unwrap().iter() {
        check_view(rc, t, set, gap, "concurrent_reader", r);
    }
    // C19: proofs for the final main chain
    check_proofs(&node, rc, &received, rng, r);
    if r.c01.samples.len() < 4 {
        r.c01.sample(json!({
            "order_kind": format!("{kind:?}"), "threads": threads, "readers": readers,
            "deliveries": order.len(), "callbacks": cbs.len(), "published_tips": published.len(), "reorgs": reorgs,
            "final_tip": format!("{}#{}", hx(&tip), snap.tip_number()), "orphans_left": orphan_len,
        }));
    }
    if r.c02.samples.len() < 3 {
        r.c02.sample(json!({"tip": hx(&d.tip), "live_cells": d.cells.len(), "tx_rows": d.tx_info.len(), "uncle_rows": d.uncles.len(), "mmr_nodes": d.mmr.len()}));
    }
    hooks::observe(None);
    hooks::set_plan(hooks::DelayPlan::default());
    drop(snap);
    drop(node);
    // restart: the same database reopened through the production path must come back with the
    // same tip, the same canonical state and the same proposal view
    if let Some(root) = restart_root {
        let reopened = std::panic::catch_unwind(std::panic::AssertUnwindSafe(|| Node::boot(gi, &node_cfg)));
        let _ = hooks::take_panics();
        match reopened {
            Err(_) => r.c20.count("restart.reopen_not_possible"),
            Ok(n2) => {
                r.c20.count("restart.reopened");
                let snap2 = n2.shared.snapshot();
                let tip2 = h(&snap2.tip_hash());
                if tip2 != tip {
                    r.c01.violation("restart.tip_changed", format!("tip {} before the restart, {} after", hx(&tip), hx(&tip2)), json!({"order_kind": format!("{kind:?}")}));
                } else {
                    let d2 = dump::dump(n2.shared.store());
                    compare_and_report(&d2, rc, "after_restart", r, true);
                    check_view(rc, &tip2, snap2.proposals().set(), snap2.proposals().gap(), "after_restart", r);
                }
                drop(snap2);
                drop(n2);
            }
        }
        let _ = std::fs::remove_dir_all(&root);
    }
}

/// C19: membership proofs served from the node's MMR verify against the root committed by
/// the tip, and not against the root committed by a block of a competing fork.
fn check_proofs(node: &Node, rc: &RefChain, received: &HashSet<H>, rng: &mut Rng, r: &mut Reports) {
    let snap = node.shared.snapshot();
    let tip_number = snap.tip_number();
    if tip_number < 2 {
        return;
    }
    let tip = h(&snap.tip_hash());
    if !rc.contains(&tip) {
        return;
    }
    let tip_block = Arc::clone(&rc.get(&tip).block);
    let mmr = snap.chain_root_mmr(tip_number - 1);
    let root = match mmr.get_root() {
        Ok(x) => x,
        Err(e) => {
            r.c19.violation("mmr.get_root_failed", format!("{e}"), json!({}));
            return;
        }
    };
    // committed by the tip?
    r.c19.eval();
    let vh = VerifiableHeader::new(
        tip_block.header(),
        tip_block.calc_uncles_hash(),
        tip_block.extension(),
        root.clone(),
    );
    if !vh.is_valid(0) {
        r.c19.violation(
            "mmr.node_root_not_committed_by_tip",
            format!("root served for tip {} (#{}) is not the one committed in its extension", hx(&tip), tip_number),
            json!({"tip": vbase::hex(&tip)}),
        );
    }
    let st = rc.replay(&rc.get(&tip).parent);
    if root.as_slice() != &st.mmr.root().unwrap().to_bytes()[..] {
        r.c19.violation("mmr.node_root_differs_from_model", format!("tip {}", hx(&tip)), json!({}));
    }
    // random position sets
    for _ in 0..3 {
        let k = 1 + rng.usize_below(4.min(tip_number as usize));
        let mut nums: Vec<u64> = (0..k).map(|_| rng.below(tip_number)).collect();
        nums.sort();
        nums.dedup();
        let positions: Vec<u64> = nums.iter().map(|n| leaf_index_to_pos(*n)).collect();
        let proof = match mmr.gen_proof(positions.clone()) {
            Ok(p) => p,
            Err(e) => {
                r.c19.violation("mmr.gen_proof_failed", format!("{e} for {nums:?}"), json!({}));
                continue;
            }
        };
        let leaves: Vec<(u64, packed::HeaderDigest)> = nums
            .iter()
            .map(|n| {
                let x = st.chain[*n as usize];
                (leaf_index_to_pos(*n), rc.get(&x).block.digest())
            })
            .collect();
        r.c19.eval();
        r.c19.count("proofs_checked");
        r.c19.distinct(vbase::fnv1a(format!("{tip:?}{nums:?}").as_bytes()));
        if r.c19.samples.len() < 6 {
            r.c19.sample(json!({"kind": "membership_proof", "tip": format!("{}#{}", hx(&tip), tip_number), "block_numbers": nums, "proof_items": proof.proof_items().len()}));
        }
        match proof.verify(root.clone(), leaves.clone()) {
            Ok(true) => {}
            other => r.c19.violation(
                "mmr.proof_does_not_verify_against_committed_root",
                format!("tip {} positions {:?}: {:?}", hx(&tip), nums, other.map_err(|e| e.to_string())),
                json!({"tip": vbase::hex(&tip), "numbers": nums}),
            ),
        }
        // against a competing fork: a received valid block at the same height on another branch
        let rivals: Vec<&H> = received
            .iter()
            .filter(|x| {
                let rec = rc.get(x);
                rec.number == tip_number && **x != tip && rec.self_valid && rec.parent != rc.get(&tip).parent
            })
            .collect();
        if let Some(rv) = rivals.first() {
            let rst = rc.replay(&rc.get(rv).parent);
            let rroot_model = rst.mmr.root().unwrap();
            let rroot = packed::HeaderDigest::from_slice(&rroot_model.to_bytes()).unwrap();
            // only meaningful if at least one requested leaf differs between the two chains
            let differs = nums.iter().any(|n| rst.chain[*n as usize] != st.chain[*n as usize]);
            if differs {
                r.c19.eval();
                r.c19.count("proofs_checked_against_rival_fork");
                if let Ok(true) = proof.verify(rroot, leaves) {
                    r.c19.violation(
                        "mmr.proof_verifies_against_other_chain",
                        format!("proof for main chain tip {} also verifies against fork block {}", hx(&tip), hx(rv)),
                        json!({}),
                    );
                }
            }
        }
    }
}

/// Directed scenario (C01, "duplicate delivery"): an invalid block is delivered twice while the
/// verification queue is backlogged and many light side-branch blocks are delivered in between.
fn scenario_duplicate_invalid(args: &Args, rng: &mut Rng, r: &mut Reports) {
    let mut params = ChainParams::default();
    params.epoch = EpochMode::Permanent { genesis_len: 100, epoch_len: 100 };
    let gi = consensus::build(&params);
    let cfg = TreeCfg { n_blocks: 0, invalid: 0, max_new_txs: 1, uncle_pm: 0, ..Default::default() };
    let mut tg = TreeGen::new(&gi, cfg, rng.next_u64());
    let genesis = tg.rc.genesis;
    let n_side = args.tier.pick(190, 260);
    for _ in 0..n_side {
        tg.extend(&genesis);
    }
    let mut tip = genesis;
    for _ in 0..6 {
        tip = tg.extend(&tip);
    }
    let kinds = [vnode::treegen::Mutation::DaoField, vnode::treegen::Mutation::RewardPlusOne, vnode::treegen::Mutation::BadChainRoot];
    for kind in kinds {
        let Some(twin) = tg.mutate(&tip, kind) else { continue };
        let epoch = tg.rc.get(&tip).epoch.clone();
        let m = tg.rc.add(&twin, false, Some(&format!("{kind:?}")), epoch);
        // order: main chain up to parent(tip), M, side blocks, M, the valid twin
        let path: Vec<H> = tg.rc.path(&tg.rc.get(&tip).parent).into_iter().skip(1).collect();
        let on_path: HashSet<H> = path.iter().cloned().collect();
        let mut order = path.clone();
        // queue: D1(M), 40 side blocks, D2(M), the remaining side blocks (> capacity of the
        // preload->verify channel), then the valid twin
        order.push(m);
        let side: Vec<H> = tg.order.iter().filter(|x| !on_path.contains(*x) && **x != tip && tg.rc.get(x).number == 1).cloned().collect();
        for x in side.iter().take(40) {
            order.push(*x);
        }
        order.push(m);
        for x in side.iter().skip(40) {
            order.push(*x);
        }
        order.push(tip);
        tg.order.push(m);
        let shape = model::tree_shape(&tg.rc, &tg.order);
        deliver_fixed(&tg, &gi, order, rng, shape, r);
        tg.order.pop();
        r.c01.count("scenario.duplicate_invalid_runs");
    }
}

/// Directed scenario (C01): the child of an invalid block is accepted while its parent is still
/// pending verification (slow preload thread), and is picked up by the preload thread only
/// after the parent was refused and deleted. M = invalid twin of main-chain block c6 (it extends
/// the tip when it arrives, so it is verified at once), D = c7 re-parented onto M; order:
/// c1..c5, M, D, c6, c7. Judged by the ordinary oracles (every connectable delivery answered,
/// no node thread panics, final tip c7).
fn scenario_child_of_invalid_tip(rng: &mut Rng, r: &mut Reports) {
    let mut params = ChainParams::default();
    params.epoch = EpochMode::Permanent { genesis_len: 100, epoch_len: 100 };
    let gi = consensus::build(&params);
    let cfg = TreeCfg { n_blocks: 0, invalid: 0, max_new_txs: 1, uncle_pm: 0, ..Default::default() };
    let mut tg = TreeGen::new(&gi, cfg, rng.next_u64());
    let mut tip = tg.rc.genesis;
    for _ in 0..6 {
        tip = tg.extend(&tip);
    }
    let c6 = tip;
    let c7 = tg.extend(&c6);
    // (contextual rule violations: the block passes the chain service's own checks)
    let mut kinds = vec![vnode::treegen::Mutation::DaoField, vnode::treegen::Mutation::BadChainRoot, vnode::treegen::Mutation::RewardPlusOne];
    rng.shuffle(&mut kinds);
    let mut found = None;
    for k in kinds {
        if let Some(t) = tg.mutate(&c6, k) {
            found = Some((t, k));
            break;
        }
    }
    let Some((twin, kind)) = found else { return };
    let m = tg.rc.add(&twin, false, Some(&format!("{kind:?}")), tg.rc.get(&c6).epoch.clone());
    let d_block = tg.reparent(&c7, &m);
    let d = tg.rc.add(&d_block, true, None, tg.rc.get(&c7).epoch.clone());
    let mut order: Vec<H> = tg.rc.path(&tg.rc.get(&c6).parent).into_iter().skip(1).collect();
    order.extend([m, d, c6, c7]);
    tg.order.push(m);
    tg.order.push(d);
    let shape = model::tree_shape(&tg.rc, &tg.order);
    FIXED_ORDER.with(|f| *f.borrow_mut() = Some(order));
    // (the kind only selects the delay plan: slow preload thread)
    deliver_and_check(&tg, &gi, &OrderKind::InOrderInvalidTwice, 1, 0, true, rng, shape, r);
    FIXED_ORDER.with(|f| *f.borrow_mut() = None);
    r.c01.count("scenario.child_of_invalid_tip_runs");
}

/// Directed scenario (C01/C02, "uneven difficulty"): two branches leave the short genesis epoch
/// with very different block intervals, so the difficulty adjustment gives them different
/// per-block difficulties in epoch 1. The heavy branch A is delivered first; the light branch B
/// needs several more blocks to overtake, which stay stored and unverified until the block that
/// makes B the heaviest chain arrives: the new tip is then several blocks HIGHER than the old one
/// and a whole run of unverified blocks is attached in one reorganisation.
fn scenario_light_branch_overtakes(rng: &mut Rng, r: &mut Reports) {
    let mut params = ChainParams::default();
    let genesis_len = 4 + rng.below(4);
    params.epoch = EpochMode::Adjusting { genesis_len, duration_target: 80 };
    let gi = consensus::build(&params);
    let cfg = TreeCfg { n_blocks: 0, invalid: 0, max_new_txs: 1, uncle_pm: 0, fork_pm: 0, ..Default::default() };
    let mut tg = TreeGen::new(&gi, cfg, rng.next_u64());
    let genesis = tg.rc.genesis;
    // branch A: blocks 1 ms apart -> short epoch 0 -> higher difficulty in epoch 1
    tg.cfg.ts_step_min = 0;
    tg.cfg.ts_step_max = 1;
    let mut a = genesis;
    for _ in 0..(genesis_len + 2) {
        a = tg.extend(&a);
    }
    // branch B: blocks ~14 s apart -> long epoch 0 -> lower difficulty in epoch 1
    tg.cfg.ts_step_min = 13_000;
    tg.cfg.ts_step_max = 14_000;
    let mut b_blocks: Vec<H> = vec![];
    let mut b = genesis;
    let a_td = tg.rc.get(&a).td.clone();
    for _ in 0..(genesis_len * 8 + 40) {
        b = tg.extend(&b);
        b_blocks.push(b);
        if tg.rc.get(&b).td > a_td {
            break;
        }
    }
    let (na, nb) = (tg.rc.get(&a).number, tg.rc.get(&b).number);
    if tg.rc.get(&b).td <= a_td || nb < na + 2 {
        r.c01.count("scenario.light_branch.not_realised");
        return;
    }
    r.c01.count("scenario.light_branch_overtakes_runs");
    r.c01.count_n("scenario.light_branch.height_gap", nb - na);
    // order: A completely, then B completely (its last block is the one that overtakes)
    let mut order: Vec<H> = tg.rc.path(&a).into_iter().skip(1).collect();
    order.extend(b_blocks.iter().cloned());
    // and one more block on B afterwards (its parent's record must be the right one)
    tg.cfg.ts_step_min = 0;
    tg.cfg.ts_step_max = 1000;
    let b_next = tg.extend(&b);
    order.push(b_next);
    let shape = model::tree_shape(&tg.rc, &tg.order);
    FIXED_ORDER.with(|f| *f.borrow_mut() = Some(order));
    deliver_and_check(&tg, &gi, &OrderKind::InOrder, 1, 1, false, rng, shape, r);
    FIXED_ORDER.with(|f| *f.borrow_mut() = None);
}

/// Directed scenario (C20, also C01/C02): a fork becomes the heaviest chain through a block that
/// fails contextual verification, so the reorganisation is attempted (fork found, main-chain
/// blocks rolled back inside the database transaction) and refused; afterwards the old main chain
/// is extended. Side blocks propose other ids than the main blocks of the same heights: whatever
/// the refused attempt left behind shows in the proposal view of the next published snapshots.
fn scenario_refused_heavier_fork(rng: &mut Rng, r: &mut Reports) {
    let mut params = ChainParams::default();
    params.epoch = EpochMode::Permanent { genesis_len: 100, epoch_len: 100 };
    let gi = consensus::build(&params);
    let cfg = TreeCfg { n_blocks: 0, invalid: 0, max_new_txs: 2, junk_proposals: 2, uncle_pm: 0, fork_pm: 0, ..Default::default() };
    let mut tg = TreeGen::new(&gi, cfg, rng.next_u64());
    // the builder works depth first: common prefix, then the side branch (with the block that
    // would overtake and its invalid twin), then back to the fork point for the main chain
    let mut tip = tg.rc.genesis;
    let mut prefix: Vec<H> = vec![];
    let pre_len = 6 + rng.usize_below(4);
    for _ in 0..pre_len {
        tip = tg.extend(&tip);
        prefix.push(tip);
    }
    let fork_point = tip;
    let depth = 2 + rng.usize_below(2);
    let mut side: Vec<H> = vec![];
    let mut cur = fork_point;
    for _ in 0..depth {
        cur = tg.extend(&cur);
        side.push(cur);
    }
    let over = tg.extend(&cur);
    let mut kinds = vec![vnode::treegen::Mutation::DaoField, vnode::treegen::Mutation::BadChainRoot, vnode::treegen::Mutation::RewardPlusOne];
    rng.shuffle(&mut kinds);
    let mut found = None;
    for k in kinds {
        if let Some(t) = tg.mutate(&over, k) {
            found = Some((t, k));
            break;
        }
    }
    let Some((twin, kind)) = found else { return };
    let m = tg.rc.add(&twin, false, Some(&format!("{kind:?}")), tg.rc.get(&over).epoch.clone());
    tg.order.push(m);
    // main chain: as long as the side branch first (delivered before it: stays the tip), then on
    let mut main_rest: Vec<H> = vec![];
    let mut cur = fork_point;
    for _ in 0..(depth + 3) {
        cur = tg.extend(&cur);
        main_rest.push(cur);
    }
    let mut order: Vec<H> = prefix.clone();
    order.extend(main_rest[..depth].iter().cloned());
    order.extend(side.iter().cloned());
    order.push(m);
    order.extend(main_rest[depth..].iter().cloned());
    let shape = model::tree_shape(&tg.rc, &tg.order);
    FIXED_ORDER.with(|f| *f.borrow_mut() = Some(order));
    deliver_and_check(&tg, &gi, &OrderKind::InOrder, 1, 1, false, rng, shape, r);
    FIXED_ORDER.with(|f| *f.borrow_mut() = None);
    r.c20.count("scenario.refused_heavier_fork_runs");
}

/// Directed scenario (C20, C01, C02; fault injection through hook H2b): the database write of a
/// block import fails with an I/O error - either the commit that stores the received block or the
/// commit of the reorganisation it triggers. The node has to stay on its old chain with an
/// unchanged state and proposal view, go on extending it, and accept the same block when it is
/// delivered again later (the reorganisation then succeeds).
fn scenario_commit_fault(rng: &mut Rng, r: &mut Reports) {
    let mut params = ChainParams::default();
    params.epoch = EpochMode::Permanent { genesis_len: 100, epoch_len: 100 };
    let gi = consensus::build(&params);
    let cfg = TreeCfg { n_blocks: 0, invalid: 0, max_new_txs: 2, junk_proposals: 2, uncle_pm: 0, fork_pm: 0, ..Default::default() };
    let mut tg = TreeGen::new(&gi, cfg, rng.next_u64());
    let mut tip = tg.rc.genesis;
    let mut prefix: Vec<H> = vec![];
    for _ in 0..(6 + rng.usize_below(4)) {
        tip = tg.extend(&tip);
        prefix.push(tip);
    }
    let fork_point = tip;
    let depth = 2 + rng.usize_below(2);
    let mut side: Vec<H> = vec![];
    let mut cur = fork_point;
    for _ in 0..depth {
        cur = tg.extend(&cur);
        side.push(cur);
    }
    let over = tg.extend(&cur);
    let over2 = tg.extend(&over);
    let mut main_rest: Vec<H> = vec![];
    let mut cur = fork_point;
    for _ in 0..(depth + 1) {
        cur = tg.extend(&cur);
        main_rest.push(cur);
    }
    let rc = &tg.rc;
    let node = Node::boot(&gi, &NodeCfg::default());
    let deliver = |x: &H| node.chain().blocking_process_block(Arc::clone(&rc.get(x).block));
    let wit = |extra: serde_json::Value| json!({"fork_point": format!("{}#{}", hx(&fork_point), rc.get(&fork_point).number), "side_branch_blocks": depth + 2, "extra": extra});
    for x in prefix.iter().chain(main_rest[..depth].iter()).chain(side.iter()) {
        if !matches!(deliver(x), Ok(true)) {
            r.c01.inconclusive("harness: commit-fault scenario could not deliver its preparation blocks");
            return;
        }
    }
    let old_tip = main_rest[depth - 1];
    let state = |ctx: &str, want_tip: &H, r: &mut Reports| {
        let snap = node.shared.snapshot();
        let t = h(&snap.tip_hash());
        r.c01.eval();
        if t != *want_tip {
            r.c01.violation(&format!("commit_fault.tip_differs@{ctx}"), format!("tip {} expected {}", hx(&t), hx(want_tip)), wit(json!({})));
            return;
        }
        check_view(rc, &t, snap.proposals().set(), snap.proposals().gap(), ctx, r);
        let d = dump::dump(node.shared.store());
        compare_and_report(&d, rc, ctx, r, true);
    };
    // the fault: 1 = the commit that stores the received block, 2 = the commit of its verification
    let which = 1 + rng.below(2);
    ckb_db::verif::fail_write_at(ckb_db::verif::commit_count() + which);
    let res = deliver(&over);
    ckb_db::verif::fail_write_at(0);
    r.c20.count("scenario.commit_fault_runs");
    match &res {
        Err(e) => {
            r.c20.count(&format!("scenario.commit_fault.block_answered_with_an_error.write_{which}"));
            let _ = e;
        }
        Ok(_) => {
            // the armed write was not reached by this block (nothing to judge about the fault)
            r.c20.count("scenario.commit_fault.not_hit");
        }
    }
    if res.is_err() {
        state("after_a_failed_database_write", &old_tip, r);
        // the old chain goes on
        if !matches!(deliver(&main_rest[depth]), Ok(true)) {
            r.c01.violation("commit_fault.next_block_refused", "after a failed database write of a competing block the next block of the main chain was refused".into(), wit(json!({})));
            return;
        }
        state("after_a_failed_database_write_and_the_next_block", &main_rest[depth], r);
    } else if !matches!(deliver(&main_rest[depth]), Ok(_)) {
        return;
    }
    // the block whose import failed arrives again, then its child: the side branch is heavier now
    for x in [&over, &over2] {
        let res = deliver(x);
        if res.is_err() {
            r.c01.violation("commit_fault.block_refused_when_delivered_again", format!("{:?}", res.map_err(|e| e.to_string())), wit(json!({"block": hx(x)})));
            return;
        }
    }
    state("after_a_failed_database_write_and_a_later_successful_reorganisation", &over2, r);
    for p in hooks::take_panics() {
        r.c01.violation(&format!("node_thread_panicked@{}:{}", p.thread, p.message.chars().take(60).collect::<String>()), format!("{} at {} (commit-fault scenario)", p.message, p.location), wit(json!({})));
    }
}

/// Directed scenario (C20, C01, C02): a side block (sibling of the tip) and the next main-chain
/// block arrive back to back while every snapshot refresh is stretched (seeded delay at hook H4b
/// between the load and the store inside `refresh_snapshot`). Whoever refreshes the snapshot
/// must not overwrite a tip published meanwhile: at quiescence the published snapshot has to be
/// at the stored tip, with that tip's proposal view.
fn scenario_side_block_while_tip_moves(rng: &mut Rng, r: &mut Reports) {
    let mut params = ChainParams::default();
    params.epoch = EpochMode::Permanent { genesis_len: 100, epoch_len: 100 };
    let gi = consensus::build(&params);
    let cfg = TreeCfg { n_blocks: 0, invalid: 0, max_new_txs: 2, junk_proposals: 2, uncle_pm: 0, fork_pm: 0, ..Default::default() };
    let mut tg = TreeGen::new(&gi, cfg, rng.next_u64());
    let mut tip = tg.rc.genesis;
    let mut prefix: Vec<H> = vec![];
    for _ in 0..(5 + rng.usize_below(4)) {
        tip = tg.extend(&tip);
        prefix.push(tip);
    }
    // depth first: the side block X (sibling of the last prefix block) first, then the main chain
    let parent_of_last = tg.rc.get(&tip).parent;
    let last = tip;
    let x = tg.extend(&parent_of_last);
    // back to the main chain: re-walk is not possible for the builder (depth first), so the main
    // chain continues from a fresh sibling of X: X2 = new last block, then next
    let last2 = tg.extend(&parent_of_last);
    let next = tg.extend(&last2);
    let _ = last;
    let rc = &tg.rc;
    let node = Node::boot(&gi, &NodeCfg::default());
    // everything up to the parent, then the tip `last2` (the first-seen block of its height)
    for b in prefix[..prefix.len() - 1].iter().chain(std::iter::once(&last2)) {
        if !matches!(node.chain().blocking_process_block(Arc::clone(&rc.get(b).block)), Ok(true)) {
            r.c01.inconclusive("harness: snapshot-writers scenario could not deliver its preparation blocks");
            return;
        }
    }
    let ms = 2 + rng.below(9);
    {
        let mut points = std::collections::BTreeMap::new();
        points.insert("shared::refresh_snapshot_before_store", (2000u64, ms * 1000));
        hooks::set_plan(hooks::DelayPlan { points, seed: rng.next_u64() });
    }
    let answered = Arc::new(std::sync::atomic::AtomicUsize::new(0));
    let order: Vec<H> = if rng.bool() { vec![next, x] } else { vec![x, next] };
    for b in &order {
        let a = Arc::clone(&answered);
        node.chain().asynchronous_process_remote_block(ckb_chain::RemoteBlock {
            block: Arc::clone(&rc.get(b).block),
            verify_callback: Box::new(move |_| {
                a.fetch_add(1, Ordering::SeqCst);
            }),
        });
        if rng.bool() {
            std::thread::sleep(Duration::from_micros(rng.below(1_500)));
        }
    }
    let t0 = Instant::now();
    while answered.load(Ordering::SeqCst) < 2 && t0.elapsed() < Duration::from_secs(30) {
        std::thread::sleep(Duration::from_millis(1));
    }
    // let a refresh that is still asleep finish
    std::thread::sleep(Duration::from_millis(2 * ms + 5));
    hooks::set_plan(hooks::DelayPlan::default());
    if answered.load(Ordering::SeqCst) < 2 {
        r.c01.inconclusive("watchdog: snapshot-writers scenario: a block was not answered in 30 s");
        return;
    }
    r.c20.count("scenario.side_block_while_tip_moves_runs");
    use ckb_store::ChainStore;
    let stored_tip = node.shared.store().get_tip_header().map(|hd| h(&hd.hash()));
    let snap = node.shared.snapshot();
    let t = h(&snap.tip_hash());
    r.c01.eval();
    let wit = json!({"order": order.iter().map(|b| format!("{}#{}", hx(b), rc.get(b).number)).collect::<Vec<_>>(), "refresh_delay_ms": ms});
    if stored_tip != Some(next) {
        r.c01.violation("snapshot_writers.stored_tip_differs", format!("stored tip {:?} expected {}", stored_tip.map(|x| hx(&x)), hx(&next)), wit.clone());
        return;
    }
    if t != next {
        r.c02.violation("snapshot.published_tip_behind_stored_tip@quiescent", format!("published snapshot is at {}#{} while the stored tip is {}#{} and nothing is in flight", hx(&t), rc.get(&t).number, hx(&next), rc.get(&next).number), wit.clone());
        r.c20.violation("proposal_view.snapshot_behind_stored_tip@quiescent", format!("the published proposal view belongs to {}#{}, the stored tip is {}#{}", hx(&t), rc.get(&t).number, hx(&next), rc.get(&next).number), wit);
        return;
    }
    check_view(rc, &t, snap.proposals().set(), snap.proposals().gap(), "after_a_side_block_raced_with_the_next_tip", r);
    let d = dump::dump(node.shared.store());
    compare_and_report(&d, rc, "after_a_side_block_raced_with_the_next_tip", r, true);
}

fn deliver_fixed(tg: &TreeGen, gi: &GenesisInfo, order: Vec<H>, rng: &mut Rng, shape: u64, r: &mut Reports) {
    FIXED_ORDER.with(|f| *f.borrow_mut() = Some(order));
    deliver_and_check(tg, gi, &OrderKind::InvalidDupLagged, 1, 0, true, rng, shape, r);
    FIXED_ORDER.with(|f| *f.borrow_mut() = None);
}

thread_local! {
    static FIXED_ORDER: std::cell::RefCell<Option<Vec<H>>> = const { std::cell::RefCell::new(None) };
}
