//! Engine `freeze` (C10): freezing old blocks is invisible to every chain query and survives
//! crashes.
//!
//! Parent: generates a chain of several tiny epochs with forks (side blocks at heights that
//! become frozen), uncles, proposals, extension; computes the EXPECTED answer vector from the
//! RefChain model; runs child processes on a path database with the freezer enabled:
//!   build   : import all blocks, answers A1
//!   freeze  : reopen, answers (cold), run `Shared::verif_freeze_once()` (hook H4) while reader
//!             threads evaluate the same queries, answers after freeze (warm), freeze again
//!   restart : reopen, answers (cold caches), freeze again (must be a no-op), answers
//!   crash   : `freeze` killed at its k-th durable write (hook H2), then `restart`
//!   nofreezer: the same history on a node without freezer
//! and compares every answer vector with the expected one.
//!   syncfreeze: (durability-order monitor) the child runs under strace: a freeze pass that another
//!             thread cuts short through `freezer.stopped`, then a completing pass; the parent
//!             replays the syscall log through `vbase::durability::Model` and demands that no
//!             RocksDB file is fsynced after the pass wrote to the WAL (the deletions) while a
//!             freezer file still holds unsynced data.

use ckb_chain::RemoteBlock;
use ckb_hash::blake2b_256;
use ckb_store::ChainStore;
use ckb_traits::ExtensionProvider;
use ckb_types::core::BlockView;
use ckb_types::packed;
use ckb_types::prelude::*;
use serde_json::{Value, json};
use std::collections::{BTreeMap, HashSet};
use std::path::{Path, PathBuf};
use std::process::Command;
use std::sync::Arc;
use std::sync::atomic::{AtomicBool, Ordering};
use std::time::{Duration, Instant};
use vbase::{Args, Report, Rng};
use vnode::consensus::{self, ChainParams, EpochMode};
use vnode::model::{H, RefChain, h, hx};
use vnode::node::{DbKind, Node, NodeCfg};
use vnode::treegen::{TreeCfg, TreeGen};

fn hex_to_bytes(s: &str) -> Vec<u8> {
    (0..s.len() / 2)
        .map(|i| u8::from_str_radix(&s[2 * i..2 * i + 2], 16).unwrap())
        .collect()
}

fn hh(b: &[u8]) -> String {
    vbase::hex(&blake2b_256(b)[..10])
}

fn params_for(variant: u64) -> ChainParams {
    let mut p = ChainParams::default();
    p.epoch = match variant % 3 {
        0 => EpochMode::Permanent { genesis_len: 4, epoch_len: 4 },
        1 => EpochMode::Permanent { genesis_len: 3, epoch_len: 5 },
        _ => EpochMode::Permanent { genesis_len: 6, epoch_len: 3 },
    };
    p.window = (2, 10);
    p
}

pub type Answers = BTreeMap<String, String>;

pub fn node_answers_pub<S: ChainStore>(store: &S, q: &Value) -> Answers {
    node_answers(store, q)
}

/// The queries and the node's answers. `blocks`: (hash, is_main) of every model block;
/// `txs`: main-chain tx hashes; `cells`: live out points; `main`: main chain hashes by number.
fn node_answers<S: ChainStore>(store: &S, q: &Value) -> Answers {
    let mut a = Answers::new();
    let b32 = |s: &str| packed::Byte32::from_slice(&hex_to_bytes(s)).unwrap();
    for b in q["blocks"].as_array().unwrap() {
        let hs = b[0].as_str().unwrap();
        let hash = b32(hs);
        let main = b[1].as_bool().unwrap();
        a.insert(format!("block|{hs}"), store.get_block(&hash).map(|x| hh(x.data().as_slice())).unwrap_or("none".into()));
        if !main {
            continue;
        }
        a.insert(format!("packed|{hs}"), store.get_packed_block(&hash).map(|x| hh(x.as_slice())).unwrap_or("none".into()));
        a.insert(format!("header|{hs}"), store.get_block_header(&hash).map(|x| hh(x.data().as_slice())).unwrap_or("none".into()));
        a.insert(format!("packed_header|{hs}"), store.get_packed_block_header(&hash).map(|x| hh(x.as_slice())).unwrap_or("none".into()));
        let body: Vec<u8> = store.get_block_body(&hash).iter().flat_map(|t| t.hash().as_slice().to_vec()).collect();
        a.insert(format!("body|{hs}"), hh(&body));
        let th: Vec<u8> = store.get_block_txs_hashes(&hash).iter().flat_map(|t| t.as_slice().to_vec()).collect();
        a.insert(format!("txhashes|{hs}"), hh(&th));
        a.insert(format!("cellbase|{hs}"), store.get_cellbase(&hash).map(|t| hh(t.hash().as_slice())).unwrap_or("none".into()));
        a.insert(format!("uncles|{hs}"), store.get_block_uncles(&hash).map(|u| hh(u.data().as_slice())).unwrap_or("none".into()));
        a.insert(format!("proposals|{hs}"), store.get_block_proposal_txs_ids(&hash).map(|p| hh(p.as_slice())).unwrap_or("none".into()));
        a.insert(format!("extension|{hs}"), store.get_block_extension(&hash).map(|e| hh(e.as_slice())).unwrap_or("none".into()));
        let dl = store.borrow_as_data_loader();
        a.insert(format!("extension_via_data_loader|{hs}"), ExtensionProvider::get_block_extension(&dl, &hash).map(|e| hh(e.as_slice())).unwrap_or("none".into()));
        a.insert(format!("number|{hs}"), store.get_block_number(&hash).map(|n| n.to_string()).unwrap_or("none".into()));
        a.insert(format!("ext_verified|{hs}"), store.get_block_ext(&hash).map(|e| format!("{:?}", e.verified)).unwrap_or("none".into()));
        a.insert(format!("epoch|{hs}"), store.get_block_epoch(&hash).map(|e| e.number().to_string()).unwrap_or("none".into()));
    }
    for t in q["txs"].as_array().unwrap() {
        let ts = t.as_str().unwrap();
        let th = b32(ts);
        a.insert(format!("tx|{ts}"), store.get_transaction(&th).map(|(tx, bh)| format!("{}@{}", hh(tx.data().as_slice()), vbase::hex(&bh.as_slice()[..6]))).unwrap_or("none".into()));
        a.insert(format!("txinfo|{ts}"), store.get_transaction_info(&th).map(|i| format!("{}#{}:{}", vbase::hex(&i.block_hash.as_slice()[..6]), i.block_number, i.index)).unwrap_or("none".into()));
        a.insert(format!("tx_with_info|{ts}"), store.get_transaction_with_info(&th).map(|(tx, i)| format!("{}@{}#{}:{}", hh(tx.data().as_slice()), vbase::hex(&i.block_hash.as_slice()[..6]), i.block_number, i.index)).unwrap_or("none".into()));
    }
    let main: Vec<packed::Byte32> = q["main"].as_array().unwrap().iter().map(|x| b32(x.as_str().unwrap())).collect();
    let tip = main.last().unwrap();
    for (n, _) in main.iter().enumerate() {
        a.insert(format!("ancestor|{n}"), store.get_ancestor(tip, n as u64).map(|hd| vbase::hex(&hd.hash().as_slice()[..6])).unwrap_or("none".into()));
        a.insert(format!("hash_by_number|{n}"), store.get_block_hash(n as u64).map(|x| vbase::hex(&x.as_slice()[..6])).unwrap_or("none".into()));
    }
    for c in q["cells"].as_array().unwrap() {
        let op = packed::OutPoint::new(b32(c[0].as_str().unwrap()), c[1].as_u64().unwrap() as u32);
        let key = format!("{}:{}", &c[0].as_str().unwrap()[..12], c[1]);
        a.insert(format!("cell|{key}"), store.get_cell(&op).map(|m| hh(m.cell_output.as_slice())).unwrap_or("none".into()));
        a.insert(format!("cell_data|{key}"), store.get_cell_data(&op).map(|(d, dh)| format!("{}/{}", hh(&d), vbase::hex(&dh.as_slice()[..6]))).unwrap_or("none".into()));
    }
    a
}

fn expected_answers(rc: &RefChain, order: &[H], tip: &H) -> (Value, Answers) {
    let st = rc.replay(tip);
    let main: HashSet<H> = st.chain.iter().cloned().collect();
    let mut all: Vec<H> = vec![rc.genesis];
    all.extend(order.iter().cloned());
    let q = json!({
        "blocks": all.iter().map(|x| json!([vbase::hex(x), main.contains(x)])).collect::<Vec<_>>(),
        "txs": st.tx_info.keys().map(|t| vbase::hex(t)).collect::<Vec<_>>(),
        "main": st.chain.iter().map(|x| vbase::hex(x)).collect::<Vec<_>>(),
        "cells": st.cells.keys().map(|k| json!([vbase::hex(&k.0), k.1])).collect::<Vec<_>>(),
    });
    let mut e = Answers::new();
    for x in &all {
        let rec = rc.get(x);
        let hs = vbase::hex(x);
        let b: &BlockView = &rec.block;
        if !main.contains(x) {
            // side blocks: judged separately (they may be wiped out at frozen heights)
            continue;
        }
        e.insert(format!("block|{hs}"), hh(b.data().as_slice()));
        e.insert(format!("packed|{hs}"), hh(b.data().as_slice()));
        e.insert(format!("header|{hs}"), hh(b.header().data().as_slice()));
        e.insert(format!("packed_header|{hs}"), hh(b.header().data().as_slice()));
        let body: Vec<u8> = b.transactions().iter().flat_map(|t| t.hash().as_slice().to_vec()).collect();
        e.insert(format!("body|{hs}"), hh(&body));
        e.insert(format!("txhashes|{hs}"), hh(&body));
        e.insert(format!("cellbase|{hs}"), hh(b.transactions()[0].hash().as_slice()));
        e.insert(format!("uncles|{hs}"), hh(b.uncles().data().as_slice()));
        e.insert(format!("proposals|{hs}"), hh(b.data().proposals().as_slice()));
        e.insert(format!("extension|{hs}"), b.extension().map(|x| hh(x.as_slice())).unwrap_or("none".into()));
        e.insert(format!("extension_via_data_loader|{hs}"), b.extension().map(|x| hh(x.as_slice())).unwrap_or("none".into()));
        e.insert(format!("number|{hs}"), rec.number.to_string());
        e.insert(format!("ext_verified|{hs}"), "Some(true)".into());
        e.insert(format!("epoch|{hs}"), rec.epoch.as_ref().map(|ep| ep.number().to_string()).unwrap_or_default());
        for (i, tx) in b.transactions().iter().enumerate() {
            let ts = vbase::hex(tx.hash().as_slice());
            e.insert(format!("tx|{ts}"), format!("{}@{}", hh(tx.data().as_slice()), vbase::hex(&x[..6])));
            e.insert(format!("txinfo|{ts}"), format!("{}#{}:{}", vbase::hex(&x[..6]), rec.number, i));
            e.insert(format!("tx_with_info|{ts}"), format!("{}@{}#{}:{}", hh(tx.data().as_slice()), vbase::hex(&x[..6]), rec.number, i));
        }
    }
    for (n, x) in st.chain.iter().enumerate() {
        e.insert(format!("ancestor|{n}"), vbase::hex(&x[..6]));
        e.insert(format!("hash_by_number|{n}"), vbase::hex(&x[..6]));
    }
    for (k, c) in st.cells.iter() {
        let key = format!("{}:{}", &vbase::hex(&k.0)[..12], k.1);
        e.insert(format!("cell|{key}"), hh(&c.output));
        let dh = if c.data.is_empty() { [0u8; 32] } else { blake2b_256(&c.data) };
        e.insert(format!("cell_data|{key}"), format!("{}/{}", hh(&c.data), vbase::hex(&dh[..6])));
    }
    (q, e)
}

// ---------------------------------------------------------------------------------------
// child: `vmon freeze-child mode=build|freeze|restart db=DIR history=FILE out=FILE freezer=0|1`

pub fn child(args: &Args) -> i32 {
    let db = PathBuf::from(args.get_str("db").expect("db="));
    let hist: Value = serde_json::from_str(&std::fs::read_to_string(args.get_str("history").expect("history=")).unwrap()).unwrap();
    let out = PathBuf::from(args.get_str("out").expect("out="));
    let mode = args.get_str("mode").unwrap_or("build").to_string();
    let freezer = args.get_u64("freezer", 1) == 1;
    let params = params_for(hist["variant"].as_u64().unwrap());
    vnode::node::set_time(hist["now"].as_u64().unwrap());
    let gi = consensus::build(&params);
    let q = &hist["queries"];
    let node = Node::boot(
        &gi,
        &NodeCfg {
            db: DbKind::Path { root: db, freezer },
            ..Default::default()
        },
    );
    let mut result = json!({"mode": mode});
    let fnum = |n: &Node| n.shared.store().freezer().map(|f| f.number()).unwrap_or(0);
    // a pass that takes as long as a real one (thousands of blocks): a seeded delay per block at
    // hook H4d, i.e. while the freezer's lock is held and readers are queueing behind it
    if let Ok(ms) = std::env::var("VERIF_SLOW_FREEZE_MS") {
        vnode::hooks::install();
        let mut points = BTreeMap::new();
        points.insert("shared::freeze_before_fetch_block", (2000u64, ms.parse::<u64>().unwrap_or(10) * 1000));
        vnode::hooks::set_plan(vnode::hooks::DelayPlan { points, seed: 1 });
    }
    if mode == "build" {
        for b in hist["blocks"].as_array().unwrap() {
            let block = packed::Block::from_compatible_slice(&hex_to_bytes(b.as_str().unwrap())).unwrap().into_view();
            let (tx, rx) = std::sync::mpsc::channel();
            node.chain().asynchronous_process_remote_block(RemoteBlock {
                block: Arc::new(block),
                verify_callback: Box::new(move |r| {
                    let _ = tx.send(r.is_ok());
                }),
            });
            let _ = rx.recv_timeout(Duration::from_secs(60));
        }
        result["answers"] = json!(node_answers(node.shared.store(), q));
        result["tip"] = json!(vbase::hex(node.tip_hash().as_slice()));
    } else if mode == "syncfreeze" {
        // durability-order monitor: markers are written by the thread that runs the pass
        let marker = vbase::durability::Marker::open(args.get_str("mark"));
        let stop_after = args.get_u64("stop_after", 0);
        // the pass must not outrun the thread that raises the stop flag (a fresh, busy sandbox
        // once saw no partial pass in three attempts): 1.5 ms per block at hook H4d
        if std::env::var("VERIF_SLOW_FREEZE_MS").is_err() {
            vnode::hooks::install();
            let mut points = BTreeMap::new();
            points.insert("shared::freeze_before_fetch_block", (2000u64, 1_500u64));
            vnode::hooks::set_plan(vnode::hooks::DelayPlan { points, seed: 1 });
        }
        let fz = node.shared.store().freezer().expect("freezer enabled");
        let mut passes = vec![];
        for pass in 1..=2u64 {
            let before = fz.number();
            let done = AtomicBool::new(false);
            let mut err = None;
            std::thread::scope(|s| {
                if pass == 1 && stop_after > 0 {
                    // "shutdown" as soon as `stop_after` blocks of this pass are in the freezer
                    let done = &done;
                    s.spawn(move || {
                        while !done.load(Ordering::SeqCst) {
                            if fz.number() >= before + stop_after {
                                fz.stopped.store(true, Ordering::SeqCst);
                                break;
                            }
                            std::hint::spin_loop();
                        }
                    });
                }
                marker.mark(&format!("freeze-begin pass={pass} number={before}"));
                err = node.shared.verif_freeze_once().err().map(|e| e.to_string());
                let stopped = fz.stopped.load(Ordering::SeqCst);
                marker.mark(&format!("freeze-end pass={pass} ok={} before={before} number={} stopped={}", err.is_none() as u8, fz.number(), stopped as u8));
                done.store(true, Ordering::SeqCst);
            });
            passes.push(json!({"before": before, "after": fz.number(), "stopped": fz.stopped.load(Ordering::SeqCst), "error": err}));
            fz.stopped.store(false, Ordering::SeqCst);
            if pass == 1 {
                // readers between an interrupted pass and the pass that appends the rest
                // (retrieves from the freezer's head file before more items are appended to it)
                result["frozen_between_passes"] = json!(fnum(&node));
                result["answers_between_passes"] = json!(node_answers(node.shared.store(), q));
            }
        }
        result["passes"] = json!(passes);
        result["frozen_after_freeze"] = json!(fnum(&node));
        result["answers_after_freeze"] = json!(node_answers(node.shared.store(), q));
        marker.mark("child-end");
    } else if mode == "enospc" {
        // I/O fault episode: `ancient/` is a size-limited tmpfs (mounted by the parent); the first
        // pass runs out of space somewhere inside the freezer's appends, then the file system is
        // enlarged (remount) and the next pass has to finish the job
        let mnt = args.get_str("mnt").expect("mnt=").to_string();
        result["answers_after_open"] = json!(node_answers(node.shared.store(), q));
        result["frozen_after_open"] = json!(fnum(&node));
        let e1 = node.shared.verif_freeze_once().err().map(|e| e.to_string());
        result["pass1_error"] = json!(e1);
        result["frozen_after_pass1"] = json!(fnum(&node));
        result["answers_after_pass1"] = json!(node_answers(node.shared.store(), q));
        result["answers_after_pass1_via_snapshot"] = json!(node_answers(&node.shared.store().get_snapshot(), q));
        let st = Command::new("mount").args(["-o", "remount,size=64m", &mnt]).status();
        result["remount_ok"] = json!(st.map(|s| s.success()).unwrap_or(false));
        let e2 = node.shared.verif_freeze_once().err().map(|e| e.to_string());
        result["pass2_error"] = json!(e2);
        result["frozen_after_pass2"] = json!(fnum(&node));
        result["answers_after_pass2"] = json!(node_answers(node.shared.store(), q));
    } else {
        // the view block verification and the script data loader use: a store transaction (first,
        // with cold caches), then the store itself
        result["answers_via_transaction_after_open"] = json!(node_answers(&node.shared.store().begin_transaction(), q));
        result["answers_after_open"] = json!(node_answers(node.shared.store(), q));
        result["frozen_after_open"] = json!(fnum(&node));
        if freezer {
            // readers evaluate the same queries while freezing
            let stop = AtomicBool::new(false);
            let reader_out: std::sync::Mutex<Vec<Answers>> = std::sync::Mutex::new(vec![]);
            let mut freeze_err = None;
            let mut pass_ms = 0u64;
            std::thread::scope(|s| {
                for _ in 0..2 {
                    let node = &node;
                    let stop = &stop;
                    let reader_out = &reader_out;
                    s.spawn(move || {
                        let mut n = 0;
                        while !stop.load(Ordering::SeqCst) && n < 40 {
                            let a = node_answers(node.shared.store(), q);
                            reader_out.lock().unwrap().push(a);
                            n += 1;
                        }
                    });
                }
                std::thread::sleep(Duration::from_millis(2));
                let t0 = Instant::now();
                if let Err(e) = node.shared.verif_freeze_once() {
                    freeze_err = Some(e.to_string());
                }
                pass_ms = t0.elapsed().as_millis() as u64;
                stop.store(true, Ordering::SeqCst);
            });
            result["freeze_pass_ms"] = json!(pass_ms);
            result["freeze_error"] = json!(freeze_err);
            result["frozen_after_freeze"] = json!(fnum(&node));
            result["answers_after_freeze"] = json!(node_answers(node.shared.store(), q));
            // all distinct answer vectors the readers saw
            let mut seen: Vec<Answers> = vec![];
            for a in reader_out.into_inner().unwrap() {
                if !seen.contains(&a) {
                    seen.push(a);
                }
            }
            result["reader_answers"] = json!(seen);
            // a second pass must not move anything further (same tip)
            let e2 = node.shared.verif_freeze_once().err().map(|e| e.to_string());
            result["freeze2_error"] = json!(e2);
            result["frozen_after_freeze2"] = json!(fnum(&node));
            result["answers_after_freeze2"] = json!(node_answers(&node.shared.store().get_snapshot(), q));
        }
    }
    result["commits"] = json!(ckb_db::verif::commit_count());
    std::fs::write(&out, serde_json::to_string(&result).unwrap()).unwrap();
    drop(node);
    0
}

// ---------------------------------------------------------------------------------------
// parent

fn run_child(mode: &str, db: &Path, history: &Path, out: &Path, freezer: bool, crash_at: Option<(u64, bool)>) -> (Option<Value>, String) {
    run_child_ex(mode, db, history, out, freezer, crash_at, &[])
}

fn run_child_ex(mode: &str, db: &Path, history: &Path, out: &Path, freezer: bool, crash_at: Option<(u64, bool)>, extra: &[String]) -> (Option<Value>, String) {
    let _ = std::fs::remove_file(out);
    let exe = std::env::current_exe().unwrap();
    let mut cmd = Command::new(exe);
    cmd.args(["freeze-child"]).args(extra.iter().filter(|x| !x.starts_with("env:")));
    cmd.arg(format!("mode={mode}"))
        .arg(format!("db={}", db.display()))
        .arg(format!("history={}", history.display()))
        .arg(format!("out={}", out.display()))
        .arg(format!("freezer={}", if freezer { 1 } else { 0 }))
        .env_remove("VERIF_CRASH_AT")
        .env_remove("VERIF_OUT_DIR")
        .env("VERIF_SCRATCH_BASE", db.parent().unwrap())
        .stdout(std::process::Stdio::null())
        .stderr(std::process::Stdio::piped());
    for kv in extra.iter().filter(|x| x.starts_with("env:")) {
        if let Some((k, v)) = kv[4..].split_once('=') {
            cmd.env(k, v);
        }
    }
    if let Some((k, before)) = crash_at {
        cmd.env("VERIF_CRASH_AT", format!("{}:{}", k, if before { "before" } else { "after" }));
    }
    let o = cmd.output().expect("spawn child");
    let stderr = String::from_utf8_lossy(&o.stderr);
    let mut tail: String = stderr.lines().skip_while(|l| !l.contains("panicked")).take(3).collect::<Vec<_>>().join(" | ");
    if tail.is_empty() {
        tail = stderr.chars().rev().take(600).collect::<String>().chars().rev().collect();
    }
    (std::fs::read_to_string(out).ok().and_then(|s| serde_json::from_str(&s).ok()), tail)
}

/// Durability-order monitor (syscall level). Runs `freeze-child mode=syncfreeze` under strace
/// on a copy of the pristine database and judges the recorded log:
/// from the moment a freeze pass has written to the RocksDB WAL (`wipe_out_frozen_data` put the
/// deletions of the frozen blocks there) no file of the database may be fsynced while a freezer
/// file (`ancient/INDEX`, `ancient/blk*`) holds data that has not been fsynced - the deletion
/// would be durable while the only other copy of the blocks is in the page cache.
/// Returns the answers of the child after the interrupted + completed passes.
#[allow(clippy::too_many_arguments)]
fn sync_monitor(r: &mut Report, scratch: &vbase::Scratch, pristine: &Path, history: &Path, hi: u64, target: u64, stop_after: u64, wit0: &Value) -> Option<Value> {
    use vbase::durability::{self as du, Obs};
    let sdb = scratch.join(&format!("h{hi}-sync"));
    copy_dir(pristine, &sdb);
    let pre = du::list_files(&sdb);
    let out = scratch.join(&format!("h{hi}-sync-out.json"));
    let log = scratch.join(&format!("h{hi}-sync.strace"));
    let mark = scratch.join(&format!("h{hi}-sync.MARK"));
    for f in [&out, &log, &mark] {
        let _ = std::fs::remove_file(f);
    }
    let exe = std::env::current_exe().unwrap();
    let o = du::strace_command(&log)
        .arg(exe)
        .arg("freeze-child")
        .arg("mode=syncfreeze")
        .arg(format!("db={}", sdb.display()))
        .arg(format!("history={}", history.display()))
        .arg(format!("out={}", out.display()))
        .arg(format!("mark={}", mark.display()))
        .arg(format!("stop_after={stop_after}"))
        .arg("freezer=1")
        .env_remove("VERIF_CRASH_AT")
        .env_remove("VERIF_OUT_DIR")
        .env("VERIF_SCRATCH_BASE", sdb.parent().unwrap())
        .stdout(std::process::Stdio::null())
        .stderr(std::process::Stdio::piped())
        .output();
    r.count("sync.strace_runs");
    let res: Option<Value> = std::fs::read_to_string(&out).ok().and_then(|s| serde_json::from_str(&s).ok());
    let text = std::fs::read_to_string(&log).unwrap_or_default();
    for f in [&out, &log, &mark] {
        let _ = std::fs::remove_file(f);
    }
    let _ = std::fs::remove_dir_all(&sdb);
    match &o {
        Err(e) => {
            r.inconclusive(&format!("sync monitor: strace could not be started: {e}"));
            return None;
        }
        Ok(o) if !o.status.success() || res.is_none() => {
            let stderr = String::from_utf8_lossy(&o.stderr).to_string();
            // a panic raised inside the node's own code while it answers queries about frozen
            // blocks is a verdict, not a harness failure
            if let Some(line) = stderr.lines().find(|l| l.contains("panicked at") && (l.contains("/store/src/") || l.contains("/freezer/src/") || l.contains("/shared/src/"))) {
                let msg: String = stderr.lines().skip_while(|l| !l.contains("panicked at")).take(2).collect::<Vec<_>>().join(" ");
                let loc = line.split("panicked at ").nth(1).unwrap_or("").split(':').next().unwrap_or("").rsplit('/').next().unwrap_or("").to_string();
                r.violation(
                    &format!("node_panicked_while_answering@interrupted_pass_then_reads_then_completing_pass:{loc}"),
                    format!("the node panicked in a child that froze part of the chain (pass cut short after {stop_after} blocks), answered the query vector, and froze the rest: {}", msg.chars().take(400).collect::<String>()),
                    wit0.clone(),
                );
                return None;
            }
            let tail: String = stderr.lines().rev().take(4).collect::<Vec<_>>().join(" | ");
            r.inconclusive(&format!("sync monitor: traced freeze child failed ({}): {tail}", o.status));
            return None;
        }
        _ => {}
    }
    let t = du::parse(&text);
    r.count_n("sync.log_lines", t.lines);
    r.count_n("sync.syscalls_parsed", t.calls.len() as u64);
    if t.unparsed > 0 || t.calls.is_empty() {
        r.inconclusive(&format!("sync monitor: {} line(s) of the strace log could not be parsed ({} calls), e.g. {:?}", t.unparsed, t.calls.len(), t.unparsed_samples));
        return res;
    }
    let cl = |p: &str| du::classify_node_path(p);
    let mut m = du::Model::new(&cl, &pre);
    // window = from `freeze-begin` of a pass to the next `freeze-begin` (or the end of the log)
    struct Win {
        kind: String,
        wal_written: bool,
        touched: std::collections::BTreeSet<&'static str>,
        pending: Option<(String, Value)>,
    }
    let mut win: Option<Win> = None;
    let mut child_end = false;
    let close = |w: Option<Win>, r: &mut Report| {
        let Some(w) = w else { return };
        for c in &w.touched {
            r.distinct_str(&format!("sync|{hi}|{}|{c}", w.kind));
        }
        if let Some((detail, wit)) = w.pending {
            r.violation(&format!("durability.kv_sync_while_freezer_dirty@{}", w.kind), detail, wit);
        }
    };
    for (ph, i) in &t.timeline {
        let call = &t.calls[*i];
        let Some(obs) = m.step(*ph, call) else { continue };
        match obs {
            Obs::Mark(text) => {
                let kvn = |k: &str| text.split_whitespace().find_map(|w| w.strip_prefix(k).and_then(|x| x.strip_prefix('='))).and_then(|v| v.parse::<u64>().ok());
                if text.starts_with("freeze-begin") {
                    close(win.take(), r);
                    win = Some(Win { kind: "unfinished_pass".into(), wal_written: false, touched: Default::default(), pending: None });
                    r.count("sync.marker_events");
                } else if text.starts_with("freeze-end") {
                    r.count("sync.marker_events");
                    let (before, after) = (kvn("before").unwrap_or(0), kvn("number").unwrap_or(0));
                    let kind = if kvn("ok") != Some(1) {
                        r.inconclusive(&format!("sync monitor: verif_freeze_once returned Err in the traced child ({text})"));
                        "failed_pass"
                    } else if after == before {
                        "idle_pass"
                    } else if kvn("stopped") == Some(1) && after < target {
                        r.count("sync.partial_passes_observed");
                        "partial_pass"
                    } else {
                        "full_pass"
                    };
                    r.count(&format!("sync.passes.{kind}"));
                    r.count_n(&format!("sync.blocks_moved.{kind}"), after - before);
                    if let Some(w) = win.as_mut() {
                        w.kind = kind.to_string();
                        // the freezer files must be clean here as well if blocks were moved: counted, judged by C09
                        if m.dirty().iter().any(|d| du::is_freezer_class(d.class)) {
                            r.count("sync.freezer_dirty_at_freeze_end");
                        }
                    }
                } else if text.starts_with("child-end") {
                    child_end = true;
                }
            }
            Obs::Modified { class, kind, .. } => {
                if let Some(w) = win.as_mut() {
                    w.touched.insert(class);
                    if class == "kv_wal" && kind == "write" {
                        w.wal_written = true;
                    }
                }
            }
            Obs::SyncStart { path, class } if du::is_kv_class(class) => {
                let Some(w) = win.as_mut() else {
                    r.count("sync.kv_syncs_outside_freeze_window(no_demand)");
                    continue;
                };
                if !w.wal_written {
                    // nothing of this pass is in the key-value store yet
                    r.count("sync.kv_syncs_before_the_pass_wrote_to_the_wal(no_demand)");
                    continue;
                }
                r.eval();
                r.count("sync.kv_syncs_checked");
                r.count(&format!("sync.kv_syncs_checked.{class}"));
                let dirty: Vec<du::DirtyFile> = m.dirty().into_iter().filter(|d| du::is_freezer_class(d.class)).collect();
                if !dirty.is_empty() && w.pending.is_none() {
                    let list = dirty.iter().map(|d| d.describe()).collect::<Vec<_>>();
                    w.pending = Some((
                        format!(
                            "{} ({class}) is fsynced after the freeze pass wrote to the WAL (the frozen blocks are deleted from the key-value store durably) while the freezer still holds unsynced data: {}",
                            path,
                            list.join("; ")
                        ),
                        json!({"history": wit0, "stop_after": stop_after, "kv_file_synced": path, "dirty_freezer_files": list, "last_relevant_syscalls": m.excerpt(),
                               "replay": "vmon freeze --seed S --tier T (sync monitor of this history)"}),
                    ));
                }
            }
            _ => {}
        }
    }
    close(win.take(), r);
    for (k, v) in &m.counters {
        r.count_n(&format!("sync.{k}"), *v);
    }
    if !child_end {
        r.inconclusive("sync monitor: the child's end marker is not in the strace log");
    }
    res
}

/// (bytes, 4 KiB pages) of the regular files in a directory (a tmpfs accounts whole pages per file)
fn dir_bytes(p: &Path) -> (u64, u64) {
    let (mut n, mut pages) = (0, 0);
    if let Ok(rd) = std::fs::read_dir(p) {
        for e in rd.flatten() {
            if let Ok(m) = e.metadata() {
                if m.is_file() {
                    n += m.len();
                    pages += m.len().div_ceil(4096);
                }
            }
        }
    }
    (n, pages)
}

fn umount(p: &Path) {
    let _ = Command::new("umount").arg(p).stdout(std::process::Stdio::null()).stderr(std::process::Stdio::null()).status();
}

/// I/O fault episode (ENOSPC inside a freeze pass). `ancient/` of a copy of the pristine database
/// becomes a tmpfs whose size lets only a part of the pass through (sizes measured on the regular
/// freeze run: `a0` bytes before, `a1` after); the child runs the failing pass, enlarges the file
/// system, runs the next pass; a third process restarts on the result. Returns false when the
/// sandbox does not allow mounting (episode skipped).
#[allow(clippy::too_many_arguments)]
fn enospc_episode(r: &mut Report, rng: &mut Rng, scratch: &vbase::Scratch, pristine: &Path, history: &Path, out: &Path, hi: u64, a0: (u64, u64), a1: (u64, u64), frozen: u64, exp: &Answers, rc: &RefChain, side: &[H], wit0: &Value) -> bool {
    let edb = scratch.join(&format!("h{hi}-enospc"));
    copy_dir(pristine, &edb);
    let anc = edb.join("ancient");
    let keep = scratch.join(&format!("h{hi}-enospc-ancient"));
    let _ = std::fs::remove_dir_all(&keep);
    if anc.exists() {
        copy_dir(&anc, &keep);
        let _ = std::fs::remove_dir_all(&anc);
    }
    std::fs::create_dir_all(&anc).unwrap();
    // pages the pass may fill beyond what is there: somewhere strictly inside the pass
    let page = 4096u64;
    let grow_pages = a1.1.saturating_sub(a0.1);
    if grow_pages < 2 {
        r.count("enospc.pass_too_small_for_a_page_boundary");
        let _ = std::fs::remove_dir_all(&edb);
        let _ = std::fs::remove_dir_all(&keep);
        return false;
    }
    let allow = rng.below(grow_pages - 1);
    let size = (a0.1 + allow) * page;
    let st = Command::new("mount").args(["-t", "tmpfs", "-o", &format!("size={size}"), "tmpfs"]).arg(&anc).stderr(std::process::Stdio::null()).status();
    if !st.map(|s| s.success()).unwrap_or(false) {
        r.count("enospc.mount_not_permitted");
        let _ = std::fs::remove_dir_all(&edb);
        let _ = std::fs::remove_dir_all(&keep);
        return false;
    }
    if keep.exists() {
        copy_dir(&keep, &anc);
    }
    let wit = json!({"history": wit0, "ancient_bytes_and_pages_before": [a0.0, a0.1], "ancient_bytes_and_pages_after_a_full_pass": [a1.0, a1.1], "tmpfs_size": size});
    let (c, err) = run_child_ex("enospc", &edb, history, out, true, None, &[format!("mnt={}", anc.display())]);
    r.count("enospc.episodes");
    match c {
        None => {
            // a panic / abort of the node inside or after the failing pass
            r.violation("node_died_when_the_freezer_ran_out_of_space", err, wit.clone());
        }
        Some(c) => {
            let f1 = c["frozen_after_pass1"].as_u64().unwrap_or(0);
            let f2 = c["frozen_after_pass2"].as_u64().unwrap_or(0);
            if c["pass1_error"].is_null() {
                r.count("enospc.first_pass_fitted");
            } else {
                r.count("enospc.first_pass_failed_with_an_error");
                if f1 > c["frozen_after_open"].as_u64().unwrap_or(0) {
                    r.count("enospc.first_pass_failed_after_some_appends");
                }
            }
            judge(&to_answers(&c["answers_after_pass1"]), exp, rc, side, f1, "after_a_pass_that_ran_out_of_space", &wit, r);
            judge(&to_answers(&c["answers_after_pass1_via_snapshot"]), exp, rc, side, f1, "after_a_pass_that_ran_out_of_space_via_snapshot", &wit, r);
            if c["remount_ok"].as_bool() != Some(true) {
                r.inconclusive("harness: could not enlarge the tmpfs of an ENOSPC episode");
            } else {
                if let Some(e) = c["pass2_error"].as_str() {
                    r.violation("pass_after_out_of_space_failed", format!("space is available again but the next pass returned: {e}"), wit.clone());
                }
                judge(&to_answers(&c["answers_after_pass2"]), exp, rc, side, f2, "after_out_of_space_and_next_pass", &wit, r);
                if f2 != frozen {
                    r.violation("next_pass_after_out_of_space_does_not_reach_same_end", format!("{f2} vs {frozen} (after the failing pass: {f1})"), wit.clone());
                }
                // restart on the result
                let (s, err) = run_child("restart", &edb, history, out, true, None);
                match s {
                    None => r.violation("reopen_after_out_of_space_failed", err, wit.clone()),
                    Some(s) => {
                        judge(&to_answers(&s["answers_after_open"]), exp, rc, side, s["frozen_after_open"].as_u64().unwrap_or(0), "after_out_of_space_next_pass_and_restart", &wit, r);
                        if s["frozen_after_open"].as_u64() != Some(f2) {
                            r.violation("frozen_count_changed_by_restart", format!("{} -> {:?} (after an out-of-space episode)", f2, s["frozen_after_open"]), wit.clone());
                        }
                    }
                }
            }
            r.distinct(vbase::fnv1a(format!("{hi}-enospc-{allow}-{f1}").as_bytes()));
        }
    }
    umount(&anc);
    let _ = std::fs::remove_dir_all(&edb);
    let _ = std::fs::remove_dir_all(&keep);
    true
}

fn copy_dir(src: &Path, dst: &Path) {
    let _ = std::fs::remove_dir_all(dst);
    std::fs::create_dir_all(dst).unwrap();
    for e in std::fs::read_dir(src).unwrap().flatten() {
        let p = e.path();
        let to = dst.join(e.file_name());
        if p.is_dir() {
            copy_dir(&p, &to);
        } else {
            let _ = std::fs::copy(&p, &to);
        }
    }
}

fn to_answers(v: &Value) -> Answers {
    v.as_object().map(|m| m.iter().map(|(k, v)| (k.clone(), v.as_str().unwrap_or("").to_string())).collect()).unwrap_or_default()
}

/// Compare one answer vector with the expectation. `frozen`: freezer.number() at that time.
#[allow(clippy::too_many_arguments)]
fn judge(got: &Answers, exp: &Answers, rc: &RefChain, side: &[H], frozen: u64, ctx: &str, wit: &Value, r: &mut Report) {
    r.eval();
    r.count(&format!("answer_vectors.{ctx}"));
    let number_of = |key: &str| -> Option<u64> {
        let part = key.split('|').nth(1)?;
        if part.len() == 64 {
            let mut x = [0u8; 32];
            x.copy_from_slice(&hex_to_bytes(part));
            if rc.contains(&x) {
                return Some(rc.get(&x).number);
            }
        }
        None
    };
    for (k, want) in exp {
        let have = got.get(k).map(|s| s.as_str()).unwrap_or("<query missing>");
        r.count("answers_compared");
        if have != want {
            let kind = k.split('|').next().unwrap_or("?");
            let class = match number_of(k) {
                Some(n) if n > 0 && n < frozen => "frozen_block",
                Some(_) => "unfrozen_block",
                None => "other",
            };
            // for frozen blocks the stage is not part of the signature (it is in the detail)
            let sig = if class == "frozen_block" { format!("answer_differs.{kind}@{class}") } else { format!("answer_differs.{kind}@{class}.{ctx}") };
            r.violation(
                &sig,
                format!("[{ctx}] query {k}: node answered {have}, the chain says {want} (freezer number {frozen})"),
                wit.clone(),
            );
        }
    }
    // side-chain blocks at unfrozen heights must still be there
    for x in side {
        let rec = rc.get(x);
        if !rec.self_valid {
            continue;
        }
        let key = format!("block|{}", vbase::hex(x));
        let have = got.get(&key).map(|s| s.as_str()).unwrap_or("none");
        if rec.number >= frozen.max(1) && have != hh(rec.block.data().as_slice()) {
            r.violation(
                &format!("side_block_at_unfrozen_height_lost.{ctx}"),
                format!("side-chain block {} (#{}) answered {have} although only heights < {frozen} are frozen", hx(x), rec.number),
                wit.clone(),
            );
        } else if rec.number < frozen && have == "none" {
            r.count("side_blocks_wiped_at_frozen_heights");
        }
    }
}

pub fn run(args: &Args) -> i32 {
    let mut r = Report::new(
        "C10",
        "fault_enumeration",
        args,
        "chains of several tiny epochs with forks at heights that become frozen; the regular pass is stretched to several hundred ms (seeded delay per block at hook H4d, freezer lock held) while reader threads queue behind it; answer vectors (block, packed block, header, body, tx hashes, cellbase, uncles, proposals, extension (also via the script data loader), transactions with location, ancestors, live cells) evaluated before freezing, concurrently with freezing, after freezing (warm caches), after restart (cold caches), after a second pass, after a crash at every durable write of the freeze / wipe-out sequence, after a pass cut short by the stop flag plus the completing pass, after a pass that ran out of disk space inside the freezer's appends (ancient/ on a size-limited tmpfs) plus the next pass once space is back plus a restart, and without freezer, each compared with the answers derived from the RefChain model; syscall level (freeze child under strace, page-cache model per file): once a pass (complete or cut short by the stop flag from another thread) has written to the RocksDB WAL, no file under db/ is fsynced while ancient/INDEX or ancient/blk* holds unsynced writes; distinct = (history, stage, crash point) answer vectors judged",
    );
    let mut rng = Rng::new(args.seed ^ 0xF10);
    let scratch = vbase::Scratch::new("freeze");
    let n_hist = args.get_u64("histories", args.tier.pick(2, 12));
    let deadline = Instant::now() + Duration::from_secs(args.get_u64("budget_s", args.tier.pick(120, 1200)));
    let sync_ok = match vbase::durability::strace_usable() {
        Ok(()) => true,
        Err(e) => {
            r.inconclusive(&format!("sync monitor: {e}"));
            false
        }
    };
    for hi in 0..n_hist {
        if Instant::now() > deadline {
            r.note("stopped_by_budget_after_histories", json!(hi));
            break;
        }
        let variant = rng.below(3);
        let params = params_for(variant);
        let now = params.genesis_timestamp + 3_000_000_000;
        vnode::node::set_time(now);
        let gi = consensus::build(&params);
        let cfg = TreeCfg {
            n_blocks: args.tier.pick(30, 45) + rng.usize_below(20),
            fork_pm: 180,
            max_fork_depth: 3,
            invalid: 0,
            ts_step_max: 5_000,
            ..Default::default()
        };
        let mut tg = TreeGen::new(&gi, cfg, rng.next_u64());
        tg.generate();
        // make the builder's tip the unique heaviest chain
        for _ in 0..200 {
            let received: HashSet<H> = tg.order.iter().cloned().collect();
            let (_, best) = tg.rc.best(&received);
            let t = tg.tip();
            if best.len() == 1 && best[0] == t {
                break;
            }
            tg.extend(&t);
        }
        let rc = &tg.rc;
        let tip = tg.tip();
        let tip_rec = rc.get(&tip);
        // virtual time close to the tip so that the node is not in IBD
        let now = tip_rec.block.timestamp() + 10_000;
        let (q, exp) = expected_answers(rc, &tg.order, &tip);
        let st = rc.replay(&tip);
        let main: HashSet<H> = st.chain.iter().cloned().collect();
        let side: Vec<H> = tg.order.iter().filter(|x| !main.contains(*x)).cloned().collect();
        // model threshold: last block of epoch (current - 2)
        let cur_epoch = tip_rec.block.epoch().number();
        let threshold = if cur_epoch > 2 {
            st.chain.iter().map(|x| rc.get(x)).find(|b| b.block.epoch().number() == cur_epoch - 1).map(|b| b.number - 1).unwrap_or(0)
        } else {
            0
        };
        let file = scratch.join(&format!("h{hi}.json"));
        let blocks: Vec<String> = tg.order.iter().map(|x| vbase::hex(rc.get(x).block.data().as_slice())).collect();
        std::fs::write(&file, serde_json::to_string(&json!({"variant": variant, "now": now, "blocks": blocks, "queries": q})).unwrap()).unwrap();
        r.count("histories");
        r.count_n("main_chain_blocks", st.chain.len() as u64);
        r.count_n("side_blocks", side.len() as u64);
        let wit0 = json!({"history": hi, "variant": variant, "main_chain_len": st.chain.len(), "side_blocks": side.len(), "current_epoch": cur_epoch, "model_threshold": threshold});
        // ---- build
        let db = scratch.join(&format!("h{hi}-db"));
        let out = scratch.join(&format!("h{hi}-out.json"));
        let (b, err) = run_child("build", &db, &file, &out, true, None);
        let Some(b) = b else {
            r.inconclusive(&format!("harness: build child failed: {err}"));
            continue;
        };
        if b["tip"].as_str() != Some(&vbase::hex(&tip)) {
            r.inconclusive("harness: build child ended on a different tip than the builder");
            continue;
        }
        judge(&to_answers(&b["answers"]), &exp, rc, &side, 0, "before_freeze", &wit0, &mut r);
        r.distinct(vbase::fnv1a(format!("{hi}-build").as_bytes()));
        // keep a pristine copy for crash variants
        let pristine = scratch.join(&format!("h{hi}-pristine"));
        copy_dir(&db, &pristine);
        // ---- freeze
        let ancient_before = dir_bytes(&db.join("ancient"));
        // the regular pass is a slow one (about 12 ms per block with the lock held)
        let (f, err) = run_child_ex("freeze", &db, &file, &out, true, None, &["env:VERIF_SLOW_FREEZE_MS=20".to_string()]);
        let ancient_after = dir_bytes(&db.join("ancient"));
        let Some(f) = f else {
            r.violation("freeze_pass_failed", format!("freeze child did not complete: {err}"), wit0.clone());
            continue;
        };
        let writes_in_freeze = f["commits"].as_u64().unwrap_or(0);
        if let Some(e) = f["freeze_error"].as_str() {
            r.violation("freeze_returned_error", e.to_string(), wit0.clone());
        }
        let frozen = f["frozen_after_freeze"].as_u64().unwrap_or(0);
        r.count_n("blocks_frozen", frozen.saturating_sub(1));
        r.count_n("regular_pass_ms_total", f["freeze_pass_ms"].as_u64().unwrap_or(0));
        if f["freeze_pass_ms"].as_u64().unwrap_or(0) >= 250 {
            r.count("regular_passes_longer_than_250_ms_with_readers_queueing");
        }
        judge(&to_answers(&f["answers_after_open"]), &exp, rc, &side, f["frozen_after_open"].as_u64().unwrap_or(0), "after_restart_before_freeze", &wit0, &mut r);
        judge(&to_answers(&f["answers_after_freeze"]), &exp, rc, &side, frozen, "after_freeze_warm_caches", &wit0, &mut r);
        judge(&to_answers(&f["answers_after_freeze2"]), &exp, rc, &side, f["frozen_after_freeze2"].as_u64().unwrap_or(0), "after_second_pass", &wit0, &mut r);
        for ra in f["reader_answers"].as_array().cloned().unwrap_or_default() {
            // readers run concurrently with freezing: main-chain answers must never differ
            judge(&to_answers(&ra), &exp, rc, &[], u64::MAX, "concurrent_reader", &wit0, &mut r);
            r.count("reader_vectors");
        }
        r.distinct(vbase::fnv1a(format!("{hi}-freeze-{frozen}").as_bytes()));
        // frozen range
        r.eval();
        if threshold > 0 {
            if frozen > threshold.max(1) {
                r.violation("frozen_beyond_two_epoch_threshold", format!("freezer number {frozen} but only blocks below #{threshold} are older than two epochs (current epoch {cur_epoch})"), wit0.clone());
            }
            if frozen < threshold {
                r.violation("freeze_pass_incomplete", format!("freezer number {frozen} after a pass, model threshold {threshold}"), wit0.clone());
            }
            r.count("histories_with_frozen_blocks");
        }
        if f["frozen_after_freeze2"].as_u64() != Some(frozen) {
            r.violation("second_pass_moved_blocks", format!("{} -> {:?}", frozen, f["frozen_after_freeze2"]), wit0.clone());
        }
        // ---- restart
        let (s, err) = run_child("restart", &db, &file, &out, true, None);
        match s {
            None => r.violation("reopen_after_freeze_failed", err, wit0.clone()),
            Some(s) => {
                if !s["answers_via_transaction_after_open"].is_null() {
                    judge(&to_answers(&s["answers_via_transaction_after_open"]), &exp, rc, &side, s["frozen_after_open"].as_u64().unwrap_or(0), "after_restart_cold_caches_via_store_transaction", &wit0, &mut r);
                    r.count("vectors_via_store_transaction");
                }
                judge(&to_answers(&s["answers_after_open"]), &exp, rc, &side, s["frozen_after_open"].as_u64().unwrap_or(0), "after_restart_cold_caches", &wit0, &mut r);
                r.distinct(vbase::fnv1a(format!("{hi}-restart").as_bytes()));
                if s["frozen_after_open"].as_u64() != Some(frozen) {
                    r.violation("frozen_count_changed_by_restart", format!("{} -> {:?}", frozen, s["frozen_after_open"]), wit0.clone());
                }
            }
        }
        // ---- I/O fault: the freezer's file system runs full inside a pass
        if threshold > 0 && frozen > 2 && ancient_after.0 > ancient_before.0 {
            for _ in 0..args.tier.pick(2, 4) {
                if !enospc_episode(&mut r, &mut rng.fork(0xE05 + hi), &scratch, &pristine, &file, &out, hi, ancient_before, ancient_after, frozen, &exp, rc, &side, &wit0) {
                    break;
                }
            }
        }
        // ---- durability-order monitor (syscall level): interrupted pass + completing pass under strace
        if sync_ok && threshold > 0 && frozen > 2 && hi < args.get_u64("sync_histories", u64::MAX) {
            let moved = frozen - 1;
            // own stream: the histories must not depend on how many attempts were needed
            let mut srng = Rng::new(args.seed ^ 0x5C00 ^ (hi << 32));
            let mut got_partial = false;
            for attempt in 0..args.tier.pick(3u64, 4) {
                let k = 1 + srng.below((moved - 1).min(4 + attempt));
                let k = k.min(moved.saturating_sub(2).max(1));
                let before = r.counter("sync.partial_passes_observed");
                let res = sync_monitor(&mut r, &scratch, &pristine, &file, hi, frozen, k, &wit0);
                if let Some(res) = res {
                    let fa = res["frozen_after_freeze"].as_u64().unwrap_or(0);
                    if !res["answers_between_passes"].is_null() {
                        judge(&to_answers(&res["answers_between_passes"]), &exp, rc, &side, res["frozen_between_passes"].as_u64().unwrap_or(0), "between_interrupted_and_completing_pass", &wit0, &mut r);
                        r.count("vectors_between_passes");
                    }
                    judge(&to_answers(&res["answers_after_freeze"]), &exp, rc, &side, fa, "after_interrupted_and_completed_pass", &wit0, &mut r);
                    if fa != frozen {
                        r.violation("interrupted_pass_then_next_pass_does_not_reach_same_end", format!("{fa} vs {frozen}; passes {}", res["passes"]), wit0.clone());
                    }
                    r.distinct(vbase::fnv1a(format!("{hi}-sync-{k}").as_bytes()));
                }
                if r.counter("sync.partial_passes_observed") > before {
                    got_partial = true;
                    if attempt + 1 >= args.tier.pick(1, 2) {
                        break;
                    }
                }
            }
            r.count(if got_partial { "sync.histories_with_partial_pass" } else { "sync.histories_without_partial_pass" });
        }
        // ---- crash points inside freeze / wipe-out
        for k in 1..=writes_in_freeze.max(1) {
            for before in [true, false] {
                let cdb = scratch.join(&format!("h{hi}-crash"));
                copy_dir(&pristine, &cdb);
                let (c, _) = run_child("freeze", &cdb, &file, &out, true, Some((k, before)));
                let crashed = c.is_none();
                let (s, err) = run_child("restart", &cdb, &file, &out, true, None);
                let wit = json!({"history": wit0, "crash_at_write": k, "side": if before {"before"} else {"after"}, "crashed": crashed});
                r.count(if crashed { "crashes_injected" } else { "crash_points_not_reached" });
                match s {
                    None => r.violation("reopen_after_crash_in_freeze_failed", err, wit.clone()),
                    Some(s) => {
                        let ctx = "after_crash_in_freeze";
                        judge(&to_answers(&s["answers_after_open"]), &exp, rc, &side, s["frozen_after_open"].as_u64().unwrap_or(0), ctx, &wit, &mut r);
                        judge(&to_answers(&s["answers_after_freeze"]), &exp, rc, &side, s["frozen_after_freeze"].as_u64().unwrap_or(0), "after_crash_and_next_pass", &wit, &mut r);
                        if threshold > 0 && s["frozen_after_freeze"].as_u64() != Some(frozen) {
                            r.violation("next_pass_after_crash_does_not_reach_same_end", format!("{:?} vs {}", s["frozen_after_freeze"], frozen), wit.clone());
                        }
                        r.distinct(vbase::fnv1a(format!("{hi}-crash-{k}-{before}").as_bytes()));
                    }
                }
                let _ = std::fs::remove_dir_all(&cdb);
            }
        }
        // ---- same history without freezer
        let ndb = scratch.join(&format!("h{hi}-nofreezer"));
        let (nb, err) = run_child("build", &ndb, &file, &out, false, None);
        match nb {
            None => r.inconclusive(&format!("harness: no-freezer child failed: {err}")),
            Some(nb) => judge(&to_answers(&nb["answers"]), &exp, rc, &side, 0, "freezer_disabled", &wit0, &mut r),
        }
        if r.samples.len() < 4 {
            r.sample(json!({"history": wit0, "frozen_blocks": frozen.saturating_sub(1), "durable_writes_in_freeze": writes_in_freeze, "queries": exp.len()}));
        }
        for d in [&db, &pristine, &ndb] {
            let _ = std::fs::remove_dir_all(d);
        }
    }
    r.require("histories", 1);
    r.require("histories_with_frozen_blocks", 1);
    r.require("crashes_injected", 2);
    r.require("reader_vectors", 1);
    r.require("regular_passes_longer_than_250_ms_with_readers_queueing", 1);
    if r.counter("enospc.mount_not_permitted") == 0 {
        r.require("enospc.first_pass_failed_with_an_error", 1);
    } else {
        r.assume("the sandbox did not permit mounting a tmpfs: the out-of-space episodes were skipped");
    }
    // durability-order monitor: a run that saw no interrupted pass / no synced key-value write says nothing
    r.require("sync.strace_runs", args.tier.pick(1, 6));
    r.require("sync.syscalls_parsed", args.tier.pick(200, 2000));
    r.require("sync.partial_passes_observed", args.tier.pick(1, 6));
    r.require("sync.passes.full_pass", args.tier.pick(1, 6));
    r.require("sync.kv_syncs_checked", 2);
    r.require("sync.kv_syncs_checked.kv_wal", 2);
    r.require("sync.writes.kv_wal", 2);
    r.require("sync.writes.freezer_data", 4);
    r.require("sync.writes.freezer_index", 4);
    r.require("sync.syncs.freezer_data", 2);
    r.require("sync.syncs.freezer_index", 2);
    for a in vbase::durability::assumptions() {
        r.assume(a);
    }
    r.assume("durability monitor (C10): once a freeze pass has written to the RocksDB WAL, any fsync/fdatasync of a file under db/ may make the deletion of the frozen blocks durable, so every freezer file must be clean at that moment; syncs before the pass wrote to the WAL are not judged");
    r.assume("expected answers are derived from the harness's copies of the generated blocks (RefChain), not from a pre-freeze reading");
    r.assume("a crash is process death immediately before/after a durable KV write of the wipe-out; byte-level cuts of the freezer files are the subject of C09");
    let code = r.finish(None);
    drop(scratch);
    code
}

#[allow(dead_code)]
fn unused(_: &H) -> H {
    h(&packed::Byte32::zero())
}
