//! Engine `tx`: C04 (a transaction is accepted iff inputs are live/unspent and all tx rules
//! hold, whatever the history) and C14 (caches never change a verdict or an answer).
//!
//! Context: a generated chain, a set of candidate transactions (valid bases and single-rule
//! violations whose thresholds are computed from the RefChain model for a fixed commit
//! position n), all proposed w_close blocks before n. Each candidate is judged
//!   (block path) alone in a block at position n through the chain service of a node,
//!   (pool path)  by `test_accept_tx` / `submit_local_tx` of the node's tx-pool at tip n-1,
//! on a node that reached the context directly and on a node that reached it through a
//! different delivery order (reorg detour) — verdict vectors must be identical and equal to the
//! expectation. C14: the same event sequence on a warm default-cache node and on a node with
//! store caches of size 0/1 whose verification cache is cleared before every event.

use ckb_app_config::{StoreConfig, TxPoolConfig};
use ckb_store::ChainStore;
use ckb_types::core::{BlockView, Capacity, DepType, EpochNumberWithFraction, FeeRate, ScriptHashType, TransactionView};
use ckb_types::packed::{self, CellDep, CellInput, CellOutput, OutPoint};
use ckb_types::{bytes::Bytes, prelude::*};
use serde_json::json;
use std::collections::{BTreeMap, HashSet};
use std::sync::Arc;
use std::time::{Duration, Instant};
use vbase::{Args, Report, Rng};
use vnode::builder::{self, BlockSpec};
use vnode::consensus::{self, ChainParams, DEV_PRIVKEY_1, EpochMode, GenesisInfo};
use vnode::hooks;
use vnode::model::{CellRec, H, State, h, hx};
use vnode::node::{Node, NodeCfg};
use vnode::treegen::{TreeCfg, TreeGen};

#[derive(Clone)]
struct Cand {
    name: &'static str,
    tx: TransactionView,
    /// expected verdict when committed alone at position n
    valid: bool,
    /// expected pool verdict at tip n-1 (None: pool policy / conservative env may differ)
    pool: Option<bool>,
    /// transactions placed before `tx` in the probe block (and submitted to the pool before
    /// `tx` is offered); `valid` then speaks about the block [cellbase, pre.., tx]
    pre: Vec<TransactionView>,
}

fn key_of(op: &OutPoint) -> (H, u32) {
    let i: u32 = op.index().into();
    (h(&op.tx_hash()), i)
}

fn out_point(k: &(H, u32)) -> OutPoint {
    OutPoint::new(packed::Byte32::from_slice(&k.0).unwrap(), k.1)
}

fn cap_of(c: &CellRec) -> u64 {
    CellOutput::from_slice(&c.output).unwrap().capacity().into()
}

fn since_abs_block(n: u64) -> u64 {
    n
}
fn since_rel_block(n: u64) -> u64 {
    (1u64 << 63) | n
}
fn since_abs_epoch(e: EpochNumberWithFraction) -> u64 {
    (0b01u64 << 61) | e.full_value()
}
fn since_rel_epoch(e: EpochNumberWithFraction) -> u64 {
    (1u64 << 63) | (0b01u64 << 61) | e.full_value()
}
fn since_abs_ts(secs: u64) -> u64 {
    (0b10u64 << 61) | secs
}
fn since_rel_ts(secs: u64) -> u64 {
    (1u64 << 63) | (0b10u64 << 61) | secs
}

struct Setup {
    gi: GenesisInfo,
    tg: TreeGen,
    params: ChainParams,
    /// hash of the block at position n-1 (tip for the candidates)
    tip: H,
    cands: Vec<Cand>,
    /// (fork point, tip of the four-block side branch) — see `setup`
    side: Option<(H, H)>,
    /// a plain valid transaction (own cell, proposed with the candidates) that the probe blocks of
    /// script candidates carry *behind* the candidate; on the warm node it has been verified
    /// (cached) through the pool before, the candidate has not
    tail: Option<TransactionView>,
}

const FEE: u64 = 20_000;

fn params_for(i: u64) -> ChainParams {
    let mut p = ChainParams::default();
    p.window = (2, 10);
    p.epoch = match i % 2 {
        0 => EpochMode::Permanent { genesis_len: 4, epoch_len: 4 },
        _ => EpochMode::Permanent { genesis_len: 5, epoch_len: 6 },
    };
    // cellbase maturity: one epoch
    p.maturity = (1, 0, 1);
    p.median_time_block_count = Some(5);
    p.issued_cells = 90;
    p
}

/// Build the context and the candidates. Returns None if the random chain lacks something.
fn setup(ci: u64, rng: &mut Rng) -> Option<Setup> {
    let params = params_for(ci);
    let gi = consensus::build(&params);
    let epoch_len = match params.epoch {
        EpochMode::Permanent { epoch_len, .. } => epoch_len,
        _ => 4,
    };
    let cfg = TreeCfg {
        n_blocks: 0,
        invalid: 0,
        fork_pm: 0,
        max_new_txs: 2,
        uncle_pm: 200,
        ts_step_max: 9_000,
        ..Default::default()
    };
    let mut tg = TreeGen::new(&gi, cfg, rng.next_u64());
    // special cells: an always_failure-locked cell, a cell with always_failure type is created by
    // candidates themselves; a dep-group cell listing [always_success, victim]
    let g = tg.rc.genesis;
    let st0 = tg.rc.replay(&g);
    let issued: Vec<((H, u32), CellRec)> = st0
        .cells
        .iter()
        .filter(|(_, c)| {
            let o = CellOutput::from_slice(&c.output).unwrap();
            o.type_().to_opt().is_none() && o.lock().code_hash() == gi.always_success_script.code_hash()
        })
        .map(|(k, c)| (*k, c.clone()))
        .collect();
    if issued.len() < 40 {
        return None;
    }
    let mk_out = |cap: u64, lock: packed::Script, data: Vec<u8>| builder::OutSpec { capacity: cap, lock, type_: None, data };
    let c0 = cap_of(&issued[0].1);
    // setup tx 1: always_failure-locked output + a "victim" cell + change
    let af_lock = gi.always_failure_script.clone();
    let s1 = builder::build_tx(
        &gi,
        &[(out_point(&issued[0].0), 0)],
        &[
            mk_out(200_0000_0000, af_lock.clone(), vec![]),
            mk_out(200_0000_0000, builder::lock_with_args(&gi, &[7]), vec![1]),
            mk_out(c0 - 400_0000_0000 - FEE, builder::lock_with_args(&gi, &[8]), vec![]),
        ],
        &[],
        &[],
        None,
    );
    // setup tx 2: dep group cell listing [always_success out point, victim]
    let victim = OutPoint::new(s1.hash(), 1);
    let group_data: Bytes = packed::OutPointVec::new_builder()
        .push(gi.always_success_out_point.clone())
        .push(victim.clone())
        .build()
        .as_bytes();
    let c1 = cap_of(&issued[1].1);
    let s2 = builder::build_tx(
        &gi,
        &[(out_point(&issued[1].0), 0)],
        &[mk_out(400_0000_0000, builder::lock_with_args(&gi, &[7]), group_data.to_vec()), mk_out(c1 - 400_0000_0000 - FEE, builder::lock_with_args(&gi, &[8]), vec![])],
        &[],
        &[],
        None,
    );
    // setup tx 3: three dep-group cells listing the always_success cell 1023 / 1024 / 1025 times
    // (expansion limit 2048 per transaction, a plain dep counts 1)
    let big_group = |n: usize| -> Vec<u8> {
        let mut b = packed::OutPointVec::new_builder();
        for _ in 0..n {
            b = b.push(gi.always_success_out_point.clone());
        }
        b.build().as_bytes().to_vec()
    };
    let lock9 = builder::lock_with_args(&gi, &[9]);
    let g_caps: Vec<u64> = [1023usize, 1024, 1025, 1022].iter().map(|n| builder::occupied(&lock9, &None, 4 + n * 36) + 1_0000_0000).collect();
    let s3_in = cap_of(&issued[2].1) + cap_of(&issued[3].1);
    let s3 = if s3_in > g_caps.iter().sum::<u64>() + 100_0000_0000 {
        Some(builder::build_tx(
            &gi,
            &[(out_point(&issued[2].0), 0), (out_point(&issued[3].0), 0)],
            &[
                mk_out(g_caps[0], lock9.clone(), big_group(1023)),
                mk_out(g_caps[1], lock9.clone(), big_group(1024)),
                mk_out(g_caps[2], lock9.clone(), big_group(1025)),
                mk_out(g_caps[3], lock9.clone(), big_group(1022)),
                mk_out(s3_in - g_caps.iter().sum::<u64>() - 200_000, builder::lock_with_args(&gi, &[8]), vec![]),
            ],
            &[],
            &[],
            None,
        ))
    } else {
        None
    };
    if let Some(s3) = &s3 {
        for i in 0..5u32 {
            tg.keep.insert((h(&s3.hash()), i));
        }
    }
    // the generator's own transactions must leave the probes' cells alone
    for i in 0..3u32 {
        tg.keep.insert((h(&s1.hash()), i));
    }
    tg.keep.insert((h(&s2.hash()), 0));
    tg.keep.insert(key_of(&gi.dev1_out_point));
    for (k, _) in issued.iter().skip(4).take(80) {
        tg.keep.insert(*k);
    }
    // propose both and grow the chain with a fork until they are committed
    let mut tip = tg.extend_ex(&g, &[s1.clone(), s2.clone()].into_iter().chain(s3.clone()).collect::<Vec<_>>());
    let target_len = 22 + rng.below(10);
    let mut guard = 0;
    loop {
        guard += 1;
        if guard > 200 {
            return None;
        }
        let st = tg.rc.replay(&tip);
        let n = tg.rc.get(&tip).number;
        let committed = st.tx_info.contains_key(&h(&s1.hash())) && st.tx_info.contains_key(&h(&s2.hash())) && s3.as_ref().map(|t| st.tx_info.contains_key(&h(&t.hash()))).unwrap_or(true);
        if committed && n >= target_len {
            break;
        }
        // occasionally a side block (uncle / detour material)
        if n > 3 && rng.chance(150, 1000) {
            let a = tg.rc.ancestor_at(&tip, n - 1).unwrap();
            tg.extend(&a);
            // continue on the old tip: DFS requires re-extending from the ancestor
            let nt = tg.extend(&a);
            tip = tg.extend(&nt);
            continue;
        }
        tip = tg.extend(&tip);
    }
    // a three-block side branch that proposes and commits a transaction the main chain never
    // sees; the main chain is then re-grown from the fork point and made longer
    let side_key = issued[38].0;
    let side_tx = builder::build_tx(&gi, &[(out_point(&side_key), 0)], &[mk_out(cap_of(&issued[38].1) - FEE, builder::lock_with_args(&gi, &[7]), vec![0x51, 0xDE])], &[], &[], None);
    let mut side_tip: Option<H> = None;
    // a transaction proposed just before the fork so that the first main blocks after the fork
    // point (the ones re-attached as "already verified" in the switch-back history) commit it
    let fp_key = issued[39].0;
    let fp_tx = builder::build_tx(&gi, &[(out_point(&fp_key), 0)], &[mk_out(cap_of(&issued[39].1) - FEE, builder::lock_with_args(&gi, &[7]), vec![0x51, 0xF9])], &[], &[], None);
    tg.keep.insert((h(&fp_tx.hash()), 0));
    tip = tg.extend_ex(&tip, &[fp_tx.clone()]);
    tip = tg.extend(&tip);
    let fork_point = tip;
    {
        let a = tip;
        let s1 = tg.extend_ex(&a, &[side_tx.clone()]);
        let s2 = tg.extend(&s1);
        let s3 = tg.extend(&s2);
        let s4 = tg.extend(&s3);
        if tg.rc.replay(&s4).tx_info.contains_key(&h(&side_tx.hash())) {
            side_tip = Some(s4);
        }
        tip = tg.extend(&a);
        for _ in 0..5 {
            tip = tg.extend(&tip);
        }
        if tg.rc.replay(&tip).tx_info.contains_key(&h(&side_tx.hash())) {
            return None;
        }
    }
    // ---- context P0: candidates reference the state here; commit position n = P0 + w_close + 2
    let p0 = tip;
    let st = tg.rc.replay(&p0);
    let (w_close, _) = tg.rc.window;
    // one block later than the earliest commit position, so that position n-1 is inside the
    // proposal window as well (used by the commit-position shift of C14)
    let n = tg.rc.get(&p0).number + w_close + 2;
    // the epoch of block n (all later epochs have the same length)
    let tip_epoch = tg.rc.get(&p0).block.epoch();
    let epoch_n = {
        let mut e = tip_epoch;
        for _ in 0..(w_close + 2) {
            e = if e.index() + 1 < e.length() { EpochNumberWithFraction::new(e.number(), e.index() + 1, e.length()) } else { EpochNumberWithFraction::new(e.number() + 1, 0, epoch_len) };
        }
        e
    };
    if tip_epoch.length() != epoch_len || tip_epoch.number() < 2 {
        return None;
    }
    // plain spendable cells (not cellbase, no type), oldest first
    let mut plain: Vec<((H, u32), CellRec)> = st
        .cells
        .iter()
        .filter(|(_, c)| {
            let o = CellOutput::from_slice(&c.output).unwrap();
            o.type_().to_opt().is_none() && o.lock().code_hash() == gi.always_success_script.code_hash() && c.tx_index != 0 && c.block_number > 0 && cap_of(c) > 1000_0000_0000
        })
        .map(|(k, c)| (*k, c.clone()))
        .collect();
    plain.sort_by_key(|(_, c)| c.block_number);
    let genesis_plain: Vec<((H, u32), CellRec)> = st.cells.iter().filter(|(k, c)| c.block_number == 0 && **k != side_key && **k != fp_key && issued.iter().any(|(ik, _)| ik == *k)).map(|(k, c)| (*k, c.clone())).collect();
    if genesis_plain.len() < 44 {
        return None;
    }
    let mut gi_iter = genesis_plain.into_iter();
    let mut next_cell = || gi_iter.next();
    let lock7 = builder::lock_with_args(&gi, &[7]);
    let mut salt = 0u64;
    let mut simple = |input: (OutPoint, u64), in_cap: u64, fee: u64, deps: &[CellDep], hdeps: &[packed::Byte32]| -> TransactionView {
        salt += 1;
        let mut data = vec![0xCA];
        data.extend_from_slice(&salt.to_le_bytes());
        data.extend_from_slice(&ci.to_le_bytes());
        builder::build_tx(&gi, &[input], &[builder::OutSpec { capacity: in_cap - fee, lock: lock7.clone(), type_: None, data }], deps, hdeps, None)
    };
    let mut cands: Vec<Cand> = vec![];
    let mut later_pairs: Vec<Cand> = vec![];
    let mut add = |name: &'static str, tx: TransactionView, valid: bool, pool: Option<bool>| cands.push(Cand { name, tx, valid, pool, pre: vec![] });

    // -- resolution
    let (k, c) = next_cell()?;
    add("valid.plain_transfer", simple((out_point(&k), 0), cap_of(&c), FEE, &[], &[]), true, Some(true));
    // dead input: an out point consumed by a main-chain tx
    let dead = st.chain.iter().rev().flat_map(|x| tg.rc.get(x).block.transactions().into_iter().skip(1)).flat_map(|t| t.input_pts_iter().collect::<Vec<_>>()).next()?;
    add("resolve.dead_input", simple((dead.clone(), 0), 500_0000_0000, FEE, &[], &[]), false, Some(false));
    add("resolve.unknown_input", simple((OutPoint::new(packed::Byte32::from_slice(&rng.bytes(32)).unwrap(), 0), 0), 500_0000_0000, FEE, &[], &[]), false, Some(false));
    {
        let (k, c) = next_cell()?;
        let cap = cap_of(&c);
        let tx = builder::build_tx(&gi, &[(out_point(&k), 0), (out_point(&k), 0)], &[builder::OutSpec { capacity: cap - FEE, lock: lock7.clone(), type_: None, data: vec![0xD0] }], &[], &[], None);
        add("resolve.duplicate_input", tx, false, Some(false));
    }
    // input created only on a side branch
    {
        let main: HashSet<H> = st.chain.iter().cloned().collect();
        let _ = &main;
        // committed in one of the first two main blocks after the fork point?
        let fp_at = st.tx_info.get(&h(&fp_tx.hash())).map(|i| i.block_number);
        let fork_n = tg.rc.get(&fork_point).number;
        if matches!(fp_at, Some(b) if b == fork_n + 1 || b == fork_n + 2) {
            add("valid.input_created_in_block_reattached_after_switch_back", simple((OutPoint::new(fp_tx.hash(), 0), 0), cap_of(&issued[39].1) - FEE, FEE, &[], &[]), true, Some(true));
            add("resolve.input_spent_in_block_reattached_after_switch_back", simple((out_point(&fp_key), 0), cap_of(&issued[39].1), FEE, &[], &[]), false, Some(false));
        }
        if side_tip.is_some() {
            add("resolve.input_only_on_side_branch", simple((OutPoint::new(side_tx.hash(), 0), 0), cap_of(&issued[38].1) - FEE, FEE, &[], &[]), false, Some(false));
            // the cell the side branch spent is still live on the main chain
            add("valid.input_spent_only_on_side_branch", simple((out_point(&side_key), 0), cap_of(&issued[38].1), FEE, &[], &[]), true, Some(true));
        }
    }
    {
        let (k, c) = next_cell()?;
        add("resolve.dead_cell_dep", simple((out_point(&k), 0), cap_of(&c), FEE, &[CellDep::new_builder().out_point(dead.clone()).build()], &[]), false, Some(false));
        let (k, c) = next_cell()?;
        add("resolve.unknown_cell_dep", simple((out_point(&k), 0), cap_of(&c), FEE, &[CellDep::new_builder().out_point(OutPoint::new(packed::Byte32::from_slice(&rng.bytes(32)).unwrap(), 3)).build()], &[]), false, Some(false));
        let (k, c) = next_cell()?;
        let live_dep = plain.first().map(|(k, _)| out_point(k))?;
        add("valid.extra_live_cell_dep", simple((out_point(&k), 0), cap_of(&c), FEE, &[CellDep::new_builder().out_point(live_dep.clone()).build()], &[]), true, Some(true));
        let (k, c) = next_cell()?;
        add("resolve.duplicate_cell_dep", simple((out_point(&k), 0), cap_of(&c), FEE, &[CellDep::new_builder().out_point(live_dep.clone()).build(), CellDep::new_builder().out_point(live_dep).build()], &[]), false, Some(false));
    }
    // dep group: valid while the victim lives; a second candidate spends the victim in the same tx? (no: separate)
    {
        let group_cell = OutPoint::new(s2.hash(), 0);
        let (k, c) = next_cell()?;
        add("valid.dep_group_all_members_live", simple((out_point(&k), 0), cap_of(&c), FEE, &[CellDep::new_builder().out_point(group_cell.clone()).dep_type(DepType::DepGroup).build()], &[]), true, Some(true));
        // malformed dep group: a cell whose data is not an OutPointVec used as dep group
        let (k, c) = next_cell()?;
        add("resolve.dep_group_with_malformed_data", simple((out_point(&k), 0), cap_of(&c), FEE, &[CellDep::new_builder().out_point(victim.clone()).dep_type(DepType::DepGroup).build()], &[]), false, Some(false));
    }
    // dep expansion limit: 1 (always_success dep) + 1023 + 1024 = 2048 is the last accepted count
    if let Some(s3) = &s3 {
        let grp = |i: u32| CellDep::new_builder().out_point(OutPoint::new(s3.hash(), i)).dep_type(DepType::DepGroup).build();
        let (k, c) = next_cell()?;
        add("valid.dep_expansion_exactly_at_limit", simple((out_point(&k), 0), cap_of(&c), FEE, &[grp(0), grp(1)], &[]), true, Some(true));
        let (k, c) = next_cell()?;
        add("resolve.dep_expansion_one_over_limit", simple((out_point(&k), 0), cap_of(&c), FEE, &[grp(0), grp(2)], &[]), false, Some(false));
        // the same boundary with a dep group the node resolves from its pre-resolved system-cell
        // cache (the genesis secp256k1 group expands to 2 cells): 1 + 2 + 1023 + 1022 = 2048
        let (k, c) = next_cell()?;
        add("valid.dep_expansion_at_limit_with_system_dep_group", simple((out_point(&k), 0), cap_of(&c), FEE, &[gi.secp_dep_group.clone(), grp(0), grp(3)], &[]), true, Some(true));
        let (k, c) = next_cell()?;
        add("resolve.dep_expansion_over_limit_with_system_dep_group", simple((out_point(&k), 0), cap_of(&c), FEE, &[gi.secp_dep_group.clone(), grp(1), grp(3)], &[]), false, Some(false));
    }
    // header deps
    {
        let (k, c) = next_cell()?;
        let main_hash = packed::Byte32::from_slice(&st.chain[st.chain.len() - 3]).unwrap();
        add("valid.header_dep_on_main_chain", simple((out_point(&k), 0), cap_of(&c), FEE, &[], &[main_hash.clone()]), true, Some(true));
        let (k, c) = next_cell()?;
        add("resolve.header_dep_unknown", simple((out_point(&k), 0), cap_of(&c), FEE, &[], &[packed::Byte32::from_slice(&rng.bytes(32)).unwrap()]), false, Some(false));
        let main: HashSet<H> = st.chain.iter().cloned().collect();
        if let Some(sb) = side_tip.as_ref().or_else(|| tg.order.iter().find(|x| !main.contains(*x))) {
            let (k, c) = next_cell()?;
            add("resolve.header_dep_on_side_branch", simple((out_point(&k), 0), cap_of(&c), FEE, &[], &[packed::Byte32::from_slice(sb).unwrap()]), false, Some(false));
        }
        let (k, c) = next_cell()?;
        add("resolve.duplicate_header_dep", simple((out_point(&k), 0), cap_of(&c), FEE, &[], &[main_hash.clone(), main_hash]), false, Some(false));
    }
    // -- capacity
    {
        let (k, c) = next_cell()?;
        let cap = cap_of(&c);
        let tx = builder::build_tx(&gi, &[(out_point(&k), 0)], &[builder::OutSpec { capacity: cap + 1, lock: lock7.clone(), type_: None, data: vec![0xC1] }], &[], &[], None);
        add("capacity.outputs_exceed_inputs_by_one", tx, false, Some(false));
        let (k, c) = next_cell()?;
        let cap = cap_of(&c);
        let tx = builder::build_tx(&gi, &[(out_point(&k), 0)], &[builder::OutSpec { capacity: cap, lock: lock7.clone(), type_: None, data: vec![0xC2] }], &[], &[], None);
        add("valid.zero_fee", tx, true, None);
        // occupied boundary
        let (k, c) = next_cell()?;
        let cap = cap_of(&c);
        let data = vec![0xC3; 13];
        let occ = builder::occupied(&lock7, &None, data.len());
        let tx = builder::build_tx(&gi, &[(out_point(&k), 0)], &[builder::OutSpec { capacity: occ, lock: lock7.clone(), type_: None, data: data.clone() }, builder::OutSpec { capacity: cap - occ - FEE, lock: lock7.clone(), type_: None, data: vec![] }], &[], &[], None);
        add("valid.output_capacity_equals_occupied", tx, true, Some(true));
        let (k, c) = next_cell()?;
        let cap = cap_of(&c);
        let tx = builder::build_tx(&gi, &[(out_point(&k), 0)], &[builder::OutSpec { capacity: occ - 1, lock: lock7.clone(), type_: None, data }, builder::OutSpec { capacity: cap - occ - FEE, lock: lock7.clone(), type_: None, data: vec![] }], &[], &[], None);
        add("capacity.output_below_occupied_by_one", tx, false, Some(false));
    }
    // -- since: inputs are cells created in a full-length epoch on the main chain
    {
        let median = tg.rc.median_time(&p0); // not the final parent yet; recomputed below
        let _ = median;
    }
    let since_cell = plain.iter().find(|(_, c)| {
        let e = EpochNumberWithFraction::from_full_value(c.block_epoch);
        e.number() >= 1 && e.length() == epoch_len
    }).cloned();
    // -- scripts
    {
        let af_cell = OutPoint::new(s1.hash(), 0);
        let tx = builder::build_tx(&gi, &[(af_cell, 0)], &[builder::OutSpec { capacity: 200_0000_0000 - FEE, lock: lock7.clone(), type_: None, data: vec![0x5C] }], &[gi.always_failure_dep.clone()], &[], None);
        add("script.always_failure_lock", tx, false, Some(false));
        let (k, c) = next_cell()?;
        let cap = cap_of(&c);
        let tx = builder::build_tx(&gi, &[(out_point(&k), 0)], &[builder::OutSpec { capacity: cap - FEE, lock: lock7.clone(), type_: Some(gi.always_failure_script.clone()), data: vec![0x5D] }], &[gi.always_failure_dep.clone()], &[], None);
        add("script.always_failure_output_type", tx, false, Some(false));
        let (k, c) = next_cell()?;
        let cap = cap_of(&c);
        let tx = builder::build_tx(&gi, &[(out_point(&k), 0)], &[builder::OutSpec { capacity: cap - FEE, lock: lock7.clone(), type_: Some(gi.always_success_script.clone()), data: vec![0x5E] }], &[], &[], None);
        add("valid.always_success_output_type", tx, true, Some(true));
        // secp256k1: the dev cell, valid and corrupted signature
        let dev = st.cells.get(&key_of(&gi.dev1_out_point));
        if let Some(dc) = dev {
            let cap = cap_of(dc);
            let unsigned = ckb_types::core::TransactionBuilder::default()
                .cell_dep(gi.secp_dep_group.clone())
                .input(CellInput::new(gi.dev1_out_point.clone(), 0))
                .output(CellOutput::new_builder().capacity(Capacity::shannons(cap - FEE)).lock(lock7.clone()).build())
                .output_data(Bytes::from(vec![0x5F]))
                .witness(Bytes::new())
                .build();
            let signed = builder::sign_secp(unsigned, DEV_PRIVKEY_1);
            add("valid.secp256k1_signed", signed.clone(), true, Some(true));
            let mut w = signed.witnesses().get(0).unwrap().raw_data().to_vec();
            let l = w.len();
            w[l - 10] ^= 0x01;
            let bad = signed.as_advanced_builder().set_witnesses(vec![Bytes::from(w).into()]).build();
            add("script.secp256k1_corrupted_signature", bad, false, Some(false));
        }
    }
    // -- several transactions in one block: order, double spends and deps across transactions
    {
        let spend = |op: OutPoint, cap: u64, deps: &[CellDep], tag: u8| builder::build_tx(&gi, &[(op, 0)], &[builder::OutSpec { capacity: cap - FEE, lock: lock7.clone(), type_: None, data: vec![0xAB, tag, ci as u8] }], deps, &[], None);
        let dep_of = |op: OutPoint| CellDep::new_builder().out_point(op).build();
        // B spends an output of A, A earlier in the block
        let (k, c) = next_cell()?;
        let a = spend(out_point(&k), cap_of(&c), &[], 1);
        let b = spend(OutPoint::new(a.hash(), 0), cap_of(&c) - FEE, &[], 2);
        later_pairs.push(Cand { name: "valid.spends_output_of_earlier_tx_in_block", tx: b, valid: true, pool: Some(true), pre: vec![a] });
        // ... and A later in the block
        let (k, c) = next_cell()?;
        let a = spend(out_point(&k), cap_of(&c), &[], 3);
        let b = spend(OutPoint::new(a.hash(), 0), cap_of(&c) - FEE, &[], 4);
        later_pairs.push(Cand { name: "resolve.spends_output_of_later_tx_in_block", tx: a, valid: false, pool: None, pre: vec![b] });
        // two transactions spending the same cell
        let (k, c) = next_cell()?;
        let x1 = spend(out_point(&k), cap_of(&c), &[], 5);
        let x2 = spend(out_point(&k), cap_of(&c), &[], 6);
        later_pairs.push(Cand { name: "resolve.double_spend_across_txs_in_block", tx: x2, valid: false, pool: None, pre: vec![x1] });
        // cell dep on a cell spent earlier in the block
        let (k, c) = next_cell()?;
        let (k2, c2) = next_cell()?;
        let y1 = spend(out_point(&k), cap_of(&c), &[], 7);
        let y2 = spend(out_point(&k2), cap_of(&c2), &[dep_of(out_point(&k))], 8);
        later_pairs.push(Cand { name: "resolve.cell_dep_spent_earlier_in_block", tx: y2, valid: false, pool: None, pre: vec![y1] });
        // cell dep on a cell spent LATER in the block: fine
        let (k, c) = next_cell()?;
        let (k2, c2) = next_cell()?;
        let y1 = spend(out_point(&k), cap_of(&c), &[], 9);
        let y2 = spend(out_point(&k2), cap_of(&c2), &[dep_of(out_point(&k))], 10);
        later_pairs.push(Cand { name: "valid.cell_dep_spent_later_in_block", tx: y1, valid: true, pool: None, pre: vec![y2] });
        // cell dep on an output of an earlier transaction of the block
        let (k, c) = next_cell()?;
        let (k2, c2) = next_cell()?;
        let z1 = spend(out_point(&k), cap_of(&c), &[], 11);
        let z2 = spend(out_point(&k2), cap_of(&c2), &[dep_of(OutPoint::new(z1.hash(), 0))], 12);
        later_pairs.push(Cand { name: "valid.cell_dep_on_output_of_earlier_tx_in_block", tx: z2, valid: true, pool: Some(true), pre: vec![z1] });
        // dep group with a member spent earlier in the block
        let (k2, c2) = next_cell()?;
        let w1 = spend(victim.clone(), 200_0000_0000, &[], 13);
        let w2 = spend(out_point(&k2), cap_of(&c2), &[CellDep::new_builder().out_point(OutPoint::new(s2.hash(), 0)).dep_type(DepType::DepGroup).build()], 14);
        later_pairs.push(Cand { name: "resolve.dep_group_member_spent_earlier_in_block", tx: w2, valid: false, pool: None, pre: vec![w1] });
    }
    // -- grow the chain: one block proposing every candidate, then w_close - 1 fillers
    let all: Vec<TransactionView> = cands.iter().map(|c| c.tx.clone()).collect();
    tg.cfg.max_new_txs = 0;
    tg.cfg.commit_skip_pm = 1000;
    tg.cfg.junk_proposals = 0;
    tg.cfg.uncle_pm = 0;
    // since / maturity candidates need the final parent's median and cellbases: they are built
    // against positions known already (block numbers, epochs); timestamps need the parent
    // median which depends on filler timestamps: fix the fillers' timestamps deterministically.
    tg.cfg.ts_step_max = 1; // +1ms steps: median fully determined below
    let mut later: Vec<Cand> = vec![];
    let mut extra_cells: Vec<((H, u32), CellRec)> = (0..6).filter_map(|_| next_cell()).collect();
    if let Some((sk, sc)) = since_cell.clone() {
        let b_c = sc.block_number;
        let e_c = EpochNumberWithFraction::from_full_value(sc.block_epoch);
        let t_c = tg.rc.get(&sc.block_hash).block.timestamp();
        let cap = cap_of(&sc);
        let op = out_point(&sk);
        // parent of n is block n-1 = P0 + w_close + 1; timestamps: P0.ts + i (ts_step_max = 1 => +1 each)
        // median over the last 5 blocks ending at n-1
        let mut tss: Vec<u64> = vec![];
        {
            let mut cur = p0;
            for _ in 0..5 {
                tss.push(tg.rc.get(&cur).block.timestamp());
                if cur == tg.rc.genesis {
                    break;
                }
                cur = tg.rc.get(&cur).parent;
            }
            tss.reverse();
            let base = tg.rc.get(&p0).block.timestamp();
            for i in 1..=(w_close + 1) {
                // each filler: max(parent+1, median+1) = parent + 1 as timestamps are increasing
                tss.push(base + i);
            }
        }
        let last5: Vec<u64> = tss[tss.len() - 5..].to_vec();
        let mut sorted = last5.clone();
        sorted.sort_unstable();
        let m = sorted[sorted.len() / 2];
        let mut mk = |name: &'static str, since: u64, valid: bool, pool: Option<bool>| {
            salt += 1;
            let mut data = vec![0x51];
            data.extend_from_slice(&salt.to_le_bytes());
            data.extend_from_slice(&ci.to_le_bytes());
            let tx = builder::build_tx(&gi, &[(op.clone(), since)], &[builder::OutSpec { capacity: cap - FEE, lock: lock7.clone(), type_: None, data }], &[], &[], None);
            later.push(Cand { name, tx, valid, pool, pre: vec![] });
        };
        mk("valid.since_abs_block_at_threshold", since_abs_block(n), true, Some(true));
        mk("since.abs_block_one_early", since_abs_block(n + 1), false, Some(false));
        mk("valid.since_rel_block_at_threshold", since_rel_block(n - b_c), true, Some(true));
        mk("since.rel_block_one_early", since_rel_block(n - b_c + 1), false, Some(false));
        mk("valid.since_abs_epoch_at_threshold", since_abs_epoch(epoch_n), true, None);
        let next_frac = if epoch_n.index() + 1 < epoch_n.length() { EpochNumberWithFraction::new(epoch_n.number(), epoch_n.index() + 1, epoch_n.length()) } else { EpochNumberWithFraction::new(epoch_n.number() + 1, 0, epoch_len) };
        mk("since.abs_epoch_one_fraction_early", since_abs_epoch(next_frac), false, Some(false));
        // relative epoch: (epoch_n - e_c) in units of 1/L
        let total = (epoch_n.number() - e_c.number()) * epoch_len + epoch_n.index() - e_c.index();
        let rel = EpochNumberWithFraction::new(total / epoch_len, total % epoch_len, epoch_len);
        mk("valid.since_rel_epoch_at_threshold", since_rel_epoch(rel), true, None);
        let total1 = total + 1;
        let rel1 = EpochNumberWithFraction::new(total1 / epoch_len, total1 % epoch_len, epoch_len);
        mk("since.rel_epoch_one_fraction_early", since_rel_epoch(rel1), false, Some(false));
        mk("valid.since_abs_timestamp_at_threshold", since_abs_ts(m / 1000), true, Some(true));
        mk("since.abs_timestamp_one_second_early", since_abs_ts(m / 1000 + 1), false, Some(false));
        if m >= t_c {
            mk("valid.since_rel_timestamp_at_threshold", since_rel_ts((m - t_c) / 1000), true, Some(true));
            mk("since.rel_timestamp_one_second_early", since_rel_ts((m - t_c) / 1000 + 1), false, Some(false));
        }
        mk("since.reserved_flag_bit_set", (1u64 << 60) | n.min(1), false, Some(false));
        mk("since.unknown_metric", (0b11u64 << 61) | 1, false, Some(false));
        mk("since.malformed_epoch_fraction", (0b01u64 << 61) | ((epoch_len << 40) | (epoch_len << 24) | 1), false, Some(false));
        // several inputs: every input's since counts, wherever it stands
        for (name, first_zero, since, valid) in [
            ("valid.since_second_input_at_threshold_after_zero_since_input", true, since_rel_block(n - b_c), true),
            ("since.second_input_one_early_after_zero_since_input", true, since_rel_block(n - b_c + 1), false),
            ("since.first_input_one_early_before_zero_since_input", false, since_abs_block(n + 1), false),
        ] {
            if let Some((k2, c2)) = extra_cells.pop() {
                let plain_in = (out_point(&k2), 0u64);
                let since_in = (op.clone(), since);
                let ins = if first_zero { vec![plain_in, since_in] } else { vec![since_in, plain_in] };
                let tx = builder::build_tx(&gi, &ins, &[builder::OutSpec { capacity: cap + cap_of(&c2) - FEE, lock: lock7.clone(), type_: None, data: vec![0x52, valid as u8, first_zero as u8, ci as u8] }], &[], &[], None);
                later.push(Cand { name, tx, valid, pool: Some(valid), pre: vec![] });
            }
        }
    }
    // the same relative since value on two inputs created at different heights: the value has to
    // be evaluated per input (against the block that created that input), wherever the input stands
    if let Some((sk, sc)) = since_cell.clone() {
        let b_c = sc.block_number;
        let op = out_point(&sk);
        for (name, old_first, early, valid) in [
            ("valid.since_same_relative_value_on_two_inputs_both_elapsed", true, 0u64, true),
            ("since.same_relative_value_on_two_inputs_younger_second_one_early", true, 1, false),
            ("since.same_relative_value_on_two_inputs_younger_first_one_early", false, 1, false),
        ] {
            let Some((k2, c2)) = extra_cells.pop() else { break };
            let b2 = c2.block_number;
            if b2 == b_c {
                continue;
            }
            let younger = b_c.max(b2);
            if n <= younger {
                continue;
            }
            let since = since_rel_block(n - younger + early);
            let a_in = (op.clone(), since);
            let b_in = (out_point(&k2), since);
            // which of the two is the older cell
            let (old_in, young_in) = if b_c < b2 { (a_in, b_in) } else { (b_in, a_in) };
            let ins = if old_first { vec![old_in, young_in] } else { vec![young_in, old_in] };
            let tx = builder::build_tx(&gi, &ins, &[builder::OutSpec { capacity: cap_of(&sc) + cap_of(&c2) - FEE, lock: lock7.clone(), type_: None, data: vec![0x53, valid as u8, old_first as u8, ci as u8] }], &[], &[], None);
            later.push(Cand { name, tx, valid, pool: Some(valid), pre: vec![] });
        }
    }
    // cellbase maturity: cellbase of block b is mature at n iff epoch(n) >= epoch(b) + 1 epoch
    {
        let find_cb = |b: u64| -> Option<((H, u32), CellRec)> {
            st.cells.iter().find(|(_, c)| c.block_number == b && c.tx_index == 0).map(|(k, c)| (*k, c.clone()))
        };
        if n > epoch_len {
            if let Some((k, c)) = find_cb(n - epoch_len) {
                if EpochNumberWithFraction::from_full_value(c.block_epoch).length() == epoch_len {
                    let tx = builder::build_tx(&gi, &[(out_point(&k), 0)], &[builder::OutSpec { capacity: cap_of(&c) - FEE, lock: lock7.clone(), type_: None, data: vec![0x3A, ci as u8] }], &[], &[], None);
                    later.push(Cand { name: "valid.cellbase_exactly_mature", tx, valid: true, pool: None, pre: vec![] });
                }
            }
            if let Some((k, c)) = find_cb(n - epoch_len + 1) {
                if EpochNumberWithFraction::from_full_value(c.block_epoch).length() == epoch_len {
                    let tx = builder::build_tx(&gi, &[(out_point(&k), 0)], &[builder::OutSpec { capacity: cap_of(&c) - FEE, lock: lock7.clone(), type_: None, data: vec![0x3B, ci as u8] }], &[], &[], None);
                    later.push(Cand { name: "maturity.cellbase_one_block_early", tx, valid: false, pool: Some(false), pre: vec![] });
                }
            }
        }
    }
    cands.extend(later);
    cands.extend(later_pairs);
    let tail: Option<TransactionView> = next_cell().map(|(k, c)| {
        builder::build_tx(&gi, &[(out_point(&k), 0)], &[builder::OutSpec { capacity: cap_of(&c) - FEE, lock: lock7.clone(), type_: None, data: vec![0x7A, 0x11, ci as u8] }], &[], &[], None)
    });
    let all: Vec<TransactionView> = all.into_iter().chain(tail.iter().cloned()).collect();
    let all: Vec<TransactionView> = all.into_iter().chain(cands.iter().skip(all_len(&cands)).map(|c| c.tx.clone())).collect();
    let all: Vec<TransactionView> = {
        let mut seen = HashSet::new();
        cands.iter().flat_map(|c| c.pre.iter().cloned().chain(std::iter::once(c.tx.clone()))).chain(all).filter(|t| seen.insert(t.hash())).collect()
    };
    let mut cur = tg.extend_ex(&p0, &all);
    for _ in 0..w_close {
        cur = tg.extend(&cur);
    }
    if tg.rc.get(&cur).number + 1 != n {
        return None;
    }
    // nothing of the candidates may have been committed by the fillers
    let stn = tg.rc.replay(&cur);
    if cands.iter().any(|c| stn.tx_info.contains_key(&h(&c.tx.hash())) || c.pre.iter().any(|t| stn.tx_info.contains_key(&h(&t.hash())))) {
        return None;
    }
    let tail = tail.filter(|t| !stn.tx_info.contains_key(&h(&t.hash())));
    Some(Setup { gi, tg, params, tip: cur, cands, side: side_tip.map(|t| (fork_point, t)), tail })
}

fn all_len(c: &[Cand]) -> usize {
    c.len()
}

/// Block [cellbase, txs..] on top of the builder's tip. The flag tells whether the builder could
/// resolve the transactions (then the dao field is the right one for this content); otherwise the
/// dao field is the one of the empty block, which is only wrong once every transaction rule let
/// the block pass — see `verdicts`.
fn block_with(s: &Setup, txs: &[TransactionView]) -> (BlockView, bool) {
    // a fresh cellbase message per call: the same candidate is judged several times on the same
    // node and an already known block hash would not be processed again
    static SALT: std::sync::atomic::AtomicU64 = std::sync::atomic::AtomicU64::new(1);
    let salt = SALT.fetch_add(1, std::sync::atomic::Ordering::SeqCst);
    let spec = BlockSpec { txs: txs.to_vec(), timestamp: None, message: salt.to_le_bytes().to_vec(), ..Default::default() };
    match builder::try_build_block(&s.tg.b.shared, &s.gi, &spec) {
        Ok(b) => (b.block, true),
        Err(_) => {
            let empty = builder::build_block(&s.tg.b.shared, &s.gi, &BlockSpec { message: salt.to_le_bytes().to_vec(), ..Default::default() }).block;
            let mut all = empty.transactions();
            all.extend(txs.iter().cloned());
            (builder::reseal(&s.gi.consensus, empty.as_advanced_builder().set_transactions(all).build()), false)
        }
    }
}

fn pool_cfg() -> TxPoolConfig {
    TxPoolConfig {
        min_fee_rate: FeeRate::from_u64(1000),
        min_rbf_rate: FeeRate::from_u64(1500),
        ..Default::default()
    }
}

/// Like `boot_synced` with default caches, but every block is processed to the end before the
/// next one is delivered (parents always first), so that each intermediate tip really is adopted.
/// Err(Some(reason)): the node refused part of the (valid) history; Err(None): harness time-out.
fn boot_synced_seq(s: &Setup, order: &[H], assume_valid: Option<Vec<ckb_types::H256>>) -> Result<Node, Option<String>> {
    let node = Node::boot(&s.gi, &NodeCfg { tx_pool: Some(pool_cfg()), assume_valid_targets: assume_valid, ..Default::default() });
    let mut first_refusal: Option<String> = None;
    for x in order {
        let res = node.chain().blocking_process_block(Arc::clone(&s.tg.rc.get(x).block));
        if let Err(e) = &res {
            if first_refusal.is_none() {
                first_refusal = Some(format!("block {}#{} refused: {}", hx(x), s.tg.rc.get(x).number, e));
            }
        }
    }
    if h(&node.tip_hash()) != s.tip {
        // every delivered block is valid and was processed to the end: a genuine refusal
        return Err(Some(first_refusal.unwrap_or_else(|| format!("tip is {} instead of {}", hx(&h(&node.tip_hash())), hx(&s.tip)))));
    }
    if !wait_pool_tip(&node, &s.tip) {
        return Err(None);
    }
    Ok(node)
}

fn boot_synced(s: &Setup, order: &[H], store: Option<StoreConfig>) -> Option<Node> {
    boot_synced_ex(s, order, store).ok()
}

/// Err((reason, definitive)): definitive = every delivered block has been answered and the node
/// is nevertheless not at the context tip (a logical outcome, not a time-out of the harness).
fn boot_synced_ex(s: &Setup, order: &[H], store: Option<StoreConfig>) -> Result<Node, (String, bool)> {
    let node = Node::boot(
        &s.gi,
        &NodeCfg {
            tx_pool: Some(pool_cfg()),
            store_config: store,
            ..Default::default()
        },
    );
    // asynchronous: an orphan's verification callback only fires once its parent has arrived
    let judged = Arc::new(std::sync::atomic::AtomicUsize::new(0));
    let first_err: Arc<std::sync::Mutex<Option<String>>> = Default::default();
    for x in order {
        let j = Arc::clone(&judged);
        let fe = Arc::clone(&first_err);
        let tag = format!("{}#{}", hx(x), s.tg.rc.get(x).number);
        node.chain().asynchronous_process_remote_block(ckb_chain::RemoteBlock {
            block: Arc::clone(&s.tg.rc.get(x).block),
            verify_callback: Box::new(move |r| {
                if let Err(e) = r {
                    fe.lock().unwrap().get_or_insert_with(|| format!("block {tag} refused: {e}"));
                }
                j.fetch_add(1, std::sync::atomic::Ordering::SeqCst);
            }),
        });
    }
    // every delivered block must have been judged before the context is used
    let t0 = Instant::now();
    let mut all_judged_since: Option<Instant> = None;
    while judged.load(std::sync::atomic::Ordering::SeqCst) < order.len() || h(&node.tip_hash()) != s.tip {
        let done = judged.load(std::sync::atomic::Ordering::SeqCst) >= order.len();
        if done && all_judged_since.is_none() {
            all_judged_since = Some(Instant::now());
        }
        // every block answered and the tip has not moved to the context for a while: final
        if let Some(t) = all_judged_since {
            if t.elapsed() > Duration::from_secs(3) {
                let why = first_err.lock().unwrap().clone().unwrap_or_else(|| "no block was refused".into());
                return Err((format!("every delivered block was answered, tip is {} instead of {}; {}", hx(&h(&node.tip_hash())), hx(&s.tip), why), true));
            }
        }
        if t0.elapsed() > Duration::from_secs(60) {
            return Err((format!("time-out: {} of {} blocks answered", judged.load(std::sync::atomic::Ordering::SeqCst), order.len()), false));
        }
        std::thread::sleep(Duration::from_millis(2));
    }
    // wait for the pool to follow
    let t0 = Instant::now();
    loop {
        if let Ok(info) = node.shared.tx_pool_controller().get_tx_pool_info() {
            if info.tip_hash == node.tip_hash() {
                break;
            }
        }
        if t0.elapsed() > Duration::from_secs(20) {
            return Err(("time-out: the pool did not follow the tip".into(), false));
        }
        std::thread::sleep(Duration::from_millis(1));
    }
    Ok(node)
}

/// Wait (bounded) until the pool's snapshot is at `tip`.
fn wait_pool_tip(node: &Node, tip: &H) -> bool {
    let t0 = Instant::now();
    loop {
        if let Ok(info) = node.shared.tx_pool_controller().get_tx_pool_info() {
            if &h(&info.tip_hash) == tip {
                return true;
            }
        }
        if t0.elapsed() > Duration::from_secs(30) {
            return false;
        }
        std::thread::sleep(Duration::from_millis(1));
    }
}

/// A -> B -> A delivery order: everything generated before the side branch, the first two main
/// blocks after the fork point, the (longer) side branch, then the rest of the main chain, which
/// wins again while its first blocks are already verified.
fn flip_flop_order(s: &Setup) -> Option<Vec<H>> {
    let (a, side_tip) = s.side?;
    let path_after = |tip: &H| -> Vec<H> {
        let mut v = vec![];
        let mut cur = *tip;
        while cur != a {
            v.push(cur);
            if cur == s.tg.rc.genesis {
                return vec![];
            }
            cur = s.tg.rc.get(&cur).parent;
        }
        v.reverse();
        v
    };
    let side = path_after(&side_tip);
    let main = path_after(&s.tip);
    if side.len() < 3 || main.len() <= side.len() {
        return None;
    }
    let first_side = s.tg.order.iter().position(|x| *x == side[0])?;
    let mut order: Vec<H> = s.tg.order[..first_side].to_vec();
    order.extend(main.iter().take(2).cloned());
    order.extend(side.iter().cloned());
    let seen: HashSet<H> = order.iter().cloned().collect();
    order.extend(s.tg.order.iter().filter(|x| !seen.contains(*x)).cloned());
    Some(order)
}

fn clear_verify_cache(node: &Node) {
    let cache = node.shared.txs_verify_cache();
    let handle = node.shared.async_handle().clone();
    handle.block_on(async move {
        cache.write().await.clear();
    });
}

struct Verdict {
    pool: Option<bool>,
    accepted: bool,
    ext: Option<String>,
    /// the block was refused only by the dao check although the builder could not even resolve
    /// its transactions: every transaction rule let an invalid transaction pass
    passed_tx_rules: bool,
    /// for a refused probe block (deleted from the store as invalid): what the store answers
    /// about its hash afterwards
    refused_answers: Option<String>,
    /// for an attached probe block that was truncated away again: what the store answers about
    /// the data of the first output of the candidate (read once while it was live)
    gone_cell_answers: Option<String>,
    /// for an attached probe block whose hash had been queried before the block arrived: what
    /// the store answers about it while it is the tip (true = the stored block is byte-identical)
    attached_answers: Option<(String, bool)>,
}

/// Verdict of a candidate on both paths. Leaves the node at the context tip with an empty pool.
/// The transaction that follows the candidate in its probe blocks (script candidates only).
fn tail_for<'a>(s: &'a Setup, c: &Cand) -> Option<&'a TransactionView> {
    s.tail.as_ref().filter(|_| c.name.starts_with("script.") || c.name == "valid.plain_transfer" || c.name == "valid.secp256k1_signed")
}

fn verdicts(s: &Setup, node: &Node, c: &Cand, clear_cache: bool) -> Verdict {
    let debug = std::env::var("VERIF_DEBUG").is_ok();
    if clear_cache {
        clear_verify_cache(node);
    }
    let tpc = node.shared.tx_pool_controller();
    // a pool that is not at the context tip gives no verdict about this context
    let mut pre_ok = wait_pool_tip(node, &s.tip);
    for t in &c.pre {
        pre_ok &= matches!(tpc.submit_local_tx(t.clone()), Ok(Ok(_)));
    }
    let pool_res = tpc.test_accept_tx(c.tx.clone()).ok();
    if debug {
        if let Some(Err(e)) = &pool_res {
            eprintln!("[tx] pool refuses {}: {}", c.name, e);
        }
    }
    // the pool's answer about `tx` is only meaningful if the transactions before it were pooled
    let pool = if pre_ok { pool_res.map(|r| r.is_ok()) } else { None };
    if !c.pre.is_empty() {
        let _ = tpc.clear_pool(node.shared.cloned_snapshot());
    }
    if clear_cache {
        clear_verify_cache(node);
    }
    let mut txs = c.pre.clone();
    txs.push(c.tx.clone());
    // script candidates: a transaction the warm node has already verified sits right behind the
    // candidate it has never verified (verdicts must not leak between neighbours in a block)
    if let Some(t) = tail_for(s, c) {
        if !clear_cache {
            let _ = tpc.submit_local_tx(t.clone());
            let _ = tpc.clear_pool(node.shared.cloned_snapshot());
        }
        txs.push(t.clone());
    }
    let (blk, resolved) = block_with(s, &txs);
    {
        // queries about a block the node has not seen yet (a peer or an RPC client may ask)
        use ckb_store::ChainStore;
        let st = node.shared.store();
        let bh = blk.hash();
        let _ = (st.get_block_header(&bh), st.block_exists(&bh), st.get_block_uncles(&bh), st.get_block_proposal_txs_ids(&bh), st.get_block_extension(&bh), st.get_block_txs_hashes(&bh), st.get_block(&bh), st.get_block_number(&bh));
    }
    let res = node.chain().blocking_process_block(Arc::new(blk.clone()));
    let mut passed_tx_rules = false;
    if let Err(e) = &res {
        let msg = e.to_string();
        if debug {
            eprintln!("[tx] block refuses {}: {}", c.name, msg);
        }
        passed_tx_rules = !resolved && (msg.contains("InvalidDAO") || msg.contains("Dao("));
    }
    let accepted = matches!(res, Ok(true)) && h(&node.tip_hash()) == h(&blk.hash());
    let ext = if accepted {
        node.shared.store().get_block_ext(&blk.hash()).map(|e| format!("fees={:?} cycles={:?} sizes={:?}", e.txs_fees, e.cycles, e.txs_sizes))
    } else {
        None
    };
    let refused_answers = if res.is_err() {
        use ckb_store::ChainStore;
        let st = node.shared.store();
        let bh = blk.hash();
        Some(format!(
            "header={} block={} exists={} ext={} uncles={} proposals={} extension={} tx_hashes={} body={} number={:?}",
            st.get_block_header(&bh).is_some(),
            st.get_block(&bh).is_some(),
            st.block_exists(&bh),
            st.get_block_ext(&bh).is_some(),
            st.get_block_uncles(&bh).is_some(),
            st.get_block_proposal_txs_ids(&bh).is_some(),
            st.get_block_extension(&bh).is_some(),
            st.get_block_txs_hashes(&bh).len(),
            st.get_block_body(&bh).len(),
            st.get_block_number(&bh),
        ))
    } else {
        None
    };
    let attached_answers = if accepted {
        use ckb_store::ChainStore;
        let st = node.shared.store();
        let bh = blk.hash();
        let same = st.get_block(&bh).map(|b| b.data().as_slice() == blk.data().as_slice()).unwrap_or(false);
        Some((
            format!(
                "header={} exists={} uncles={} proposals={} extension={:?} tx_hashes={} body={} block_bytes_equal={}",
                st.get_block_header(&bh).is_some(),
                st.block_exists(&bh),
                st.get_block_uncles(&bh).map(|u| u.data().len()).unwrap_or(usize::MAX),
                st.get_block_proposal_txs_ids(&bh).map(|p| p.len()).unwrap_or(usize::MAX),
                st.get_block_extension(&bh).map(|e| e.raw_data().len()),
                st.get_block_txs_hashes(&bh).len(),
                st.get_block_body(&bh).len(),
                same
            ),
            same && st.get_block_txs_hashes(&bh).len() == blk.transactions().len() && st.get_block_extension(&bh).map(|e| e.raw_data()) == blk.extension().map(|e| e.raw_data()),
        ))
    } else {
        None
    };
    let probe_out = OutPoint::new(c.tx.hash(), 0);
    let mut read_while_live = false;
    if accepted && !c.tx.outputs().is_empty() {
        use ckb_store::ChainStore;
        read_while_live = node.shared.store().get_cell_data(&probe_out).is_some();
    }
    if h(&node.tip_hash()) != s.tip {
        // reorg notifications travel on their own channel: let the pool follow the probe block
        // first, otherwise the notification could overtake the resynchronisation below
        wait_pool_tip(node, &h(&node.tip_hash()));
        let _ = node.chain().truncate(packed::Byte32::from_slice(&s.tip).unwrap());
        // the pool is not told about truncations: resynchronise it explicitly
        let _ = tpc.clear_pool(node.shared.cloned_snapshot());
    }
    wait_pool_tip(node, &s.tip);
    let gone_cell_answers = if read_while_live && h(&node.tip_hash()) == s.tip {
        use ckb_store::ChainStore;
        let st = node.shared.store();
        Some(format!("cell={} cell_data={} cell_data_hash={}", st.get_cell(&probe_out).is_some(), st.get_cell_data(&probe_out).is_some(), st.get_cell_data_hash(&probe_out).is_some()))
    } else {
        None
    };
    Verdict { pool, accepted, ext, passed_tx_rules, refused_answers, gone_cell_answers, attached_answers }
}

/// Thorough tier: nodes with a tx-pool service cannot be torn down inside a process (their
/// databases live in RAM-backed scratch), so the contexts are spread over short child processes
/// whose shard evidence the driver merges (`<ID>.part-<k>.json`).
fn run_sharded(args: &Args) -> i32 {
    let total = args.get_u64("contexts", 200);
    let per = 20u64;
    let shards = total.div_ceil(per);
    let out = std::env::var("VERIF_OUT_DIR").map(std::path::PathBuf::from).unwrap_or_else(|_| vbase::verif_root().join("evidence"));
    let exe = std::env::current_exe().expect("current exe");
    let deadline = Instant::now() + Duration::from_secs(args.get_u64("budget_s", 1500));
    let mut code = 0;
    let mut ran = 0;
    for k in 0..shards {
        if Instant::now() > deadline {
            break;
        }
        let dir = out.join(format!("tx-shard-{k}"));
        let _ = std::fs::create_dir_all(&dir);
        let status = std::process::Command::new(&exe)
            .arg("tx")
            .arg("--seed").arg((args.seed.wrapping_mul(1000) + k).to_string())
            .arg("--tier").arg("thorough")
            .arg("--props").arg(args.props.join(","))
            .arg(format!("contexts={per}"))
            .arg("shard=1")
            .arg("budget_s=400")
            .env("VERIF_OUT_DIR", &dir)
            .status();
        let c = match status {
            Ok(st) => st.code().unwrap_or(2),
            Err(_) => 2,
        };
        for id in ["C04", "C14"] {
            let f = dir.join(format!("{id}.json"));
            if f.exists() {
                let _ = std::fs::rename(&f, out.join(format!("{id}.part-{k}.json")));
            }
        }
        let _ = std::fs::remove_dir_all(&dir);
        code = code.max(if c == 0 || c == 1 || c == 2 { c } else { 2 });
        ran += 1;
    }
    eprintln!("[tx] {ran} shard process(es) of {per} contexts, worst exit code {code}");
    code
}

pub fn run(args: &Args) -> i32 {
    if args.tier == vbase::Tier::Thorough && args.get_u64("shard", 0) == 0 {
        return run_sharded(args);
    }
    hooks::install_panic_monitor();
    let mk = |id: &str, rule: &str| Report::new(id, "exploration", args, rule);
    let mut c04 = mk("C04", "contexts (generated chains with forks, epoch positions, proposal window offsets) x candidate transactions (valid bases and single-rule violations with thresholds computed from the model for commit position n), each judged alone in a block at n and by the pool at tip n-1, on a directly synchronised node and on a node that reached the context through another delivery order; distinct = (candidate kind, context class, path)");
    let mut c14 = mk("C14", "the same candidate/event sequence on a warm node with default caches and on a node with store caches of size 0 / 1 whose verification cache is cleared before every event; verdicts, recorded fees/cycles/sizes and chain query answers compared; distinct = (candidate kind, cache configuration)");
    let mut rng = Rng::new(args.seed ^ 0xC04);
    let n_ctx = args.get_u64("contexts", args.tier.pick(4, 200));
    let deadline = Instant::now() + Duration::from_secs(args.get_u64("budget_s", args.tier.pick(90, 1100)));
    let mut ci = 0u64;
    let mut done = 0u64;
    let mut system_cell_cache = false;
    while done < n_ctx && ci < n_ctx * 4 {
        ci += 1;
        if Instant::now() > deadline {
            c04.note("stopped_by_budget_after_contexts", json!(done));
            break;
        }
        let mut crng = rng.fork(ci);
        vnode::node::set_time(ChainParams::default().genesis_timestamp + 3_000_000_000);
        let Some(mut s) = setup(ci, &mut crng) else {
            c04.count("contexts_discarded");
            continue;
        };
        done += 1;
        c04.count("contexts");
        let class = format!("p{}.idx{}", ci % 2, s.tg.rc.get(&s.tip).block.epoch().index());
        // nodes: direct order, detour order (side blocks first / shuffled), cold caches
        let direct: Vec<H> = s.tg.order.clone();
        let mut detour: Vec<H> = s.tg.order.clone();
        detour.reverse();
        let Some(n1) = boot_synced(&s, &direct, None) else {
            c04.inconclusive("harness: node did not reach the context tip");
            continue;
        };
        // `ckb run` pre-resolves the genesis system cells into a process-wide cache
        // (SYSTEM_CELL) that the resolver consults first; the first half of the contexts runs
        // without it (as every library user does), the second half with it (as the node does)
        // (a shard child of the thorough tier decides by its seed instead, so that a shard cut
        // short by its time budget still contributes to one of the two halves)
        let shard = args.get_u64("shard", 0) == 1;
        if (if shard { args.seed % 2 == 1 } else { done > n_ctx / 2 }) && !system_cell_cache {
            let _ = ckb_types::core::cell::setup_system_cell_cache(s.gi.consensus.genesis_block(), n1.shared.snapshot().as_ref());
            system_cell_cache = true;
        }
        c14.count(if system_cell_cache { "contexts_with_system_cell_cache" } else { "contexts_without_system_cell_cache" });
        // detour: reverse order makes everything arrive as orphans first, then connect
        let n2 = boot_synced(&s, &detour, None);
        // switch-back: the main chain loses to the side branch and wins again
        let mut boot_hist = |kind: &str, res: Result<Node, Option<String>>, c04: &mut Report| -> Option<Node> {
            match res {
                Ok(n) => Some(n),
                Err(Some(reason)) => {
                    c04.violation(
                        &format!("history_dependence@context_not_reached.{kind}"),
                        format!("a node with history `{kind}` could not reach the context tip although the directly synchronised node accepted every block: {reason}"),
                        json!({"context": ci, "history": kind}),
                    );
                    None
                }
                Err(None) => {
                    c04.count("history_node_pool_sync_timeouts");
                    None
                }
            }
        };
        let n3 = flip_flop_order(&s).and_then(|o| boot_hist("switch_back", boot_synced_seq(&s, &o, None), &mut c04));
        if n3.is_some() {
            c04.count("switch_back_histories");
        }
        // a node that synchronised with two assume-valid targets on the main chain well below the
        // context: scripts were skipped up to the second target and must be run again after it
        let n4 = {
            let main = s.tg.rc.path(&s.tip);
            if main.len() > 22 {
                let t = |i: usize| ckb_types::H256::from_slice(&main[i]).unwrap();
                // the second target is close to the context: the blocks whose fees the probe
                // blocks' cellbases finalise (n - w_far - 1) were imported without scripts
                boot_hist("assume_valid_targets", boot_synced_seq(&s, &direct, Some(vec![t(main.len() - 15), t(main.len() - 6)])), &mut c04)
            } else {
                None
            }
        };
        if n4.is_some() {
            c04.count("assume_valid_histories");
        }
        let cache_cfg = if ci % 2 == 0 { 0 } else { 1 };
        let cold = boot_synced_ex(
            &s,
            &direct,
            Some(StoreConfig {
                header_cache_size: cache_cfg,
                cell_data_cache_size: cache_cfg,
                block_proposals_cache_size: cache_cfg,
                block_tx_hashes_cache_size: cache_cfg,
                block_uncles_cache_size: cache_cfg,
                block_extensions_cache_size: cache_cfg,
                freezer_enable: false,
            }),
        );
        // the same blocks in the same order brought the node with default caches to the context
        let cold = match cold {
            Ok(n) => Some(n),
            Err((why, definitive)) => {
                let panics = hooks::take_panics();
                c14.eval();
                if definitive || !panics.is_empty() {
                    let p = panics.first().map(|p| format!("; thread '{}' panicked at {}: {}", p.thread, p.location, p.message)).unwrap_or_default();
                    c14.violation(
                        &format!("node_with_cache_size_{cache_cfg}_does_not_reach_the_context"),
                        format!("the blocks that brought the node with default store caches to the context tip do not bring a node whose store caches have size {cache_cfg} there: {why}{p}"),
                        json!({"context": ci, "cache_size": cache_cfg}),
                    );
                } else {
                    c14.count("cold_nodes_not_booted_in_time");
                }
                None
            }
        };
        let mut vec1: BTreeMap<&'static str, (Option<bool>, bool)> = BTreeMap::new();
        let mut ext1s: BTreeMap<&'static str, Option<String>> = BTreeMap::new();
        for c in &s.cands {
            let wit = json!({"context": ci, "candidate": c.name, "tx": vbase::hex(c.tx.hash().as_slice()), "commit_position": s.tg.rc.get(&s.tip).number + 1, "epoch_of_tip": format!("{}", s.tg.rc.get(&s.tip).block.epoch())});
            let v1 = verdicts(&s, &n1, c, false);
            let (pool, accepted, ext1) = (v1.pool, v1.accepted, v1.ext.clone());
            let refused1 = v1.refused_answers.clone();
            let gone1 = v1.gone_cell_answers.clone();
            let attached1 = v1.attached_answers.clone();
            vec1.insert(c.name, (pool, accepted));
            ext1s.insert(c.name, ext1.clone());
            if v1.passed_tx_rules && !c.valid {
                c04.violation(
                    &format!("block_path.invalid_tx_passed_every_tx_rule@{}", c.name),
                    format!("candidate `{}` is invalid by construction and the harness could not even resolve it, yet the node refused the block only because of its dao field (computed for the empty block): resolution and every transaction rule let it pass", c.name),
                    wit.clone(),
                );
            }
            c04.eval();
            c04.count(&format!("candidates.{}", c.name));
            c04.distinct_str(&format!("{}|{}|block", c.name, class));
            if accepted != c.valid && c.name.contains("system_dep_group") {
                c14.violation(
                    &format!("system_cell_cache_changes_verdict@{}", c.name),
                    format!("candidate `{}`: resolution through the pre-resolved system-cell cache gives {} where counting every expanded dep (what the uncached path does) gives {}", c.name, if accepted { "accepted" } else { "refused" }, if c.valid { "accepted" } else { "refused" }),
                    wit.clone(),
                );
            }
            if accepted != c.valid {
                c04.violation(
                    &format!("block_path.{}@{}", if accepted { "invalid_tx_accepted" } else { "valid_tx_rejected" }, c.name),
                    format!("candidate `{}` expected {} when committed at position {} but the block was {}", c.name, if c.valid { "valid" } else { "invalid" }, s.tg.rc.get(&s.tip).number + 1, if accepted { "attached" } else { "refused" }),
                    wit.clone(),
                );
            }
            if let (Some(want), Some(got)) = (c.pool, pool) {
                c04.eval();
                c04.distinct_str(&format!("{}|{}|pool", c.name, class));
                if want != got {
                    c04.violation(
                        &format!("pool_path.{}@{}", if got { "invalid_tx_accepted" } else { "valid_tx_rejected" }, c.name),
                        format!("candidate `{}`: test_accept_tx answered {} at tip {}", c.name, got, s.tg.rc.get(&s.tip).number),
                        wit.clone(),
                    );
                }
            }
            // soundness in any case: what the pool accepts must be valid in a block at n
            if pool == Some(true) && !c.valid && c.pre.is_empty() {
                c04.violation(&format!("pool_path.accepts_tx_invalid_in_next_block@{}", c.name), "pool accepted a transaction that is invalid at the earliest commit position".into(), wit.clone());
            }
            // history independence
            if let Some(n2) = &n2 {
                let v2 = verdicts(&s, n2, c, false);
                let (p2, a2) = (v2.pool, v2.accepted);
                c04.eval();
                c04.count("history_independence_checks");
                if (p2, a2) != (pool, accepted) {
                    c04.violation(&format!("history_dependence@{}", c.name), format!("verdict (pool, block) = {:?} on the directly synchronised node but {:?} on the node that took a detour", (pool, accepted), (p2, a2)), wit.clone());
                }
            }
            if let Some(n3) = &n3 {
                let v3 = verdicts(&s, n3, c, false);
                c04.eval();
                c04.count("history_independence_checks");
                if (v3.pool, v3.accepted) != (pool, accepted) {
                    c04.violation(&format!("history_dependence@{}", c.name), format!("verdict (pool, block) = {:?} on the directly synchronised node but {:?} on the node whose main chain lost to a side branch and won again", (pool, accepted), (v3.pool, v3.accepted)), wit.clone());
                }
            }
            if let Some(n4) = &n4 {
                let v4 = verdicts(&s, n4, c, false);
                c04.eval();
                c04.count("history_independence_checks");
                if (v4.pool, v4.accepted) != (pool, accepted) {
                    c04.violation(&format!("history_dependence@{}", c.name), format!("verdict (pool, block) = {:?} on the directly synchronised node but {:?} on the node that synchronised through two assume-valid targets (both reached long before this context)", (pool, accepted), (v4.pool, v4.accepted)), wit.clone());
                }
            }
            // C14: cold caches, verification cache cleared before every event
            if let Some(cold) = &cold {
                let v3 = verdicts(&s, cold, c, true);
                let (p3, a3, ext3) = (v3.pool, v3.accepted, v3.ext.clone());
                c14.eval();
                c14.count("events_compared");
                c14.distinct_str(&format!("{}|cache{}", c.name, cache_cfg));
                if (p3, a3) != (pool, accepted) {
                    c14.violation(&format!("verdict_differs_with_cold_caches@{}", c.name), format!("warm node (pool, block) = {:?}, cold node {:?}", (pool, accepted), (p3, a3)), wit.clone());
                }
                if ext1 != ext3 {
                    c14.violation(&format!("recorded_fees_cycles_sizes_differ@{}", c.name), format!("warm {:?} cold {:?}", ext1, ext3), wit.clone());
                }
                // a refused probe block is deleted from the store: what the store says about its
                // hash afterwards must not depend on the read caches
                if let (Some(a), Some(b)) = (&refused1, &v3.refused_answers) {
                    c14.eval();
                    c14.count("deleted_block_answers_compared");
                    if a != b {
                        c14.violation("answer_differs_with_cold_caches.deleted_invalid_block", format!("store answers about the hash of a block refused and deleted as invalid (`{}`): warm caches {a}; cache size {cache_cfg}: {b}", c.name), wit.clone());
                    }
                }
                // a probe block whose hash was asked about before it arrived
                if let Some((a, ok)) = &attached1 {
                    c14.eval();
                    c14.count("attached_block_answers_checked");
                    if !ok {
                        c14.violation("answer_wrong_after_early_query.attached_block", format!("the store was asked about the hash of the probe block of `{}` before the block arrived; while the block is the tip it answers {a} (block has {} transactions, extension of {:?} bytes)", c.name, 1 + c.pre.len() + 1, "32+"), wit.clone());
                    }
                    if let Some((b, _)) = &v3.attached_answers {
                        if a != b {
                            c14.violation("answer_differs_with_cold_caches.attached_block_queried_early", format!("store answers about the attached probe block of `{}` (its hash was queried once before it arrived): warm caches {a}; cache size {cache_cfg}: {b}", c.name), wit.clone());
                        }
                    }
                }
                // a probe block that was attached and truncated away again: its cells are gone
                if let (Some(a), Some(b)) = (&gone1, &v3.gone_cell_answers) {
                    c14.eval();
                    c14.count("gone_cell_answers_compared");
                    if a != b {
                        c14.violation("answer_differs_with_cold_caches.cell_of_truncated_block", format!("store answers about output 0 of `{}` after its block was truncated away (the cell data had been read once while the cell was live): warm caches {a}; cache size {cache_cfg}: {b}", c.name), wit.clone());
                    }
                }
                // second pass on the WARM node: the verification cache is hot now (the tx has
                // been verified by test_accept and by the block): verdict must not change
                let v1b = verdicts(&s, &n1, c, false);
                let (p1b, a1b, ext1b) = (v1b.pool, v1b.accepted, v1b.ext);
                c14.eval();
                if (p1b, a1b) != (pool, accepted) || (accepted && ext1b != ext1) {
                    c14.violation(&format!("verdict_differs_on_cache_hit@{}", c.name), format!("first {:?} {:?}, repeated {:?} {:?}", (pool, accepted), ext1, (p1b, a1b), ext1b), wit.clone());
                }
            }
        }
        // C14: same tx hash with a different (corrupted) witness after the valid one was cached
        if let Some(sc) = s.cands.iter().find(|c| c.name == "valid.secp256k1_signed") {
            let bad = s.cands.iter().find(|c| c.name == "script.secp256k1_corrupted_signature");
            if let Some(bad) = bad {
                // warm the cache with the valid one through the pool, then the bad twin in a block
                let _ = n1.shared.tx_pool_controller().test_accept_tx(sc.tx.clone());
                let a = verdicts(&s, &n1, bad, false).accepted;
                c14.eval();
                c14.count("same_tx_hash_different_witness_events");
                if a {
                    c14.violation("cached_result_reused_for_different_witness", "a block carrying the transaction with a corrupted signature was attached after the valid twin had been verified".into(), json!({"context": ci}));
                }
            }
        }
        // C14: chain answers of warm vs cold node
        if let Some(cold) = &cold {
            let q = json!({
                "blocks": s.tg.order.iter().map(|x| json!([vbase::hex(x), true])).collect::<Vec<_>>(),
                "txs": s.tg.rc.replay(&s.tip).tx_info.keys().map(|t| vbase::hex(t)).collect::<Vec<_>>(),
                "main": s.tg.rc.replay(&s.tip).chain.iter().map(|x| vbase::hex(x)).collect::<Vec<_>>(),
                "cells": s.tg.rc.replay(&s.tip).cells.keys().take(60).map(|k| json!([vbase::hex(&k.0), k.1])).collect::<Vec<_>>(),
            });
            let a1 = super::freeze::node_answers_pub(n1.shared.store(), &q);
            let a3 = super::freeze::node_answers_pub(cold.shared.store(), &q);
            c14.eval();
            c14.count("answer_vectors_compared");
            for (k, v) in &a1 {
                if a3.get(k) != Some(v) {
                    let kind = k.split('|').next().unwrap_or("?");
                    c14.violation(&format!("answer_differs_with_cold_caches.{kind}"), format!("query {k}: warm {v}, cold {:?}", a3.get(k)), json!({"context": ci}));
                }
            }
        }
        // C14: a result obtained with script execution switched off must not be served from the
        // verification cache once scripts are verified again. A node P synchronises to the context
        // with one assume-valid target T = probe block X1b (so every block before T is imported
        // with Switch::DISABLE_SCRIPT). P imports probe block X1 = [cellbase, pre.., tx] (a sibling
        // of X1b, not an ancestor of the target: nothing vouches for it) -- scripts skipped; P is
        // truncated back to the context tip; P imports X1b = [cellbase', pre.., tx]: the target is
        // reached, full verification is on for X1b itself. A twin P' goes through the same events
        // with its verification cache cleared before X1b. Verdict and recorded cycles of X1b must be
        // the same on P, on P' and on the directly synchronised node.
        {
            let chosen = ["valid.secp256k1_signed", "script.always_failure_lock", "script.secp256k1_corrupted_signature", "script.always_failure_output_type", "valid.since_abs_block_at_threshold"];
            let which: Vec<&Cand> = s.cands.iter().filter(|c| chosen.contains(&c.name) && c.pre.is_empty()).collect();
            // two per context (rotating), both twins each
            for (k, c) in which.iter().enumerate() {
                if (k as u64 + ci) % 2 != 0 && which.len() > 2 {
                    continue;
                }
                let Some((_, accepted1)) = vec1.get(c.name).copied() else { continue };
                let ext1 = ext1s.get(c.name).cloned().flatten();
                let probe: Vec<TransactionView> = std::iter::once(c.tx.clone()).chain(tail_for(&s, c).cloned()).collect();
                let (x1, _) = block_with(&s, &probe);
                let (x1b, _) = block_with(&s, &probe);
                let target: ckb_types::H256 = x1b.hash().unpack();
                let mut outcome: Vec<(bool, bool, Option<String>)> = vec![]; // (x1 accepted, x1b accepted, ext of x1b)
                for clear in [false, true] {
                    let Ok(p) = boot_synced_seq(&s, &direct, Some(vec![target.clone()])) else { break };
                    let r1 = p.chain().blocking_process_block(Arc::new(x1.clone()));
                    let a1 = matches!(r1, Ok(true)) && h(&p.tip_hash()) == h(&x1.hash());
                    if a1 {
                        wait_pool_tip(&p, &h(&p.tip_hash()));
                        let _ = p.chain().truncate(packed::Byte32::from_slice(&s.tip).unwrap());
                        let _ = p.shared.tx_pool_controller().clear_pool(p.shared.cloned_snapshot());
                        wait_pool_tip(&p, &s.tip);
                    }
                    if clear {
                        clear_verify_cache(&p);
                    }
                    let r2 = p.chain().blocking_process_block(Arc::new(x1b.clone()));
                    let a2 = matches!(r2, Ok(true)) && h(&p.tip_hash()) == h(&x1b.hash());
                    let e2 = if a2 { p.shared.store().get_block_ext(&x1b.hash()).map(|e| format!("fees={:?} cycles={:?} sizes={:?}", e.txs_fees, e.cycles, e.txs_sizes)) } else { None };
                    outcome.push((a1, a2, e2));
                }
                if outcome.len() < 2 {
                    c14.count("script_skip_episodes_not_booted");
                    continue;
                }
                c14.eval();
                c04.eval();
                c04.count("history_independence_checks");
                c14.count("script_skip_then_full_verification_events");
                if outcome[0].0 {
                    c14.count("script_skip_probe_imported_without_scripts");
                }
                c14.distinct_str(&format!("{}|script_skip", c.name));
                let wit = json!({"context": ci, "candidate": c.name, "tx": vbase::hex(c.tx.hash().as_slice()), "x1": vbase::hex(x1.hash().as_slice()), "x1b_assume_valid_target": vbase::hex(x1b.hash().as_slice()),
                    "warm (x1 imported, x1b attached, ext)": format!("{:?}", outcome[0]), "cache cleared before x1b": format!("{:?}", outcome[1]), "directly synchronised node": format!("{:?}", (accepted1, &ext1))});
                if outcome[0].1 != outcome[1].1 || outcome[0].1 != accepted1 {
                    c14.violation(
                        &format!("script_skipped_result_served_from_cache.verdict@{}", c.name),
                        format!("`{}` in the assume-valid target block (verified with scripts on): attached={} on the node that had imported a sibling block with the same transaction while scripts were off, attached={} with the verification cache cleared in between, attached={} on a directly synchronised node", c.name, outcome[0].1, outcome[1].1, accepted1),
                        wit.clone(),
                    );
                    // the same block gets different verdicts depending on what the node imported
                    // before: history dependence in the sense of C04
                    c04.violation(
                        &format!("history_dependence@{}.after_a_sibling_block_was_imported_with_scripts_off", c.name),
                        format!("`{}` committed in a fully verified block: attached={} on a node that had imported a sibling block with the same transaction below an assume-valid target, attached={} on a directly synchronised node", c.name, outcome[0].1, accepted1),
                        wit.clone(),
                    );
                } else if outcome[0].1 && (outcome[0].2 != outcome[1].2 || (ext1.is_some() && outcome[0].2 != ext1)) {
                    c14.violation(
                        &format!("script_skipped_result_served_from_cache.recorded_cycles@{}", c.name),
                        format!("`{}`: block ext of the assume-valid target block: {:?} after the sibling was imported with scripts off, {:?} with the cache cleared in between, {:?} for the same body on a directly synchronised node", c.name, outcome[0].2, outcome[1].2, ext1),
                        wit.clone(),
                    );
                }
            }
        }
        // C14: commit-position shift. Every candidate has been verified (and cached) on the warm
        // node as valid for position n; the same transactions offered one block earlier (position
        // n-1, still inside the proposal window) do not meet their since / maturity condition and
        // must be refused although their script result is cached. Last use of n1 and the builder.
        {
            let parent = s.tg.rc.get(&s.tip).parent;
            let shifted: Vec<&Cand> = s.cands.iter().filter(|c| matches!(c.name, "valid.since_abs_block_at_threshold" | "valid.since_rel_block_at_threshold" | "valid.since_abs_epoch_at_threshold" | "valid.since_rel_epoch_at_threshold" | "valid.cellbase_exactly_mature" | "valid.since_second_input_at_threshold_after_zero_since_input")).collect();
            if !shifted.is_empty() && vec1.iter().filter(|(k, _)| shifted.iter().any(|c| c.name == **k)).all(|(_, v)| v.1) {
                for c in &shifted {
                    let _ = n1.shared.tx_pool_controller().test_accept_tx(c.tx.clone());
                }
                s.tg.goto(&parent);
                let pb = packed::Byte32::from_slice(&parent).unwrap();
                if n1.chain().truncate(pb.clone()).is_ok() {
                    let _ = n1.shared.tx_pool_controller().clear_pool(n1.shared.cloned_snapshot());
                    for c in &shifted {
                        let (blk, _) = block_with(&s, std::slice::from_ref(&c.tx));
                        let res = n1.chain().blocking_process_block(Arc::new(blk.clone()));
                        let accepted = matches!(res, Ok(true)) && h(&n1.tip_hash()) == h(&blk.hash());
                        c14.eval();
                        c14.count("commit_position_shift_events");
                        c14.distinct_str(&format!("{}|shifted", c.name));
                        if accepted {
                            c14.violation(
                                &format!("context_dependent_check_skipped_after_caching@{}", c.name),
                                format!("`{}` was verified and cached as valid for commit position {}; offered at position {} (condition not met) the block was attached", c.name, s.tg.rc.get(&s.tip).number + 1, s.tg.rc.get(&s.tip).number),
                                json!({"context": ci, "candidate": c.name}),
                            );
                            // the same block is invalid for any node that did not verify the
                            // transaction before: the verdict depends on the node's history
                            c04.violation(
                                &format!("history_dependence@{}.one_block_early_after_it_was_verified_for_a_later_position", c.name),
                                format!("`{}` offered at commit position {} (its since / maturity condition is not met there) was attached by a node that had verified it for position {} before", c.name, s.tg.rc.get(&s.tip).number, s.tg.rc.get(&s.tip).number + 1),
                                json!({"context": ci, "candidate": c.name}),
                            );
                            let _ = n1.chain().truncate(pb.clone());
                        }
                        c04.eval();
                        c04.count("history_independence_checks");
                    }
                }
            }
        }
        if c04.samples.len() < 3 {
            c04.sample(json!({"context": ci, "params": format!("{:?}", s.params.epoch), "tip": format!("{}#{}", hx(&s.tip), s.tg.rc.get(&s.tip).number), "candidates": s.cands.len(), "verdicts(pool,block)": vec1.iter().map(|(k, v)| format!("{k}: {:?}", v)).collect::<Vec<_>>()}));
        }
        if c14.samples.len() < 3 {
            c14.sample(json!({"context": ci, "cold_cache_sizes": cache_cfg, "candidates": s.cands.len()}));
        }
        for p in hooks::take_panics() {
            c04.violation(&format!("node_thread_panicked@{}:{}", p.thread, p.message.chars().take(60).collect::<String>()), format!("{} at {}", p.message, p.location), json!({"context": ci}));
        }
    }
    c04.require("contexts", 1);
    c04.require("history_independence_checks", 10);
    c14.require("events_compared", 10);
    c14.require("answer_vectors_compared", 1);
    c14.require("script_skip_then_full_verification_events", 2);
    c14.require("script_skip_probe_imported_without_scripts", 1);
    if n_ctx >= 4 && args.get_u64("shard", 0) == 0 {
        c14.require("contexts_with_system_cell_cache", 1);
        c14.require("contexts_without_system_cell_cache", 1);
    }
    c04.assume("expected verdicts come from construction: thresholds (block numbers, epochs, header timestamps, past medians, cellbase positions) are read from the RefChain model; scripts are the bundled always_success / always_failure / secp256k1 binaries");
    c04.assume("pool path: only candidates whose verdict does not depend on the pool's conservative commit-position estimate or fee policy carry an expectation; soundness (accepted => valid at n) is checked for all");
    c14.assume("lru capacity 0 disables a cache (measured in DESIGN section 9)");
    let mut code = 0;
    if args.wants("C04") {
        code = code.max(c04.finish(None));
    }
    if args.wants("C14") {
        code = code.max(c14.finish(None));
    }
    code
}

#[allow(dead_code)]
fn unused(_: &State, _: ScriptHashType) {}
