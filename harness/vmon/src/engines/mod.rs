pub mod chain;
