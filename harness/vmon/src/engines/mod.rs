pub mod chain;
pub mod crash;
pub mod pool;
