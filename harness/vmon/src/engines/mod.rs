pub mod chain;
pub mod pool;
