pub mod chain;
pub mod crash;
pub mod freeze;
pub mod pool;
pub mod rules;
pub mod tx;
