//! Engine `pool`: C11 (pool contents/bookkeeping mutually consistent), C12 (pool agrees with
//! the chain after any tip change), C13 (every block template is acceptable to the node).
//!
//! A real node N (tx-pool service, block assembler, chain service) is driven through random
//! operation sequences: submissions over random tx DAGs (chains, shared cell deps, header
//! deps), conflicting submissions (RBF on/off), removals, expiry by virtual time, size-limit
//! eviction, blocks and reorganisations built by a second node B ("the rest of the network")
//! that propose / commit / conflict with pooled transactions, and mining of N's own templates.
//! After every operation the pool is dumped (hook H5, under the pool's own lock) and judged by
//! recomputation; after every tip change it is judged against RefChain.
//!
//! Besides the random mix every session runs directed scenarios (built from the same operations,
//! judged by the same oracles) for histories the mix reaches too rarely:
//! * `op_dep_spend`: pooled B has a cell dep on a cell that pooled A spends; a block (extension or
//!   competing branch) commits A only;
//! * `op_race`: a submission is parked (gate at hook point `pool::before_submit_lock`, after its
//!   verification, before the pool lock) while a block arrives that spends one of its inputs /
//!   a cell it depends on / commits the transaction itself; the pool processes the tip change,
//!   then the submission is released;
//! * sessions with a small consensus `max_block_bytes` (`op_late_fill`: transactions proposed on
//!   chain first reach the pool late and fill the template, then an uncle candidate / fresh
//!   proposals arrive) and with a small `max_block_cycles` (`op_cpfp`: child-pays-for-parent
//!   chain next to independent high-fee-rate transactions); every template is sealed and verified;
//! * `op_rbf_equal`: several pooled transactions paying exactly the same fee (unrelated ones, a
//!   parent and its child, a diamond) are replaced by one transaction whose fee is aimed at the
//!   replacement threshold and at distances below it up to one whole replaced fee;
//! * `op_readd_family`: D is committed, a dep user P and a spender S of D's output are pooled, a
//!   competing branch without D makes the pool take D back *below* P and S, then the new branch
//!   commits a double spend of D (D and its whole family must leave the pool).

use ckb_app_config::TxPoolConfig;
use ckb_types::core::{BlockView, FeeRate, TransactionView};
use ckb_types::packed::{self, CellDep, OutPoint, ProposalShortId};
use ckb_types::prelude::*;
use ckb_tx_pool::verif::{VerifEntry, VerifPoolDump};
use serde_json::json;
use std::collections::{BTreeSet, HashMap, HashSet};
use std::sync::atomic::{AtomicU64, Ordering};
use std::time::{Duration, Instant};
use vbase::{Args, Report, Rng};
use vnode::builder::{self, OutSpec};
use vnode::consensus::{self, ChainParams, EpochMode, GenesisInfo};
use vnode::hooks;
use vnode::model::{H, RefChain, h, hx};
use vnode::node::{Node, NodeCfg};
use vnode::treegen::{TreeCfg, TreeGen};
use vnode::verify::full_verify_noncommit;

pub struct Reports {
    pub c11: Report,
    pub c12: Report,
    pub c13: Report,
    /// C20, pool-side clauses: the ids the chain reports to the pool as dropped, and the proposal
    /// view of a node that runs a tx-pool / block assembler
    pub c20: Report,
}

/// Consensus flavour of a session. `SmallBytes`: `max_block_bytes` holds only a handful of
/// transactions (template size bookkeeping is exercised at the limit); `SmallCycles`:
/// `max_block_cycles` is 2.5 or 3.5 times the cycles of one single-group transaction (package
/// selection is exercised at the cycle limit).
#[derive(Clone, Copy, PartialEq, Eq, Debug)]
enum Flavor {
    Plain,
    SmallBytes,
    SmallCycles,
    /// epoch rewards so small that no finalised block reward can fund the assembler's cell:
    /// every template's cellbase must stay without outputs
    TinyReward,
}

/// Cycles of one transaction with a single always_success input group, as reported by the pool
/// (measured on the first such entry seen in this process; 0 = not seen yet).
static UNIT_CYCLES: AtomicU64 = AtomicU64::new(0);
/// Number of dumped pool entries (this process) whose ancestor aggregates had size 0 and cycles 0,
/// i.e. an ancestor weight of zero: with such keys `AncestorsScoreSortKey::cmp` is not transitive
/// (a 0/0 fee rate compares equal to every rate), which is the precondition of the listed
/// `invalid key` panic of the pool's multi-index map.
static ZERO_ANCESTOR_WEIGHT_SEEN: AtomicU64 = AtomicU64::new(0);
/// Value used before the first measurement (always_success in this tree).
const UNIT_CYCLES_DEFAULT: u64 = 539;

/// C13, transient templates: a thread of the harness polls `get_block_template` all the time
/// (fast while the engine has flagged a tip change in progress) and keeps every template with a
/// work id it has not seen. The templates are judged at the next quiescent point: one whose parent
/// is the node's tip goes through the same verification as a template taken at quiescence (the
/// validity of a block on its parent does not depend on when the template was handed out), one
/// on a superseded parent is judged against the model's proposal window of that parent.
struct Sampler {
    stop: std::sync::Arc<std::sync::atomic::AtomicBool>,
    hot: std::sync::Arc<std::sync::atomic::AtomicBool>,
    buf: std::sync::Arc<std::sync::Mutex<Vec<(bool, ckb_jsonrpc_types::BlockTemplate)>>>,
    polls: std::sync::Arc<AtomicU64>,
    th: Option<std::thread::JoinHandle<()>>,
}

impl Sampler {
    fn start(ctl: ckb_tx_pool::TxPoolController) -> Sampler {
        use std::sync::atomic::AtomicBool;
        let stop = std::sync::Arc::new(AtomicBool::new(false));
        let hot = std::sync::Arc::new(AtomicBool::new(false));
        let buf: std::sync::Arc<std::sync::Mutex<Vec<(bool, ckb_jsonrpc_types::BlockTemplate)>>> = Default::default();
        let polls = std::sync::Arc::new(AtomicU64::new(0));
        let (stop2, hot2, buf2, polls2) = (stop.clone(), hot.clone(), buf.clone(), polls.clone());
        let th = std::thread::Builder::new()
            .name("verif-template-sampler".into())
            .spawn(move || {
                let mut last: Option<u64> = None;
                while !stop2.load(Ordering::SeqCst) {
                    let is_hot = hot2.load(Ordering::SeqCst);
                    if let Ok(Ok(t)) = ctl.get_block_template(None, None, None) {
                        polls2.fetch_add(1, Ordering::Relaxed);
                        let w: u64 = t.work_id.into();
                        if last != Some(w) {
                            last = Some(w);
                            let mut b = buf2.lock().unwrap();
                            if b.len() >= 48 {
                                // keep the ones taken inside a tip change; drop the oldest other one
                                if let Some(i) = b.iter().position(|x| !x.0) {
                                    b.remove(i);
                                } else {
                                    b.remove(0);
                                }
                            }
                            b.push((is_hot, t));
                        }
                    }
                    std::thread::sleep(Duration::from_micros(if is_hot { 60 } else { 1_500 }));
                }
            })
            .expect("spawn sampler");
        Sampler { stop, hot, buf, polls, th: Some(th) }
    }
    fn set_hot(&self, on: bool) {
        self.hot.store(on, Ordering::SeqCst);
    }
    fn take(&self) -> Vec<(bool, ckb_jsonrpc_types::BlockTemplate)> {
        std::mem::take(&mut *self.buf.lock().unwrap())
    }
}

impl Drop for Sampler {
    fn drop(&mut self) {
        self.stop.store(true, Ordering::SeqCst);
        if let Some(t) = self.th.take() {
            let _ = t.join();
        }
    }
}

struct PoolCfg {
    rbf: bool,
    max_pool_bytes: usize,
    max_ancestors: usize,
    expiry_hours: u8,
}

struct Sess {
    gi: GenesisInfo,
    tg: TreeGen,
    n: Node,
    known: HashMap<ProposalShortId, TransactionView>,
    rng: Rng,
    pcfg: PoolCfg,
    now: u64,
    salt: u64,
    ops: Vec<String>,
    /// tip of N at the previous quiescent point
    last_tip: H,
    min_fee_rate: u64,
    min_rbf_rate: u64,
    /// pending time jump to apply to the next block's timestamp
    catch_up_ts: Option<u64>,
    /// summary of the dump being checked (for witnesses)
    dump_summary: Vec<String>,
    /// dump index at which each currently pooled id was first seen (continuously pooled since)
    first_seen: HashMap<ProposalShortId, u64>,
    dump_no: u64,
    /// ids whose family (ancestors/descendants) once contained a transaction inserted after one
    /// of its pooled descendants (sticky while pooled)
    tainted: HashSet<ProposalShortId>,
    /// ids whose family contained a transaction that was committed (left the pool) before one
    /// of its pooled ancestors, while descendants stayed pooled (sticky while pooled)
    tainted_mid: HashSet<ProposalShortId>,
    /// cause recorded when a pooled entry was first seen with a missing input/dep creator
    /// (the condition persists over later tip changes)
    dead_cause: HashMap<(ProposalShortId, H), &'static str>,
    flavor: Flavor,
    /// consensus limits of this session
    max_block_bytes: u64,
    max_block_cycles: u64,
    /// independent random stream for the directed scenarios
    xrng: Rng,
    /// work id of the last template that was verified (templates are re-verified only when the
    /// assembler produced a new one)
    last_work_id: Option<u64>,
    /// per transaction id: the largest understatement (size, cycles) of the pool's ancestor
    /// aggregates against the recomputation over its links seen in any dump since the pool's
    /// snapshot tip became `understated_tip`, and whether the entry was in a tainted family (known
    /// C11 causes) every time. The block assembler selects packages from some pool state since the
    /// last tip change; every such state has been dumped.
    understated: HashMap<ProposalShortId, (u64, u64, bool)>,
    understated_tip: H,
    /// set by `quiesce` when it gives up although the pool has already processed the
    /// notification that names the chain tip (its snapshot is behind for good)
    stuck: std::cell::RefCell<Option<String>>,
    /// templates caught in passing (see `Sampler`)
    sampler: Sampler,
    /// label of the operation in progress (for the witnesses of sampled templates)
    cur_op: &'static str,
}

fn set_default_delay_plan(seed: u64) {
    let mut points = std::collections::BTreeMap::new();
    points.insert("pool::before_reorg_lock", (250u64, 2_500u64));
    points.insert("assembler::after_prepare_uncles", (300u64, 2_000u64));
    // hook H4c: a small share of all snapshot loads (submissions, template updates, reorg handling)
    points.insert("shared::after_snapshot_load", (20u64, 150u64));
    hooks::set_plan(hooks::DelayPlan { points, seed });
}

fn id_hex(id: &ProposalShortId) -> String {
    vbase::hex(id.as_slice())
}

fn op_key(op: &OutPoint) -> (H, u32) {
    let i: u32 = op.index().into();
    (h(&op.tx_hash()), i)
}

/// Thorough tier: the per-session nodes (tx-pool services, RAM-backed databases) cannot be torn
/// down inside a process, so the sessions are spread over child processes whose shard evidence
/// the driver merges (`<ID>.part-<k>.json`).
fn run_sharded(args: &Args) -> i32 {
    let total = args.get_u64("sessions", 200);
    let per = 40u64;
    let shards = total.div_ceil(per);
    let out = std::env::var("VERIF_OUT_DIR").map(std::path::PathBuf::from).unwrap_or_else(|_| vbase::verif_root().join("evidence"));
    let exe = std::env::current_exe().expect("current exe");
    let deadline = Instant::now() + Duration::from_secs(args.get_u64("budget_s", 1200));
    let mut code = 0;
    let mut ran = 0;
    for k in 0..shards {
        if Instant::now() > deadline {
            break;
        }
        let dir = out.join(format!("pool-shard-{k}"));
        let _ = std::fs::create_dir_all(&dir);
        let status = std::process::Command::new(&exe)
            .arg("pool")
            .arg("--seed").arg((args.seed.wrapping_mul(1000) + k).to_string())
            .arg("--tier").arg("thorough")
            .arg("--props").arg(args.props.join(","))
            .arg(format!("sessions={per}"))
            .arg("shard=1")
            .arg("budget_s=300")
            .env("VERIF_OUT_DIR", &dir)
            .status();
        let c = match status {
            Ok(st) => st.code().unwrap_or(2),
            Err(_) => 2,
        };
        for id in ["C11", "C12", "C13", "C20"] {
            let f = dir.join(format!("{id}.json"));
            if f.exists() {
                let _ = std::fs::rename(&f, out.join(format!("{id}.part-{k}.json")));
            }
        }
        let _ = std::fs::remove_dir_all(&dir);
        code = code.max(if c == 0 || c == 1 || c == 2 { c } else { 2 });
        ran += 1;
    }
    eprintln!("[pool] {ran} shard process(es) of {per} sessions, worst exit code {code}");
    code
}

pub fn run(args: &Args) -> i32 {
    if args.tier == vbase::Tier::Thorough && args.get_u64("shard", 0) == 0 {
        return run_sharded(args);
    }
    hooks::install();
    hooks::install_panic_monitor();
    // seeded delays right before the pool takes its write lock for a reorg notification: the
    // notifications of blocks delivered back to back are in flight together
    {
        let mut points = std::collections::BTreeMap::new();
        points.insert("pool::before_reorg_lock", (250u64, 2_500u64));
        points.insert("assembler::after_prepare_uncles", (300u64, 2_000u64));
        points.insert("shared::after_snapshot_load", (20u64, 150u64));
        hooks::set_plan(hooks::DelayPlan { points, seed: args.seed ^ 0x9e37 });
    }
    let mk = |id: &str, rule: &str| Report::new(id, "exploration", args, rule);
    let mut r = Reports {
        c11: mk("C11", "random pool operation sequences on a real tx-pool service (submit over tx DAGs, RBF, remove, expire, size eviction, blocks, reorgs, template mining); after every operation the dump of the pool (taken under its lock) is judged by recomputation; distinct = pool link-graph shapes (sorted (status, #parents, #children, ancestors_count) tuples) seen at check time"),
        c12: mk("C12", "after every tip change (extension or reorg of depth 1..w_far+3) and pool quiescence the pool is compared with the RefChain main chain (committed / dead / unknown inputs, header deps, re-add completeness via test_accept_tx, stage vs proposal window, reorg notification log); directed histories: dep user pooled while the pooled spender of the dep cell is committed, submissions parked before the pool lock across a tip change that kills their input / dep / commits them; distinct = (fork depth, attached, pool size, stage histogram)"),
        c13: mk("C13", "block templates requested after every operation (and by a poller racing with updates) are sealed and run through the node's own full verification (header, block, non-contextual txs, contextual on a dropped store transaction); a fraction is mined on N and on a second node; sessions with a small max_block_bytes (templates filled late by already-proposed transactions, then uncle candidates / new proposals) and with max_block_cycles of 2.5 / 3.5 transactions (child-pays-for-parent packages next to independent transactions); distinct = (tip, #txs, #proposals, #uncles, epoch position)"),
        c20: mk("C20", "on a node with tx-pool and block assembler: at every tip change the ids the chain service reports to the pool as dropped (hook H5 notification log) must be exactly set(old tip) minus set(new tip) of the model window, one notification per published tip, and the proposal view of the published snapshot must equal the model window; distinct = (old tip, new tip, #dropped)"),
    };
    let mut rng = Rng::new(args.seed ^ 0x9001);
    let sessions = args.get_u64("sessions", args.tier.pick(12, 200));
    let ops = args.get_u64("ops", args.tier.pick(70, 120));
    let deadline = Instant::now() + Duration::from_secs(args.get_u64("budget_s", args.tier.pick(75, 1000)));
    for si in 0..sessions {
        if Instant::now() > deadline {
            r.c11.note("stopped_by_budget_after_sessions", json!(si));
            break;
        }
        let mut srng = rng.fork(si);
        if let Some(only) = args.get_str("only_session") {
            // replay aid: run one session of the sequence (the others only advance the rng)
            if only.parse::<u64>().ok() != Some(si) {
                continue;
            }
        }
        run_session(&mut srng, si, ops, &mut r);
        let panics = hooks::take_panics();
        for p in panics {
            let file = p.location.rsplit('/').next().unwrap_or("").split(':').next().unwrap_or("").to_string();
            // cause (listed finding): the pool's score index was built over keys that are not
            // totally ordered; the harness has seen such keys in this process' dumps
            let zero_w = ZERO_ANCESTOR_WEIGHT_SEEN.load(Ordering::Relaxed);
            let cause = if p.message.contains("invalid key") && file == "pool_map.rs" && zero_w > 0 { "@pool_held_entries_with_zero_ancestor_weight" } else { "" };
            r.c11.violation(
                // worker threads of the node's runtime are numbered (GlobalRt-13): the number is not part of what failed
                &format!("node_thread_panicked@{}:{}:{}", p.thread.trim_end_matches(|c: char| c.is_ascii_digit()).trim_end_matches('-'), file, format!("{}{}", p.message.chars().take(60).collect::<String>(), cause)),
                format!("thread '{}' panicked at {}: {}", p.thread, p.location, p.message),
                json!({"session": si, "in_repo_frames": p.frames, "dumped_entries_with_zero_ancestor_weight_so_far": zero_w}),
            );
        }
    }
    for (k, v) in hooks::hits() {
        if k.starts_with("pool::") {
            r.c12.count_n(&format!("hook.{k}"), v);
        }
    }
    r.c11.require("ops.submit_ok", 5);
    r.c11.require("ops.block", 3);
    r.c11.require("obs.evicted_by_size", 1);
    r.c11.require("obs.links_checked", 10);
    r.c12.require("tip_changes", 3);
    r.c12.require("reorgs", 1);
    r.c12.require("ops.block_burst", 3);
    r.c12.require("obs.readd_candidates", 1);
    r.c12.require("obs.dep_user_pooled_while_pooled_spender_committed", 6);
    r.c12.require("obs.race.submit_held_across_tip_change", 6);
    r.c20.require("obs.dropped_id_reports", 3);
    r.c20.require("obs.dropped_id_reports_nonempty", 1);
    r.c20.require("obs.views_checked", 3);
    r.c13.require("templates_verified", 5);
    r.c13.require("templates_with_txs", 1);
    r.c13.require("obs.late_fill.templates_after_uncle_or_proposal_update", 3);
    r.c13.require("obs.cpfp.templates_at_cycle_limit", 3);
    r.c13.require("obs.uncle_race.uncle_update_parked_across_the_tip_change", 3);
    r.c13.require("obs.window_race.submission_answered_while_pool_behind_chain", 2);
    r.c13.require("sampled.judged_on_the_new_tip_taken_inside_the_tip_change", 10);
    if sessions >= 7 {
        r.c13.require("obs.tiny_reward.templates_with_empty_cellbase", 3);
    }
    r.c13.require("obs.late_fill.uncle_offered_to_filled_template_with_proposals", 1);
    for rep in [&mut r.c11, &mut r.c12, &mut r.c13] {
        rep.assume("pool dump is taken through hook H5 under the pool's write lock; ckb-types is used to read transaction fields");
    }
    r.c12.assume("a submission parked at hook point pool::before_submit_lock (H5) holds no pool lock: the point sits right before with_tx_pool_write_lock in submit_entry; the hold is a gate released by the engine once get_tx_pool_info reports the new tip");
    r.c13.assume("the block assembler digests its update messages asynchronously: after late updates the engine polls until the template's work id is stable for a few polls (bounded) before judging; every template taken is judged whenever it is taken");
    let mut code = 0;
    r.c20.assume("the dropped ids are read from the reorg notification log kept by hook H5 inside the tx-pool service (what update_tx_pool_for_reorg received), the view from Shared::snapshot()");
    for (id, rep) in [("C11", &r.c11), ("C12", &r.c12), ("C13", &r.c13), ("C20", &r.c20)] {
        if args.wants(id) {
            code = code.max(rep.finish(None));
        }
    }
    code
}

fn run_session(rng: &mut Rng, si: u64, n_ops: u64, r: &mut Reports) {
    let mut params = ChainParams::default();
    match si % 3 {
        0 => {
            params.window = (2, 10);
            params.epoch = EpochMode::Permanent { genesis_len: 8, epoch_len: 6 };
        }
        1 => {
            params.window = (1, 3);
            params.epoch = EpochMode::Permanent { genesis_len: 5, epoch_len: 4 };
        }
        _ => {
            params.window = (2, 4);
            params.epoch = EpochMode::Permanent { genesis_len: 30, epoch_len: 30 };
        }
    }
    params.issued_cells = 40;
    // consensus flavour (independent of the window / epoch choice above: 12 combinations)
    let flavor = match si % 4 {
        1 => Flavor::SmallBytes,
        3 => Flavor::SmallCycles,
        _ if si % 8 == 6 => Flavor::TinyReward,
        _ => Flavor::Plain,
    };
    let mut xrng = rng.clone().fork(0x5ce0 + si);
    let unit = match UNIT_CYCLES.load(Ordering::Relaxed) {
        0 => UNIT_CYCLES_DEFAULT,
        u => u,
    };
    match flavor {
        Flavor::Plain => {}
        Flavor::TinyReward => {
            // about 20 CKB of primary and 2 CKB of secondary issuance per block; the assembler's
            // cell (42 bytes) needs 42 CKB; fees in these sessions are a few thousand shannons
            params.primary_epoch_reward_ckb = Some(20 * match params.epoch { EpochMode::Permanent { epoch_len, .. } => epoch_len, _ => 5 });
            params.secondary_epoch_reward_ckb = Some(10);
        }
        Flavor::SmallBytes => {
            // header + cellbase + extension + two uncles + proposals take up to ~1500 bytes; the
            // rest holds three to six small transactions
            params.max_block_bytes = Some(2_400 + xrng.below(800));
            params.issued_cells = 64;
        }
        Flavor::SmallCycles => {
            // 2.5 or 3.5 single-group transactions
            params.max_block_cycles = Some(unit * (5 + 2 * xrng.below(2)) / 2);
            params.issued_cells = 56;
        }
    }
    let gi = consensus::build(&params);
    let max_block_bytes = gi.consensus.max_block_bytes();
    let max_block_cycles = gi.consensus.max_block_cycles();
    // every third session has roomy limits so that policy cannot explain an absent transaction
    let roomy = si % 3 == 2;
    let mut pcfg = PoolCfg {
        rbf: rng.chance(600, 1000),
        max_pool_bytes: if roomy { 10_000_000 } else { 3_000 + rng.usize_below(9_000) },
        max_ancestors: if roomy { 30 } else { 3 + rng.usize_below(6) },
        expiry_hours: 1 + rng.below(3) as u8,
    };
    if flavor == Flavor::SmallBytes && !roomy {
        // the late-fill scenario needs its ten or so small transactions to stay pooled
        pcfg.max_pool_bytes = pcfg.max_pool_bytes.max(8_000);
    }
    let min_fee_rate = 1000u64;
    let min_rbf_rate = if pcfg.rbf { 1500 } else { 1000 };
    let tx_pool_config = TxPoolConfig {
        max_tx_pool_size: pcfg.max_pool_bytes,
        min_fee_rate: FeeRate::from_u64(min_fee_rate),
        min_rbf_rate: FeeRate::from_u64(min_rbf_rate),
        max_ancestors_count: pcfg.max_ancestors,
        expiry_hours: pcfg.expiry_hours,
        ..Default::default()
    };
    let now0 = params.genesis_timestamp + 60_000;
    vnode::node::set_time(now0);
    let mut tcfg = TreeCfg {
        n_blocks: 0,
        invalid: 0,
        max_new_txs: 1,
        conflict_pm: 0,
        uncle_pm: 300,
        ts_step_max: 8_000,
        ..Default::default()
    };
    match flavor {
        Flavor::Plain | Flavor::TinyReward => {}
        Flavor::SmallBytes => {
            // the builder's own blocks must respect the small limit as well
            tcfg.max_commit_bytes = (max_block_bytes as usize).saturating_sub(1_500);
        }
        Flavor::SmallCycles => {
            // only pool-made single-group transactions exist in these sessions
            tcfg.max_new_txs = 0;
            tcfg.max_commits = (max_block_cycles / unit) as usize;
        }
    }
    let tg = TreeGen::new(&gi, tcfg, rng.next_u64());
    let ncfg = NodeCfg {
        tx_pool: Some(tx_pool_config),
        assembler_lock: Some(builder::lock_with_args(&gi, &[0xB1])),
        assembler_update_interval_ms: 0,
        ..Default::default()
    };
    let n = Node::boot(&gi, &ncfg);
    let genesis = tg.rc.genesis;
    let sampler = Sampler::start(n.shared.tx_pool_controller().clone());
    let mut s = Sess {
        gi,
        tg,
        n,
        known: HashMap::new(),
        rng: rng.fork(7),
        pcfg,
        now: now0,
        salt: si << 32,
        ops: vec![],
        last_tip: genesis,
        min_fee_rate,
        min_rbf_rate,
        catch_up_ts: None,
        dump_summary: vec![],
        first_seen: HashMap::new(),
        dump_no: 0,
        tainted: HashSet::new(),
        tainted_mid: HashSet::new(),
        dead_cause: HashMap::new(),
        flavor,
        max_block_bytes,
        max_block_cycles,
        xrng,
        last_work_id: None,
        understated: HashMap::new(),
        understated_tip: genesis,
        stuck: std::cell::RefCell::new(None),
        sampler,
        cur_op: "",
    };
    // warm-up: a few blocks so that rewards / windows exist
    for _ in 0..(3 + s.rng.below(3)) {
        if !s.op_block(r, 0) {
            return;
        }
    }
    for oi in 0..n_ops {
        // directed scenarios at fixed positions of every session (they are also part of the
        // random mix below): the histories the random mix alone reaches too rarely
        let directed = match oi {
            2 => Some(0),
            5 => Some(5),
            9 => Some(1),
            16 => Some(2),
            23 => Some(4),
            30 => Some(3),
            12 => Some(7),
            20 => Some(8),
            26 => Some(9),
            54 => Some(9),
            14 => Some(10),
            41 => Some(10),
            7 => Some(11),
            33 => Some(11),
            62 => Some(11),
            18 => Some(12),
            46 => Some(12),
            28 => Some(13),
            56 => Some(13),
            48 => Some(8),
            37 => Some(6),
            44 => Some(1),
            51 => Some(5),
            58 => Some(0),
            _ => None,
        };
        if let Some(dk) = directed {
            let ok = match dk {
                0 => s.op_flavor_scenario(r),
                1 => {
                    let reorg = s.xrng.chance(400, 1000);
                    s.op_race(r, reorg)
                }
                2 => s.op_dep_spend(r, false),
                3 => s.op_dep_spend(r, true),
                5 => s.op_rbf_equal(r),
                6 => s.op_readd_family(r),
                7 => s.op_cellref_evict(r),
                8 => s.op_block_burst(r),
                9 => s.op_uncle_race(r),
                10 => s.op_window_race(r),
                11 => s.op_storm(r),
                12 => s.op_submit_race(r),
                13 => s.op_block_fault(r),
                _ => s.op_pool_pressure(r),
            };
            if !ok {
                break;
            }
            continue;
        }
        let k = s.rng.below(108);
        let ok = match k {
            0..=34 => s.op_submit(r, false),
            35..=44 => s.op_submit(r, true),
            45..=49 => s.op_remove(r),
            50..=65 => s.op_block(r, 0),
            66..=69 => s.op_block_burst(r),
            70..=77 => {
                let w_far = s.tg.rc.window.1;
                let d = 1 + s.rng.below(w_far + 3);
                s.op_block(r, d)
            }
            78..=91 => s.op_template(r),
            92..=95 => s.op_time(r),
            96..=99 => s.op_submit_burst(r),
            100..=102 => {
                let reorg = s.xrng.chance(400, 1000);
                s.op_dep_spend(r, reorg)
            }
            103..=105 => {
                let reorg = s.xrng.chance(400, 1000);
                s.op_race(r, reorg)
            }
            _ => s.op_flavor_scenario(r),
        };
        if !ok {
            break;
        }
    }
    if r.c11.samples.len() < 3 {
        r.c11.sample(json!({"session": si, "rbf": s.pcfg.rbf, "max_pool_bytes": s.pcfg.max_pool_bytes, "max_ancestors": s.pcfg.max_ancestors, "ops": s.ops.iter().take(60).collect::<Vec<_>>() }));
    }
}

impl Sess {
    fn witness(&self, extra: serde_json::Value) -> serde_json::Value {
        json!({
            "rbf": self.pcfg.rbf, "max_pool_bytes": self.pcfg.max_pool_bytes, "max_ancestors": self.pcfg.max_ancestors,
            "window": [self.tg.rc.window.0, self.tg.rc.window.1],
            "flavor": format!("{:?}", self.flavor), "max_block_bytes": self.max_block_bytes, "max_block_cycles": self.max_block_cycles,
            "ops_tail": self.ops.iter().rev().take(40).rev().collect::<Vec<_>>(),
            "pool_entries": self.dump_summary,
            "extra": extra,
        })
    }

    fn n_tip(&self) -> H {
        h(&self.n.tip_hash())
    }

    /// Logical quiescence of the pool: its snapshot tip equals the chain tip and the verify
    /// queue is empty. Returns None on watchdog.
    fn quiesce(&self) -> Option<VerifPoolDump> {
        let t0 = Instant::now();
        let mut acc_reorgs = vec![];
        loop {
            let tip = self.n.tip_hash();
            let info = self.n.shared.tx_pool_controller().get_tx_pool_info().ok()?;
            if info.tip_hash == tip && info.verify_queue_size == 0 {
                let mut d = self.n.shared.tx_pool_controller().verif_dump().ok()?;
                // the pool iterates hash maps: sort for a deterministic harness
                d.entries.sort_by(|a, b| a.id.as_slice().cmp(b.id.as_slice()));
                d.edge_inputs.sort_by(|a, b| a.0.as_slice().cmp(b.0.as_slice()));
                d.edge_deps.sort_by(|a, b| a.0.as_slice().cmp(b.0.as_slice()));
                d.edge_header_deps.sort_by(|a, b| a.0.as_slice().cmp(b.0.as_slice()));
                if d.snapshot_tip == tip {
                    acc_reorgs.append(&mut d.reorgs);
                    d.reorgs = acc_reorgs;
                    return Some(d);
                }
                acc_reorgs.append(&mut d.reorgs);
            }
            if t0.elapsed() > Duration::from_secs(30) {
                // not caught up: still working on it, or already done with the notification that
                // names this tip and nevertheless on another snapshot?
                if let Ok(mut d) = self.n.shared.tx_pool_controller().verif_dump() {
                    acc_reorgs.append(&mut d.reorgs);
                    let tip = self.n.tip_hash();
                    if d.snapshot_tip != tip && acc_reorgs.iter().any(|n| n.snapshot_tip == tip) {
                        *self.stuck.borrow_mut() = Some(format!(
                            "chain tip {} ; the pool has processed the notification for that tip (processing order of the last notifications: {:?}) but its snapshot is at {} after 30 s",
                            hx(&h(&tip)),
                            acc_reorgs.iter().rev().take(4).rev().map(|n| hx(&h(&n.snapshot_tip))).collect::<Vec<_>>(),
                            hx(&h(&d.snapshot_tip))
                        ));
                    }
                }
                return None;
            }
            std::thread::sleep(Duration::from_micros(300));
        }
    }

    // ----------------------------------------------------------------------------------
    // operations

    fn spendable(&self, d: &VerifPoolDump, allow_spent: bool) -> Vec<(OutPoint, u64, bool)> {
        // (out point, capacity, from_pool)
        let st = self.tg.rc.replay(&self.n_tip());
        let spent: HashSet<(H, u32)> = d.edge_inputs.iter().map(|(op, _)| op_key(op)).collect();
        let mut v = vec![];
        for (k, c) in st.cells.iter() {
            let out = packed::CellOutput::from_slice(&c.output).unwrap();
            if out.type_().to_opt().is_some() || out.lock().code_hash() != self.gi.always_success_script.code_hash() {
                continue;
            }
            if !allow_spent && spent.contains(k) {
                continue;
            }
            let cap: u64 = out.capacity().into();
            v.push((OutPoint::new(packed::Byte32::from_slice(&k.0).unwrap(), k.1), cap, false));
        }
        for e in &d.entries {
            for (i, out) in e.tx.outputs().into_iter().enumerate() {
                let k = (h(&e.tx.hash()), i as u32);
                if !allow_spent && spent.contains(&k) {
                    continue;
                }
                let cap: u64 = out.capacity().into();
                v.push((OutPoint::new(e.tx.hash(), i as u32), cap, true));
            }
        }
        v
    }

    fn make_tx(&mut self, inputs: Vec<(OutPoint, u64)>, fee: u64, deps: &[CellDep], header_deps: &[packed::Byte32]) -> Option<TransactionView> {
        let in_cap: u64 = inputs.iter().map(|(_, c)| *c).sum();
        self.salt += 1;
        let n_out = 1 + self.rng.usize_below(2);
        let mut outs = vec![];
        let mut remaining = in_cap.checked_sub(fee)?;
        for i in 0..n_out {
            let lock = builder::lock_with_args(&self.gi, &[self.rng.below(4) as u8]);
            let mut data = self.rng.bytes(self.rng.clone().usize_below(24));
            if i == 0 {
                data.extend_from_slice(&self.salt.to_le_bytes());
            }
            let occ = builder::occupied(&lock, &None, data.len());
            let cap = if i + 1 == n_out { remaining } else { (remaining / 2).max(occ) };
            if cap < occ || cap > remaining {
                if i == 0 {
                    return None;
                }
                break;
            }
            remaining -= cap;
            outs.push(OutSpec { capacity: cap, lock, type_: None, data });
        }
        if remaining > 0 {
            outs.last_mut()?.capacity += remaining;
        }
        let ins: Vec<(OutPoint, u64)> = inputs.iter().map(|(op, _)| (op.clone(), 0u64)).collect();
        Some(builder::build_tx(&self.gi, &ins, &outs, deps, header_deps, None))
    }

    fn pick_fee(&mut self, approx_size: u64) -> u64 {
        match self.rng.below(10) {
            0 => self.rng.below(approx_size * self.min_fee_rate / 1000 + 1), // likely too low
            1..=5 => approx_size * self.min_fee_rate / 1000 + self.rng.below(600),
            _ => approx_size * (self.min_fee_rate + self.rng.below(4000)) / 1000 + self.rng.below(100),
        }
    }

    fn op_submit(&mut self, r: &mut Reports, conflict: bool) -> bool {
        let Some(pre) = self.quiesce() else {
            r.c11.inconclusive("watchdog: pool did not reach quiescence in 30 s");
            return false;
        };
        let mut cands = self.spendable(&pre, false);
        if cands.is_empty() {
            return true;
        }
        let mut inputs: Vec<(OutPoint, u64)> = vec![];
        let mut replaced_roots: HashSet<ProposalShortId> = HashSet::new();
        if conflict && !pre.edge_inputs.is_empty() {
            // spend an out-point already spent by a pooled transaction
            let (op, id) = pre.edge_inputs[self.rng.usize_below(pre.edge_inputs.len())].clone();
            let cap = self.capacity_of(&op, &pre);
            if let Some(cap) = cap {
                inputs.push((op, cap));
                replaced_roots.insert(id);
            }
        }
        let mut n_in = if inputs.is_empty() { 1 + self.rng.usize_below(2) } else { self.rng.usize_below(2) };
        if self.flavor == Flavor::SmallCycles {
            // single input = single script group: every transaction of the session costs the
            // same number of cycles
            n_in = if inputs.is_empty() { 1 } else { 0 };
        }
        self.rng.shuffle(&mut cands);
        // prefer pool outputs sometimes to build chains
        if self.rng.chance(500, 1000) {
            cands.sort_by_key(|c| !c.2);
        }
        for (op, cap, _) in cands.iter().take(n_in) {
            if !inputs.iter().any(|(o, _)| o == op) {
                inputs.push((op.clone(), *cap));
            }
        }
        if inputs.is_empty() {
            return true;
        }
        // optional shared cell dep on some other live/pool cell, optional header dep
        let mut deps = vec![];
        if self.rng.chance(250, 1000) {
            let others: Vec<&(OutPoint, u64, bool)> = cands.iter().filter(|c| !inputs.iter().any(|(o, _)| *o == c.0)).collect();
            if !others.is_empty() {
                let o = others[self.rng.usize_below(others.len())];
                deps.push(CellDep::new_builder().out_point(o.0.clone()).build());
            }
        }
        let mut hdeps = vec![];
        if self.rng.chance(150, 1000) {
            let st = self.tg.rc.replay(&self.n_tip());
            let k = st.chain.len();
            let idx = k - 1 - self.rng.usize_below(k.min(4));
            hdeps.push(packed::Byte32::from_slice(&st.chain[idx]).unwrap());
        }
        let approx = 260 + 100 * inputs.len() as u64;
        let mut fee = self.pick_fee(approx);
        if !replaced_roots.is_empty() {
            // aim around the replacement threshold
            let replaced_fee: u64 = self.closure_fees(&pre, &replaced_roots);
            let extra = approx * self.min_rbf_rate / 1000;
            fee = match self.rng.below(4) {
                0 => replaced_fee,
                1 => replaced_fee + extra.saturating_sub(1 + self.rng.below(40)),
                2 => replaced_fee + extra + self.rng.below(40),
                _ => replaced_fee + extra + 500,
            };
        }
        let Some(tx) = self.make_tx(inputs, fee, &deps, &hdeps) else {
            return true;
        };
        self.submit_tx(r, &tx, &pre, if conflict { "(conflict)" } else { "" }).is_some()
    }

    /// Submit `tx` through `submit_local_tx` on the quiescent pool whose dump is `pre`, wait for
    /// quiescence and judge the outcome (membership, replacement accounting, the whole dump).
    /// Returns whether the pool accepted it; None = harness failure (session stops).
    fn submit_tx(&mut self, r: &mut Reports, tx: &TransactionView, pre: &VerifPoolDump, label: &str) -> Option<bool> {
        self.known.insert(tx.proposal_short_id(), tx.clone());
        let res = self.n.shared.tx_pool_controller().submit_local_tx(tx.clone());
        let res = match res {
            Ok(x) => x,
            Err(e) => {
                r.c11.inconclusive(&format!("harness: submit_local_tx channel error {e}"));
                return None;
            }
        };
        self.judge_submission(r, tx, pre, label, res.map(|_| ()).map_err(|e| e.to_string()))
    }

    /// Second half of a submission: the pool has answered `res`; wait for quiescence and judge.
    fn judge_submission(&mut self, r: &mut Reports, tx: &TransactionView, pre: &VerifPoolDump, label: &str, res: Result<(), String>) -> Option<bool> {
        let fee = self.fee_of(tx, pre);
        self.ops.push(format!("submit{} {} fee={} -> {}", label, hx(&h(&tx.hash())), fee.map(|f| f.to_string()).unwrap_or_else(|| "?".into()), match &res { Ok(_) => "ok".to_string(), Err(e) => e.chars().take(70).collect() }));
        r.c11.count(if res.is_ok() { "ops.submit_ok" } else { "ops.submit_rejected" });
        let Some(post) = self.quiesce() else {
            r.c11.inconclusive("watchdog: pool did not reach quiescence in 30 s");
            return None;
        };
        let id = tx.proposal_short_id();
        let in_pool = post.entries.iter().any(|e| e.id == id);
        r.c11.eval();
        if res.is_ok() != in_pool {
            r.c11.violation(
                if res.is_ok() { "submit.accepted_tx_not_in_pool" } else { "submit.rejected_tx_in_pool" },
                format!("submit_local_tx returned {:?} but pool membership is {}", res, in_pool),
                self.witness(json!({"tx": vbase::hex(tx.hash().as_slice())})),
            );
        }
        // I4: replacement accounting
        let conflicting: HashSet<ProposalShortId> = pre
            .edge_inputs
            .iter()
            .filter(|(op, _)| tx.input_pts_iter().any(|i| i == *op))
            .map(|(_, id)| id.clone())
            .collect();
        if !conflicting.is_empty() {
            r.c11.count("obs.conflicting_submissions");
            r.c11.eval();
            let closure = self.closure(&pre, &conflicting);
            if res.is_ok() {
                r.c11.count("obs.replacements_admitted");
                if !self.pcfg.rbf {
                    r.c11.violation("rbf.replacement_admitted_while_rbf_disabled", format!("tx {} conflicts with pooled {:?} and was admitted", hx(&h(&tx.hash())), conflicting.iter().map(id_hex).collect::<Vec<_>>()), self.witness(json!({})));
                }
                let replaced_fee: u64 = closure.iter().filter_map(|i| pre.entries.iter().find(|e| e.id == *i)).map(|e| e.fee).sum();
                let me = post.entries.iter().find(|e| e.id == id);
                if let Some(me) = me {
                    let need = replaced_fee + self.min_rbf_rate * me.size as u64 / 1000;
                    if me.fee < need {
                        r.c11.violation(
                            "rbf.replacement_underpaid",
                            format!("replacement {} pays {} < replaced fees {} + increment {} (size {})", hx(&h(&tx.hash())), me.fee, replaced_fee, self.min_rbf_rate * me.size as u64 / 1000, me.size),
                            self.witness(json!({"replaced": closure.iter().map(id_hex).collect::<Vec<_>>()})),
                        );
                    }
                }
                for c in &closure {
                    if post.entries.iter().any(|e| e.id == *c) {
                        r.c11.violation("rbf.replaced_tx_still_in_pool", format!("replaced {} and replacement {} both pooled", id_hex(c), id_hex(&id)), self.witness(json!({})));
                    }
                }
            } else {
                // (what happens to the originals when a replacement is rejected late is not part
                // of the property)
                r.c11.count("obs.replacements_rejected");
            }
        }
        let evicted = pre.entries.iter().filter(|e| !post.entries.iter().any(|x| x.id == e.id)).count();
        if conflicting.is_empty() && evicted > 0 {
            r.c11.count_n("obs.evicted_by_size", evicted as u64);
        }
        if matches!(&res, Err(e) if e.contains("Full")) {
            r.c11.count("obs.evicted_by_size");
        }
        if res.is_ok() && UNIT_CYCLES.load(Ordering::Relaxed) == 0 && tx.inputs().len() == 1 {
            if let Some(e) = post.entries.iter().find(|e| e.id == id) {
                UNIT_CYCLES.store(e.cycles, Ordering::Relaxed);
            }
        }
        self.check_pool(&post, r);
        Some(res.is_ok())
    }

    /// fee of `tx` if all its inputs are known to the model or the pool dump
    fn fee_of(&self, tx: &TransactionView, d: &VerifPoolDump) -> Option<u64> {
        let mut cap_in = 0u64;
        for op in tx.input_pts_iter() {
            cap_in += self.capacity_of(&op, d)?;
        }
        let cap_out: u64 = tx.outputs().into_iter().map(|o| Into::<u64>::into(o.capacity())).sum();
        cap_in.checked_sub(cap_out)
    }

    fn op_submit_burst(&mut self, r: &mut Reports) -> bool {
        for _ in 0..(3 + self.rng.below(5)) {
            if !self.op_submit(r, false) {
                return false;
            }
        }
        true
    }

    fn capacity_of(&self, op: &OutPoint, d: &VerifPoolDump) -> Option<u64> {
        let k = op_key(op);
        let st = self.tg.rc.replay(&self.n_tip());
        if let Some(c) = st.cells.get(&k) {
            let out = packed::CellOutput::from_slice(&c.output).ok()?;
            return Some(out.capacity().into());
        }
        for e in &d.entries {
            if h(&e.tx.hash()) == k.0 {
                return e.tx.outputs().get(k.1 as usize).map(|o| o.capacity().into());
            }
        }
        None
    }

    /// ids plus all their descendants through the pool's recorded children links
    fn closure(&self, d: &VerifPoolDump, roots: &HashSet<ProposalShortId>) -> HashSet<ProposalShortId> {
        let by: HashMap<&ProposalShortId, &VerifEntry> = d.entries.iter().map(|e| (&e.id, e)).collect();
        let mut out: HashSet<ProposalShortId> = HashSet::new();
        let mut stack: Vec<ProposalShortId> = roots.iter().cloned().collect();
        while let Some(x) = stack.pop() {
            if !out.insert(x.clone()) {
                continue;
            }
            if let Some(e) = by.get(&x) {
                for c in &e.children {
                    stack.push(c.clone());
                }
            }
        }
        out
    }

    fn closure_fees(&self, d: &VerifPoolDump, roots: &HashSet<ProposalShortId>) -> u64 {
        let c = self.closure(d, roots);
        d.entries.iter().filter(|e| c.contains(&e.id)).map(|e| e.fee).sum()
    }

    fn op_remove(&mut self, r: &mut Reports) -> bool {
        let Some(pre) = self.quiesce() else { return false };
        if pre.entries.is_empty() {
            return true;
        }
        let e = &pre.entries[self.rng.usize_below(pre.entries.len())];
        let ok = self.n.shared.tx_pool_controller().remove_local_tx(e.tx.hash()).unwrap_or(false);
        self.ops.push(format!("remove {} -> {}", hx(&h(&e.tx.hash())), ok));
        r.c11.count("ops.remove");
        let Some(post) = self.quiesce() else { return false };
        let gone = self.closure(&pre, &[e.id.clone()].into_iter().collect());
        r.c11.eval();
        for g in &gone {
            if post.entries.iter().any(|x| x.id == *g) {
                r.c11.violation("remove.descendant_left_behind", format!("removed {} but its descendant {} is still pooled", id_hex(&e.id), id_hex(g)), self.witness(json!({})));
            }
        }
        self.check_pool(&post, r);
        true
    }

    fn op_time(&mut self, r: &mut Reports) -> bool {
        let jump = (self.pcfg.expiry_hours as u64) * 3_600_000 / 2 + self.rng.below(3_600_000);
        self.now += jump;
        vnode::node::set_time(self.now);
        self.catch_up_ts = Some(self.now);
        self.ops.push(format!("time +{}s", jump / 1000));
        r.c11.count("ops.time_jump");
        true
    }

    /// depth 0: extend the tip by one block. depth d>0: build a competing branch from the
    /// ancestor d blocks below the tip that is one block longer, deliver it in order.
    fn op_block(&mut self, r: &mut Reports, depth: u64) -> bool {
        self.op_block_ex(r, depth, &[], true)
    }

    /// `op_block` with control over the proposals: `forced` transactions are proposed by the
    /// first new block in any case; `pool_draw` adds a random subset of the pooled ones.
    fn op_block_ex(&mut self, r: &mut Reports, depth: u64, forced: &[TransactionView], pool_draw: bool) -> bool {
        let Some(pre) = self.quiesce() else { return false };
        let (new_blocks, old_tip, depth) = self.build_blocks(&pre, depth, forced, pool_draw);
        if !self.deliver(&new_blocks, r) {
            return false;
        }
        self.finish_block_op(&pre, old_tip, &new_blocks, depth, r)
    }


    /// C12 / C20: two to four extension blocks delivered back to back, so that the notifications of
    /// consecutive tip changes are in flight in the pool service together (seeded delays at
    /// `pool::before_reorg_lock` sit between their arrival and their application).
    fn op_block_burst(&mut self, r: &mut Reports) -> bool {
        let Some(pre) = self.quiesce() else { return false };
        let old_tip = self.n_tip();
        let k = 2 + self.xrng.below(3);
        let mut pool_txs: Vec<TransactionView> = pre.entries.iter().map(|e| e.tx.clone()).collect();
        self.rng.shuffle(&mut pool_txs);
        let take = self.rng.usize_below(pool_txs.len().min(4) + 1);
        let mut cur = old_tip;
        let mut blocks: Vec<H> = vec![];
        for i in 0..k {
            cur = if i == 0 { self.tg.extend_ex(&cur, &pool_txs[..take]) } else { self.tg.extend_ex(&cur, &[]) };
            blocks.push(cur);
        }
        for x in &blocks {
            let b = std::sync::Arc::clone(&self.tg.rc.get(x).block);
            for tx in b.transactions().iter().skip(1) {
                self.known.entry(tx.proposal_short_id()).or_insert_with(|| tx.clone());
            }
        }
        if !self.deliver(&blocks, r) {
            return false;
        }
        r.c12.count("ops.block_burst");
        self.finish_block_op(&pre, old_tip, &blocks, 0, r)
    }

    /// Build (on the builder node, registered in the model, not yet delivered to N) the blocks of
    /// one block operation. Returns (new blocks in order, tip before, effective depth).
    fn build_blocks(&mut self, pre: &VerifPoolDump, depth: u64, forced: &[TransactionView], pool_draw: bool) -> (Vec<H>, H, u64) {
        let tip = self.n_tip();
        debug_assert_eq!(tip, self.tg.tip());
        let tip_n = self.tg.rc.get(&tip).number;
        let depth = depth.min(tip_n.saturating_sub(1));
        let old_tip = tip;
        // proposals drawn from the pool
        let mut pool_txs: Vec<TransactionView> = pre.entries.iter().map(|e| e.tx.clone()).collect();
        self.rng.shuffle(&mut pool_txs);
        let with_forced = |sel: &[TransactionView]| -> Vec<TransactionView> {
            let mut v: Vec<TransactionView> = forced.to_vec();
            for t in sel {
                if !v.iter().any(|x| x.hash() == t.hash()) {
                    v.push(t.clone());
                }
            }
            v
        };
        let mut new_blocks: Vec<H> = vec![];
        if depth == 0 {
            let take = if pool_draw { self.rng.usize_below(pool_txs.len().min(6) + 1) } else { 0 };
            if let Some(ts) = self.catch_up_ts.take() {
                self.tg.cfg.ts_step_max = ts.saturating_sub(self.tg.rc.get(&tip).block.timestamp()).max(2);
            }
            let x = self.tg.extend_ex(&tip, &with_forced(&pool_txs[..take]));
            self.tg.cfg.ts_step_max = 8_000;
            new_blocks.push(x);
        } else {
            let anc = self.tg.rc.ancestor_at(&tip, tip_n - depth).unwrap();
            let mut cur = anc;
            for i in 0..(depth + 1) {
                let take = if i == 0 && pool_draw { self.rng.usize_below(pool_txs.len().min(4) + 1) } else { 0 };
                cur = if i == 0 { self.tg.extend_ex(&cur, &with_forced(&pool_txs[..take])) } else { self.tg.extend_ex(&cur, &[]) };
                new_blocks.push(cur);
            }
        }
        for x in &new_blocks {
            let b = std::sync::Arc::clone(&self.tg.rc.get(x).block);
            for tx in b.transactions().iter().skip(1) {
                self.known.entry(tx.proposal_short_id()).or_insert_with(|| tx.clone());
            }
        }
        (new_blocks, old_tip, depth)
    }

    /// Deliver built blocks to the node under test, in order.
    fn deliver(&mut self, blocks: &[H], r: &mut Reports) -> bool {
        self.sampler.set_hot(true);
        for x in blocks {
            let b = std::sync::Arc::clone(&self.tg.rc.get(x).block);
            if std::env::var("VERIF_DEBUG").is_ok() {
                eprintln!("    deliver block #{} {} commits={:?} proposals={:?}", b.number(), hx(x), b.transactions().iter().skip(1).map(|t| hx(&h(&t.hash()))).collect::<Vec<_>>(), b.union_proposal_ids_iter().map(|i| id_hex(&i)).collect::<Vec<_>>());
            }
            let res = self.n.chain().blocking_process_block(b);
            if !matches!(res, Ok(true)) {
                r.c12.violation(
                    "node_rejected_block_accepted_by_builder",
                    format!("block {} (#{}) accepted by the builder node was answered {:?} by the node under test", hx(x), self.tg.rc.get(x).number, res.map_err(|e| e.to_string())),
                    self.witness(json!({})),
                );
                return false;
            }
        }
        true
    }

    /// Bookkeeping after the blocks of one block operation were delivered, then the checks that
    /// follow every tip change.
    fn finish_block_op(&mut self, pre: &VerifPoolDump, old_tip: H, new_blocks: &[H], depth: u64, r: &mut Reports) -> bool {
        let new_tip = *new_blocks.last().unwrap();
        self.now = self.now.max(self.tg.rc.get(&new_tip).block.timestamp());
        vnode::node::set_time(self.now);
        self.ops.push(format!("block depth={} -> tip {}#{} (+{} blocks, {} commits)", depth, hx(&new_tip), self.tg.rc.get(&new_tip).number, new_blocks.len(), new_blocks.iter().map(|x| self.tg.rc.get(x).block.transactions().len() - 1).sum::<usize>()));
        r.c11.count("ops.block");
        if depth > 0 {
            r.c12.count("reorgs");
        }
        self.after_tip_change(pre, old_tip, r)
    }

    fn after_tip_change(&mut self, pre: &VerifPoolDump, old_tip: H, r: &mut Reports) -> bool {
        if self.n_tip() != self.tg.tip() {
            r.c12.violation("node_tip_differs_from_builder_tip", format!("node {} builder {}", hx(&self.n_tip()), hx(&self.tg.tip())), self.witness(json!({})));
            return false;
        }
        let Some(post) = self.quiesce() else {
            match self.stuck.borrow_mut().take() {
                Some(detail) => r.c12.violation("pool.snapshot_behind_chain_tip_after_processing_its_notification", detail, self.witness(json!({}))),
                None => r.c12.inconclusive("watchdog: pool did not catch up with the chain tip in 30 s"),
            }
            return false;
        };
        self.after_tip_change_with(pre, post, old_tip, r)
    }

    /// The checks after a tip change, on a dump `post` taken at quiescence after it (the dump
    /// carries the reorg notifications processed since the previous dump).
    fn after_tip_change_with(&mut self, pre: &VerifPoolDump, post: VerifPoolDump, old_tip: H, r: &mut Reports) -> bool {
        // cause bookkeeping for known findings: a pooled transaction committed before one of its
        // pooled ancestors (possible through cell-dep ordering) while descendants stay pooled
        {
            let rc = &self.tg.rc;
            let mut attached: Vec<H> = vec![];
            let (mut a, mut b) = (old_tip, self.n_tip());
            while rc.get(&a).number > rc.get(&b).number {
                a = rc.get(&a).parent;
            }
            while rc.get(&b).number > rc.get(&a).number {
                attached.push(b);
                b = rc.get(&b).parent;
            }
            while a != b {
                attached.push(b);
                a = rc.get(&a).parent;
                b = rc.get(&b).parent;
            }
            attached.reverse();
            let by: HashMap<ProposalShortId, &VerifEntry> = pre.entries.iter().map(|e| (e.id.clone(), e)).collect();
            let mut committed_so_far: HashSet<ProposalShortId> = HashSet::new();
            for x in &attached {
                for tx in rc.get(x).block.transactions().iter().skip(1) {
                    let id = tx.proposal_short_id();
                    if by.contains_key(&id) {
                        let anc = transitive(&by, &id, true);
                        if anc.iter().any(|p| !committed_so_far.contains(p)) {
                            let desc = transitive(&by, &id, false);
                            self.tainted_mid.extend(desc);
                            self.tainted_mid.extend(anc);
                        }
                    }
                    committed_so_far.insert(id);
                }
            }
        }
        self.check_pool(&post, r);
        self.check_against_chain(pre, &post, old_tip, r);
        self.last_tip = self.n_tip();
        self.judge_sampled(&post, r);
        true
    }

    /// C13: judge the templates the sampler thread has collected since the last call. `d` is a
    /// dump taken at quiescence on the node's current tip.
    fn judge_sampled(&mut self, d: &VerifPoolDump, r: &mut Reports) {
        self.sampler.set_hot(false);
        let taken = self.sampler.take();
        let tip = self.n_tip();
        if h(&d.snapshot_tip) != tip {
            return;
        }
        for (hot, tpl) in taken {
            let work_id: u64 = tpl.work_id.into();
            let parent: packed::Byte32 = tpl.parent_hash.clone().into();
            let parent = h(&parent);
            r.c13.count("sampled.templates_collected");
            if hot {
                r.c13.count("sampled.collected_while_a_tip_change_was_in_progress");
            }
            if parent == tip {
                if self.last_work_id == Some(work_id) {
                    continue;
                }
                let label = if hot { "while a tip change was in progress" } else { "between two operations" };
                let label = format!("{label}, during {}", if self.cur_op.is_empty() { "a random operation" } else { self.cur_op });
                if hot {
                    r.c13.count("sampled.judged_on_the_new_tip_taken_inside_the_tip_change");
                }
                let _ = self.judge_template(r, tpl, d, tip, Some(&label));
            } else if self.tg.rc.contains(&parent) {
                // superseded parent: the node can no longer verify it; what the model alone can
                // say: every committed transaction is in the proposal set of that parent
                r.c13.count("sampled.templates_on_superseded_tip");
                r.c13.eval();
                let (set, _) = self.tg.rc.window_sets(&parent);
                for t in tpl.transactions.iter() {
                    let tx: packed::Transaction = t.data.clone().into();
                    let id = tx.into_view().proposal_short_id();
                    if !set.contains(&id) {
                        r.c13.violation("template.commits_unproposed_tx", format!("template (work id {work_id}) on superseded tip {} commits {} whose id is not in the model's proposal set of that block", hx(&parent), id_hex(&id)), self.witness(json!({"taken": "by the sampler thread"})));
                    }
                }
            }
        }
    }

    // ----------------------------------------------------------------------------------
    // C11: recomputation checks over one dump

    fn check_pool(&mut self, d: &VerifPoolDump, r: &mut Reports) {
        self.dump_no += 1;
        let present: HashSet<ProposalShortId> = d.entries.iter().map(|e| e.id.clone()).collect();
        self.first_seen.retain(|k, _| present.contains(k));
        for id in &present {
            let n = self.dump_no;
            self.first_seen.entry(id.clone()).or_insert(n);
        }
        self.dump_summary = d
            .entries
            .iter()
            .map(|e| {
                format!(
                    "{} tx={} {} ts={} fee={} size={} in={:?} parents={:?} children={:?} anc={:?} desc={:?}",
                    id_hex(&e.id),
                    hx(&h(&e.tx.hash())),
                    e.status,
                    e.timestamp,
                    e.fee,
                    e.size,
                    e.tx.input_pts_iter().map(|op| format!("{}:{}", hx(&op_key(&op).0), op_key(&op).1)).collect::<Vec<_>>(),
                    e.parents.iter().map(id_hex).collect::<Vec<_>>(),
                    e.children.iter().map(id_hex).collect::<Vec<_>>(),
                    e.ancestors,
                    e.descendants
                )
            })
            .collect();
        let by: HashMap<ProposalShortId, &VerifEntry> = d.entries.iter().map(|e| (e.id.clone(), e)).collect();
        let tx_by_hash: HashMap<H, &VerifEntry> = d.entries.iter().map(|e| (h(&e.tx.hash()), e)).collect();
        // late-parent taint (see `tainted`)
        self.tainted.retain(|k| by.contains_key(k));
        for e in &d.entries {
            for c in &e.children {
                if let (Some(a), Some(b)) = (self.first_seen.get(&e.id), self.first_seen.get(c)) {
                    if a > b {
                        // everything related to this pair
                        let mut fam: HashSet<ProposalShortId> = HashSet::new();
                        for root in [&e.id, c] {
                            fam.insert(root.clone());
                            fam.extend(transitive(&by, root, true));
                            fam.extend(transitive(&by, root, false));
                        }
                        self.tainted.extend(fam);
                    }
                }
            }
        }
        // taint spreads to relatives of tainted entries
        let snapshot: Vec<ProposalShortId> = self.tainted.iter().cloned().collect();
        for t in snapshot {
            self.tainted.extend(transitive(&by, &t, true));
            self.tainted.extend(transitive(&by, &t, false));
        }
        let tainted = self.tainted.clone();
        self.tainted_mid.retain(|k| by.contains_key(k));
        let snapshot: Vec<ProposalShortId> = self.tainted_mid.iter().cloned().collect();
        for t in snapshot {
            self.tainted_mid.extend(transitive(&by, &t, true));
            self.tainted_mid.extend(transitive(&by, &t, false));
        }
        let tainted_mid = self.tainted_mid.clone();
        if std::env::var("VERIF_DEBUG").is_ok() {
            eprintln!("--- after op: {}", self.ops.last().cloned().unwrap_or_default());
            for l in &self.dump_summary {
                eprintln!("    {l}");
            }
            for rg in &d.reorgs {
                eprintln!("    reorg notif: detached={} attached={} dropped_ids={:?}", rg.detached.len(), rg.attached.len(), rg.detached_proposal_ids.iter().map(id_hex).collect::<Vec<_>>());
            }
        }
        let w = |extra: serde_json::Value| self.witness(extra);
        r.c11.eval();
        r.c11.count("obs.dumps_checked");
        // I1: inputs
        let mut spent: HashMap<(H, u32), ProposalShortId> = HashMap::new();
        for e in &d.entries {
            for op in e.tx.input_pts_iter() {
                if let Some(other) = spent.insert(op_key(&op), e.id.clone()) {
                    r.c11.violation("pool.two_entries_spend_same_cell", format!("{} and {} both spend {}:{}", id_hex(&other), id_hex(&e.id), hx(&op_key(&op).0), op_key(&op).1), w(json!({})));
                }
            }
        }
        let edge_inputs: HashMap<(H, u32), ProposalShortId> = d.edge_inputs.iter().map(|(op, id)| (op_key(op), id.clone())).collect();
        if edge_inputs != spent {
            let missing: Vec<String> = spent.iter().filter(|(k, v)| edge_inputs.get(*k) != Some(*v)).map(|(k, v)| format!("{}:{}->{}", hx(&k.0), k.1, id_hex(v))).collect();
            let extra: Vec<String> = edge_inputs.iter().filter(|(k, v)| spent.get(*k) != Some(*v)).map(|(k, v)| format!("{}:{}->{}", hx(&k.0), k.1, id_hex(v))).collect();
            r.c11.violation("pool.input_edges_differ_from_entries", format!("spent-cell index differs from the entries' inputs: missing {missing:?} stale {extra:?}"), w(json!({})));
        }
        // deps: every direct cell dep of every entry is recorded; every record belongs to an entry
        let mut dep_rec: HashSet<((H, u32), ProposalShortId)> = HashSet::new();
        for (op, ids) in &d.edge_deps {
            for id in ids {
                dep_rec.insert((op_key(op), id.clone()));
                if !by.contains_key(id) {
                    r.c11.violation("pool.dep_edge_for_absent_entry", format!("dep index lists {} for {}:{} but it is not pooled", id_hex(id), hx(&op_key(op).0), op_key(op).1), w(json!({})));
                }
            }
        }
        for e in &d.entries {
            for dep in e.tx.cell_deps_iter() {
                if !dep_rec.contains(&(op_key(&dep.out_point()), e.id.clone())) {
                    r.c11.violation("pool.dep_edge_missing", format!("{} depends on {}:{} but the dep index does not record it", id_hex(&e.id), hx(&op_key(&dep.out_point()).0), op_key(&dep.out_point()).1), w(json!({})));
                }
            }
        }
        let hdr: HashMap<ProposalShortId, Vec<packed::Byte32>> = d.edge_header_deps.iter().cloned().collect();
        for e in &d.entries {
            let want: Vec<packed::Byte32> = e.tx.header_deps().into_iter().collect();
            let have = hdr.get(&e.id).cloned().unwrap_or_default();
            if want != have {
                r.c11.violation("pool.header_dep_edges_differ", format!("{}: recorded {} header deps, tx has {}", id_hex(&e.id), have.len(), want.len()), w(json!({})));
            }
        }
        for id in hdr.keys() {
            if !by.contains_key(id) {
                r.c11.violation("pool.header_dep_edge_for_absent_entry", id_hex(id), w(json!({})));
            }
        }
        // I2: links
        if !d.dangling_link_ids.is_empty() {
            r.c11.violation("links.row_without_entry", format!("{:?}", d.dangling_link_ids.iter().map(id_hex).collect::<Vec<_>>()), w(json!({})));
        }
        let mut links: HashSet<(ProposalShortId, ProposalShortId)> = HashSet::new(); // (parent, child)
        for e in &d.entries {
            if !e.has_links {
                r.c11.violation("links.entry_without_row", id_hex(&e.id), w(json!({})));
            }
            for p in &e.parents {
                links.insert((p.clone(), e.id.clone()));
                match by.get(p) {
                    None => r.c11.violation("links.parent_not_pooled", format!("{} lists parent {} which is not pooled", id_hex(&e.id), id_hex(p)), w(json!({}))),
                    Some(pe) => {
                        if !pe.children.contains(&e.id) {
                            r.c11.violation("links.asymmetric", format!("{} lists parent {} but is not among its children", id_hex(&e.id), id_hex(p)), w(json!({})));
                        }
                    }
                }
            }
            for c in &e.children {
                match by.get(c) {
                    None => r.c11.violation("links.child_not_pooled", format!("{} lists child {} which is not pooled", id_hex(&e.id), id_hex(c)), w(json!({}))),
                    Some(ce) => {
                        if !ce.parents.contains(&e.id) {
                            r.c11.violation("links.asymmetric", format!("{} lists child {} but is not among its parents", id_hex(&e.id), id_hex(c)), w(json!({})));
                        }
                    }
                }
            }
        }
        // L_min: spends / direct deps between pooled txs
        let mut l_min: HashSet<(ProposalShortId, ProposalShortId)> = HashSet::new();
        let mut l_allowed: HashSet<(ProposalShortId, ProposalShortId)> = HashSet::new();
        for e in &d.entries {
            for op in e.tx.input_pts_iter() {
                if let Some(p) = tx_by_hash.get(&h(&op.tx_hash())) {
                    l_min.insert((p.id.clone(), e.id.clone()));
                }
                // consumer after dep-user
                for (dop, ids) in &d.edge_deps {
                    if *dop == op {
                        for id in ids {
                            if *id != e.id {
                                l_allowed.insert((id.clone(), e.id.clone()));
                            }
                        }
                    }
                }
            }
            for dep in e.tx.cell_deps_iter() {
                if let Some(p) = tx_by_hash.get(&h(&dep.out_point().tx_hash())) {
                    l_min.insert((p.id.clone(), e.id.clone()));
                }
            }
        }
        // dep-group members recorded in the dep index
        for (dop, ids) in &d.edge_deps {
            if let Some(p) = tx_by_hash.get(&h(&dop.tx_hash())) {
                for id in ids {
                    if *id != p.id {
                        l_allowed.insert((p.id.clone(), id.clone()));
                    }
                }
            }
        }
        for l in &l_min {
            r.c11.count("obs.links_checked");
            if !links.contains(l) {
                r.c11.violation("links.missing_for_spend_or_dep", format!("{} creates a cell spent / depended on by {} but no parent/child link is recorded", id_hex(&l.0), id_hex(&l.1)), w(json!({})));
            }
        }
        for l in &links {
            if !l_min.contains(l) && !l_allowed.contains(l) {
                r.c11.violation("links.without_spend_or_dep", format!("link {} -> {} does not correspond to any spend or dependency between the two", id_hex(&l.0), id_hex(&l.1)), w(json!({})));
            }
        }
        // I3: aggregates over the transitive closure of the pool's own links
        let mut under_now: Vec<(ProposalShortId, u64, u64, bool)> = vec![];
        for e in &d.entries {
            let anc = transitive(&by, &e.id, true);
            let desc = transitive(&by, &e.id, false);
            let fold = |set: &HashSet<ProposalShortId>| -> (usize, usize, u64, u64) {
                let mut t = (1usize, e.size, e.cycles, e.fee);
                for x in set {
                    if let Some(o) = by.get(x) {
                        t = (t.0 + 1, t.1 + o.size, t.2 + o.cycles, t.3 + o.fee);
                    }
                }
                t
            };
            let wa = fold(&anc);
            let wd = fold(&desc);
            r.c11.eval();
            // cause classification: was some transaction of this family inserted into the pool
            // after one of its (already pooled) descendants? (re-add after reorg, late parent)
            let late_parent = tainted.contains(&e.id);
            let cause = if late_parent { "@ancestor_inserted_after_pooled_descendant" } else if tainted_mid.contains(&e.id) { "@entry_committed_before_its_pooled_ancestor" } else { "" };
            if late_parent && (e.ancestors != wa || e.descendants != wd) {
                r.c11.count("obs.aggregate_mismatch_with_late_parent");
            }
            // evidence for the C13 cause classification (see `understated`)
            let (us, uc) = ((wa.1 as u64).saturating_sub(e.ancestors.1 as u64), wa.2.saturating_sub(e.ancestors.2));
            if us > 0 || uc > 0 {
                let known_cause = !cause.is_empty();
                under_now.push((e.id.clone(), us, uc, known_cause));
            }
            if e.ancestors.1 == 0 && e.ancestors.2 == 0 {
                ZERO_ANCESTOR_WEIGHT_SEEN.fetch_add(1, Ordering::Relaxed);
                r.c11.count("obs.entries_with_zero_ancestor_weight");
            }
            if e.ancestors != wa {
                r.c11.violation(&format!("aggregates.ancestors_differ_from_recomputation{cause}"), format!("{}: pool says (count,size,cycles,fee)={:?}, recomputed over its links {:?}", id_hex(&e.id), e.ancestors, wa), w(json!({"entry": id_hex(&e.id)})));
            }
            if e.descendants != wd {
                r.c11.violation(&format!("aggregates.descendants_differ_from_recomputation{cause}"), format!("{}: pool says (count,size,cycles,fee)={:?}, recomputed over its links {:?}", id_hex(&e.id), e.descendants, wd), w(json!({"entry": id_hex(&e.id)})));
            }
            if wa.0 > d.max_ancestors_count {
                r.c11.violation(&format!("aggregates.ancestor_limit_exceeded{cause}"), format!("{} has {} ancestors (incl. itself) > limit {}", id_hex(&e.id), wa.0, d.max_ancestors_count), w(json!({})));
            }
        }
        // totals and counters
        let ts: usize = d.entries.iter().map(|e| e.size).sum();
        let tc: u64 = d.entries.iter().map(|e| e.cycles).sum();
        if ts != d.total_tx_size || tc != d.total_tx_cycles {
            r.c11.violation("totals.size_or_cycles_differ", format!("pool totals ({}, {}) but entries sum to ({}, {})", d.total_tx_size, d.total_tx_cycles, ts, tc), w(json!({})));
        }
        let cnt = |s: &str| d.entries.iter().filter(|e| e.status == s).count();
        if (cnt("pending"), cnt("gap"), cnt("proposed")) != d.counts {
            r.c11.violation("totals.status_counters_differ", format!("counters {:?} entries ({}, {}, {})", d.counts, cnt("pending"), cnt("gap"), cnt("proposed")), w(json!({})));
        }
        // the public API agrees with the dump (if nothing changed in between)
        if let (Ok(info), Ok(all)) = (self.n.shared.tx_pool_controller().get_tx_pool_info(), self.n.shared.tx_pool_controller().get_all_entry_info()) {
            // "nothing changed in between" is established, not assumed: a second dump taken after the
            // API answers must show the same entries and totals as the one being judged
            let unchanged = match self.n.shared.tx_pool_controller().verif_dump() {
                Ok(d2) => {
                    let ids = |x: &VerifPoolDump| -> BTreeSet<Vec<u8>> { x.entries.iter().map(|e| e.id.as_slice().to_vec()).collect() };
                    let same = ids(&d2) == ids(d) && d2.total_tx_size == d.total_tx_size && d2.total_tx_cycles == d.total_tx_cycles && d2.snapshot_tip == d.snapshot_tip;
                    if !same {
                        r.c11.count("obs.pool_changed_between_the_dump_and_the_api_answers");
                        if r.c11.counter("obs.pool_changed_between_the_dump_and_the_api_answers") <= 3 {
                            let gone: Vec<String> = ids(d).difference(&ids(&d2)).map(|x| vbase::hex(&x[..6])).collect();
                            let new: Vec<String> = ids(&d2).difference(&ids(d)).map(|x| vbase::hex(&x[..6])).collect();
                            r.c11.note("pool_changed_while_compared_with_the_api", json!({"gone": gone, "new": new, "ops_tail": self.ops.iter().rev().take(6).rev().collect::<Vec<_>>()}));
                        }
                    }
                    same
                }
                Err(_) => false,
            };
            if unchanged && all.pending.len() + all.proposed.len() == d.entries.len() && info.tip_hash == d.snapshot_tip {
                r.c11.eval();
                if info.pending_size != cnt("pending") + cnt("gap") || info.proposed_size != cnt("proposed") || info.total_tx_size != ts || info.total_tx_cycles != tc {
                    r.c11.violation("api.tx_pool_info_differs", format!("info pending={} proposed={} size={} cycles={} vs entries ({}, {}, {}, {})", info.pending_size, info.proposed_size, info.total_tx_size, info.total_tx_cycles, cnt("pending") + cnt("gap"), cnt("proposed"), ts, tc), w(json!({})));
                }
                for e in &d.entries {
                    let m = if e.status == "proposed" { &all.proposed } else { &all.pending };
                    match m.get(&e.tx.hash()) {
                        None => r.c11.violation("api.entry_info_missing", format!("{} ({}) not in get_all_entry_info", id_hex(&e.id), e.status), w(json!({}))),
                        Some(i) => {
                            let anc = transitive(&by, &e.id, true);
                            let desc = transitive(&by, &e.id, false);
                            let a_size: usize = e.size + anc.iter().filter_map(|x| by.get(x)).map(|o| o.size).sum::<usize>();
                            let d_size: usize = e.size + desc.iter().filter_map(|x| by.get(x)).map(|o| o.size).sum::<usize>();
                            let late_parent = tainted.contains(&e.id);
                            let cause = if late_parent { "@ancestor_inserted_after_pooled_descendant" } else if tainted_mid.contains(&e.id) { "@entry_committed_before_its_pooled_ancestor" } else { "" };
                            if i.ancestors_count as usize != anc.len() + 1 || i.ancestors_size as usize != a_size || i.descendants_size as usize != d_size || i.fee.as_u64() != e.fee {
                                r.c11.violation(&format!("api.entry_info_aggregates_differ{cause}"), format!("{}: reported anc_count={} anc_size={} desc_size={} but recomputation gives {} {} {}", id_hex(&e.id), i.ancestors_count, i.ancestors_size, i.descendants_size, anc.len() + 1, a_size, d_size), w(json!({})));
                            }
                        }
                    }
                }
            }
        }
        // distinct link-graph shape
        let mut shape: Vec<(String, usize, usize, usize)> = d.entries.iter().map(|e| (e.status.to_string(), e.parents.len(), e.children.len(), e.ancestors.0)).collect();
        shape.sort();
        r.c11.distinct(vbase::fnv1a(format!("{shape:?}").as_bytes()));
        if d.entries.iter().any(|e| !e.parents.is_empty()) {
            r.c11.count("obs.dumps_with_links");
        }
        {
            let tip_now = h(&d.snapshot_tip);
            if tip_now != self.understated_tip {
                self.understated.clear();
                self.understated_tip = tip_now;
            }
            for (id, us, uc, known_cause) in under_now {
                let slot = self.understated.entry(id).or_insert((0, 0, true));
                slot.0 = slot.0.max(us);
                slot.1 = slot.1.max(uc);
                slot.2 &= known_cause;
            }
        }
    }

    // ----------------------------------------------------------------------------------
    // C12: pool vs new chain

    fn check_against_chain(&mut self, pre: &VerifPoolDump, post: &VerifPoolDump, old_tip: H, r: &mut Reports) {
        let rc: &RefChain = &self.tg.rc;
        let tip = self.n_tip();
        let st = rc.replay(&tip);
        let pool_hashes: HashMap<H, &VerifEntry> = post.entries.iter().map(|e| (h(&e.tx.hash()), e)).collect();
        r.c12.eval();
        r.c12.count("tip_changes");
        let w = |extra: serde_json::Value| self.witness(extra);
        // fork description
        let mut detached: Vec<H> = vec![];
        let mut attached: Vec<H> = vec![];
        {
            let mut a = old_tip;
            let mut b = tip;
            while rc.get(&a).number > rc.get(&b).number {
                detached.push(a);
                a = rc.get(&a).parent;
            }
            while rc.get(&b).number > rc.get(&a).number {
                attached.push(b);
                b = rc.get(&b).parent;
            }
            while a != b {
                detached.push(a);
                attached.push(b);
                a = rc.get(&a).parent;
                b = rc.get(&b).parent;
            }
            detached.reverse();
            attached.reverse();
        }
        // evidence: a pooled transaction had a cell dep on a cell that an attached block spends
        // (the dep user itself is not committed by the attached blocks)
        {
            let mut attached_ids: HashSet<ProposalShortId> = HashSet::new();
            let mut spent_by_attached: HashSet<(H, u32)> = HashSet::new();
            let mut spent_by_pooled_attached: HashSet<(H, u32)> = HashSet::new();
            for x in &attached {
                for tx in rc.get(x).block.transactions().iter().skip(1) {
                    let id = tx.proposal_short_id();
                    let pooled = pre.entries.iter().any(|e| e.id == id);
                    for op in tx.input_pts_iter() {
                        spent_by_attached.insert(op_key(&op));
                        if pooled {
                            spent_by_pooled_attached.insert(op_key(&op));
                        }
                    }
                    attached_ids.insert(id);
                }
            }
            for e in &pre.entries {
                if attached_ids.contains(&e.id) {
                    continue;
                }
                if e.tx.cell_deps_iter().any(|d| spent_by_attached.contains(&op_key(&d.out_point()))) {
                    r.c12.count("obs.dep_user_pooled_while_spender_committed");
                }
                if e.tx.cell_deps_iter().any(|d| spent_by_pooled_attached.contains(&op_key(&d.out_point()))) {
                    r.c12.count("obs.dep_user_pooled_while_pooled_spender_committed");
                }
            }
        }
        // (a) nothing committed on the main chain is pooled
        for e in &post.entries {
            if st.tx_info.contains_key(&h(&e.tx.hash())) {
                r.c12.violation("pool.contains_committed_tx", format!("tx {} is committed in main-chain block #{} but still pooled ({})", hx(&h(&e.tx.hash())), st.tx_info[&h(&e.tx.hash())].block_number, e.status), w(json!({})));
            }
        }
        // (b) inputs / deps live in chain or pool; header deps on main chain
        let main: HashSet<H> = st.chain.iter().cloned().collect();
        let mut new_causes: Vec<((ProposalShortId, H), &'static str)> = vec![];
        let known_causes = self.dead_cause.clone();
        // transactions committed in the blocks this tip change detached (cellbases included: a
        // pooled spender of a detached block's cellbase output loses its input for good)
        let detached_now: HashSet<H> = detached.iter().flat_map(|x| rc.get(x).block.transactions().into_iter()).map(|t| h(&t.hash())).collect();
        // pooled (before) families of the ids the chain reported as dropped from the window
        let dropped_family: HashSet<ProposalShortId> = {
            let by_pre: HashMap<ProposalShortId, &VerifEntry> = pre.entries.iter().map(|e| (e.id.clone(), e)).collect();
            let mut fam = HashSet::new();
            for n in &post.reorgs {
                for id in &n.detached_proposal_ids {
                    if by_pre.contains_key(id) {
                        fam.insert(id.clone());
                        fam.extend(transitive(&by_pre, id, false));
                    }
                }
            }
            fam
        };
        for e in &post.entries {
            for op in e.tx.input_pts_iter() {
                let k = op_key(&op);
                let ok = st.cells.contains_key(&k) || pool_hashes.get(&k.0).map(|p| (k.1 as usize) < p.tx.outputs().len()).unwrap_or(false);
                if !ok {
                    let mut cause = creator_cause(&st, &k.0, pre, &detached_now, &dropped_family);
                    if cause.is_empty() {
                        cause = known_causes.get(&(e.id.clone(), k.0)).copied().unwrap_or("");
                    } else {
                        new_causes.push(((e.id.clone(), k.0), cause));
                    }
                    r.c12.violation(&format!("pool.entry_with_dead_or_unknown_input{cause}"), format!("pooled tx {} ({}) spends {}:{} which is neither live on the new chain nor an output of a pooled tx", hx(&h(&e.tx.hash())), e.status, hx(&k.0), k.1), w(json!({"detached": detached.len(), "attached": attached.len()})));
                }
            }
            for dep in e.tx.cell_deps_iter() {
                let k = op_key(&dep.out_point());
                let ok = st.cells.contains_key(&k) || pool_hashes.get(&k.0).map(|p| (k.1 as usize) < p.tx.outputs().len()).unwrap_or(false);
                if !ok {
                    let mut cause = creator_cause(&st, &k.0, pre, &detached_now, &dropped_family);
                    if cause.is_empty() {
                        cause = known_causes.get(&(e.id.clone(), k.0)).copied().unwrap_or("");
                    } else {
                        new_causes.push(((e.id.clone(), k.0), cause));
                    }
                    r.c12.violation(&format!("pool.entry_with_dead_or_unknown_dep{cause}"), format!("pooled tx {} depends on {}:{} which is neither live nor a pooled output", hx(&h(&e.tx.hash())), hx(&k.0), k.1), w(json!({})));
                }
            }
            for hd in e.tx.header_deps_iter() {
                if !main.contains(&h(&hd)) {
                    r.c12.violation("pool.entry_with_detached_header_dep", format!("pooled tx {} has header dep {} which is not on the main chain", hx(&h(&e.tx.hash())), hx(&h(&hd))), w(json!({})));
                }
            }
        }
        // (c) re-add completeness: committed only on the abandoned branch, absent from pool
        for x in &detached {
            for tx in rc.get(x).block.transactions().iter().skip(1) {
                let th = h(&tx.hash());
                if st.tx_info.contains_key(&th) || pool_hashes.contains_key(&th) {
                    continue;
                }
                r.c12.count("obs.readd_candidates");
                r.c12.eval();
                if let Ok(Ok(_)) = self.n.shared.tx_pool_controller().test_accept_tx(tx.clone()) {
                    // admissible right now; only a violation if policy cannot explain its absence:
                    // (size) even with every detached transaction re-added the pool could not
                    // have exceeded its size limit, so nothing was evicted;
                    // (ancestors) its in-pool ancestor set is within the limit
                    let detached_bytes: usize = detached
                        .iter()
                        .flat_map(|x| rc.get(x).block.transactions().into_iter().skip(1))
                        .map(|t| t.data().serialized_size_in_block())
                        .sum();
                    let room = pre.total_tx_size + post.total_tx_size + detached_bytes <= self.pcfg.max_pool_bytes;
                    let by_post: HashMap<ProposalShortId, &VerifEntry> = post.entries.iter().map(|e| (e.id.clone(), e)).collect();
                    let mut anc: HashSet<ProposalShortId> = HashSet::new();
                    for op in tx.input_pts_iter() {
                        if let Some(p) = pool_hashes.get(&h(&op.tx_hash())) {
                            anc.insert(p.id.clone());
                            anc.extend(transitive(&by_post, &p.id, true));
                        }
                    }
                    let within_ancestors = anc.len() + 1 <= self.pcfg.max_ancestors;
                    if !(room && within_ancestors) {
                        r.c12.count("obs.readd_absence_explained_by_policy");
                    }
                    if room && within_ancestors {
                        r.c12.violation(
                            "pool.detached_admissible_tx_not_readded",
                            format!("tx {} was committed only on the abandoned branch, is not pooled, yet test_accept_tx accepts it and the pool has room", hx(&th)),
                            w(json!({"detached_blocks": detached.len(), "attached_blocks": attached.len()})),
                        );
                    }
                } else {
                    r.c12.count("obs.readd_not_admissible");
                }
            }
        }
        for e in &post.entries {
            let th = h(&e.tx.hash());
            if detached.iter().any(|x| rc.get(x).block.transactions().iter().skip(1).any(|t| h(&t.hash()) == th)) {
                r.c12.count("obs.readded_from_detached");
            }
        }
        // (d) stage vs window (mine mode)
        let (set, gap) = rc.window_sets(&tip);
        let mut hist = (0, 0, 0);
        for e in &post.entries {
            let want = if set.contains(&e.id) { "proposed" } else if gap.contains(&e.id) { "gap" } else { "pending" };
            match e.status {
                "pending" => hist.0 += 1,
                "gap" => hist.1 += 1,
                _ => hist.2 += 1,
            }
            r.c12.eval();
            if e.status != want {
                r.c12.violation(
                    &format!("stage.pool_{}_but_window_says_{}", e.status, want),
                    format!("pooled tx {} is {} but its id is {} in the proposal window of the new tip #{}", id_hex(&e.id), e.status, want, rc.get(&tip).number),
                    w(json!({"detached_blocks": detached.len(), "attached_blocks": attached.len()})),
                );
            }
        }
        if hist.1 > 0 {
            r.c12.count("obs.gap_entries_seen");
        }
        if hist.2 > 0 {
            r.c12.count("obs.proposed_entries_seen");
        }
        // (e) reorg notifications
        r.c12.eval();
        let mut cur = old_tip;
        for n in &post.reorgs {
            let nt = h(&n.snapshot_tip);
            if !rc.contains(&nt) {
                continue;
            }
            // expected fork cur -> nt
            let (mut det, mut att) = (vec![], vec![]);
            {
                let mut a = cur;
                let mut b = nt;
                while rc.get(&a).number > rc.get(&b).number {
                    det.push(a);
                    a = rc.get(&a).parent;
                }
                while rc.get(&b).number > rc.get(&a).number {
                    att.push(b);
                    b = rc.get(&b).parent;
                }
                while a != b {
                    det.push(a);
                    att.push(b);
                    a = rc.get(&a).parent;
                    b = rc.get(&b).parent;
                }
                det.reverse();
                att.reverse();
            }
            let got_det: Vec<H> = n.detached.iter().map(h).collect();
            let got_att: Vec<H> = n.attached.iter().map(h).collect();
            if got_det != det || got_att != att {
                r.c12.violation("reorg_notification.blocks_differ_from_fork", format!("notification for tip {}: detached {:?} attached {:?}; model fork detached {:?} attached {:?}", hx(&nt), got_det.iter().map(hx).collect::<Vec<_>>(), got_att.iter().map(hx).collect::<Vec<_>>(), det.iter().map(hx).collect::<Vec<_>>(), att.iter().map(hx).collect::<Vec<_>>()), w(json!({})));
            }
            let (old_set, _) = rc.window_sets(&cur);
            let (new_set, _) = rc.window_sets(&nt);
            let want: BTreeSet<String> = old_set.difference(&new_set).map(id_hex).collect();
            let got: BTreeSet<String> = n.detached_proposal_ids.iter().map(id_hex).collect();
            r.c12.count("obs.reorg_notifications");
            r.c20.eval();
            r.c20.count("obs.dropped_id_reports");
            if !want.is_empty() {
                r.c20.count("obs.dropped_id_reports_nonempty");
            }
            r.c20.distinct(vbase::fnv1a(format!("{}{}{}", hx(&cur), hx(&nt), want.len()).as_bytes()));
            if want != got {
                r.c12.violation("reorg_notification.dropped_ids_differ_from_window", format!("tip {} -> {}: reported dropped ids {:?}, ids that left the window {:?}", hx(&cur), hx(&nt), got, want), w(json!({})));
                r.c20.violation("proposal_view.dropped_ids_differ_from_window@pool_notification", format!("tip {} -> {}: ids reported to the pool as dropped {:?}, ids that left the committable set of the model window {:?}", hx(&cur), hx(&nt), got, want), w(json!({"detached_blocks": det.len(), "attached_blocks": att.len()})));
            }
            cur = nt;
        }
        // C20: the proposal view of the published snapshot of this node (it runs a pool and an
        // assembler) against the model window of the tip the snapshot names
        {
            let snap = self.n.shared.snapshot();
            let st = h(&snap.tip_hash());
            if rc.contains(&st) {
                let (mset, mgap) = rc.window_sets(&st);
                let nset: BTreeSet<String> = snap.proposals().set().iter().map(id_hex).collect();
                let ngap: BTreeSet<String> = snap.proposals().gap().iter().map(id_hex).collect();
                let mset: BTreeSet<String> = mset.iter().map(id_hex).collect();
                let mgap: BTreeSet<String> = mgap.iter().map(id_hex).collect();
                r.c20.eval();
                r.c20.count("obs.views_checked");
                if nset != mset {
                    r.c20.violation("proposal_view.set_differs_from_window@node_with_pool", format!("tip {}: node set {:?} model {:?}", hx(&st), nset, mset), w(json!({})));
                }
                if ngap != mgap {
                    r.c20.violation("proposal_view.gap_differs_from_window@node_with_pool", format!("tip {}: node gap {:?} model {:?}", hx(&st), ngap, mgap), w(json!({})));
                }
            }
        }
        if cur != tip {
            r.c12.violation("reorg_notification.missing_for_tip_change", format!("pool notifications end at {} but the tip is {}", hx(&cur), hx(&tip)), w(json!({})));
        }
        r.c12.distinct(vbase::fnv1a(format!("{}{}{}{:?}", detached.len(), attached.len(), post.entries.len(), hist).as_bytes()));
        if r.c12.samples.len() < 5 && !detached.is_empty() {
            r.c12.sample(json!({"old_tip": hx(&old_tip), "new_tip": hx(&tip), "detached": detached.len(), "attached": attached.len(), "pool_before": pre.entries.len(), "pool_after": post.entries.len(), "stages(pending,gap,proposed)": [hist.0, hist.1, hist.2], "notifications": post.reorgs.len()}));
        }
        for (k, c) in new_causes {
            self.dead_cause.insert(k, c);
        }
    }

    // ----------------------------------------------------------------------------------
    // C13

    fn op_template(&mut self, r: &mut Reports) -> bool {
        self.check_template(r, 450, false).is_some()
    }

    /// Let the block assembler digest the update messages it has been sent: poll until the work
    /// id of the template has not changed for a few polls (bounded; a template is judged whenever
    /// it is taken, so polling too briefly only loses detection power).
    fn settle_template(&self) {
        let mut last: Option<u64> = None;
        let mut stable = 0;
        for _ in 0..40 {
            if let Ok(Ok(t)) = self.n.shared.tx_pool_controller().get_block_template(None, None, None) {
                let w: u64 = t.work_id.into();
                if last == Some(w) {
                    stable += 1;
                    if stable >= 5 {
                        return;
                    }
                } else {
                    stable = 0;
                    last = Some(w);
                }
            }
            std::thread::sleep(Duration::from_millis(1));
        }
    }

    /// Take the current template, seal it and run it through the node's own verification (plus
    /// the structural checks); with probability `mine_pm` per mille it is then mined. With
    /// `only_if_new` a template whose work id was verified before is skipped.
    /// Returns None when the session must stop; Some((txs, uncles, proposals, cycles)) of the
    /// verified template otherwise (zeros when it was stale / skipped).
    fn check_template(&mut self, r: &mut Reports, mine_pm: u64, only_if_new: bool) -> Option<(usize, usize, usize, u64)> {
        let none = Some((0, 0, 0, 0));
        let Some(pre) = self.quiesce() else { return None };
        self.judge_sampled(&pre, r);
        let tip = self.n_tip();
        let tpl = match self.n.shared.tx_pool_controller().get_block_template(None, None, None) {
            Ok(Ok(t)) => t,
            other => {
                r.c13.inconclusive(&format!("harness: get_block_template failed: {:?}", other.map(|x| x.map(|_| ()).map_err(|e| e.to_string())).map_err(|e| e.to_string())));
                return None;
            }
        };
        let work_id: u64 = tpl.work_id.into();
        if only_if_new && self.last_work_id == Some(work_id) {
            return none;
        }
        let parent: packed::Byte32 = tpl.parent_hash.clone().into();
        if h(&parent) != tip {
            // stale template: must catch up within a bounded number of polls
            r.c13.count("templates_stale");
            let mut ok = false;
            for _ in 0..200 {
                std::thread::sleep(Duration::from_millis(2));
                if let Ok(Ok(t)) = self.n.shared.tx_pool_controller().get_block_template(None, None, None) {
                    let p: packed::Byte32 = t.parent_hash.clone().into();
                    if h(&p) == self.n_tip() {
                        ok = true;
                        break;
                    }
                }
            }
            if !ok {
                r.c13.inconclusive("template stayed stale for 200 polls");
            }
            return none;
        }
        self.last_work_id = Some(work_id);
        let Some((verdict, block, rejected)) = self.judge_template(r, tpl, &pre, tip, None) else { return none };
        if rejected {
            return verdict;
        }
        let wit = self.witness(json!({"template_parent": vbase::hex(&tip), "mined": true}));
        // mine a fraction: the node itself and a second node must accept it
        if mine_pm > 0 && self.rng.chance(mine_pm, 1000) {
            let res = self.n.chain().blocking_process_block(std::sync::Arc::new(block.clone()));
            r.c13.eval();
            r.c13.count("templates_mined");
            if !matches!(res, Ok(true)) {
                r.c13.violation("template.mined_block_refused_by_node", format!("{:?}", res.map_err(|e| e.to_string())), wit.clone());
                return None;
            }
            let known = &self.known;
            let pool_known: HashMap<ProposalShortId, TransactionView> = pre.entries.iter().map(|e| (e.id.clone(), e.tx.clone())).collect();
            let lookup = |id: &ProposalShortId| known.get(id).cloned().or_else(|| pool_known.get(id).cloned());
            match self.tg.adopt(&block, &lookup) {
                Ok(_) => {}
                Err(e) => {
                    r.c13.violation("template.mined_block_refused_by_second_node", e, wit);
                    return None;
                }
            }
            self.now = self.now.max(block.timestamp());
            vnode::node::set_time(self.now);
            self.ops.push(format!("mined template -> tip #{}", block.number()));
            r.c11.count("ops.block");
            return if self.after_tip_change(&pre, tip, r) { verdict } else { None };
        }
        verdict
    }

    /// Seal a template whose parent is the node's current tip `tip` and run it through the node's
    /// own verification plus the structural checks. `pre` is a dump of the pool taken at
    /// quiescence on this tip. `sampled`: Some(label) for a template the sampler thread caught in
    /// passing (between two quiescent points), None for one taken at quiescence.
    /// Returns None when the template turned out to be stale; otherwise (verdict tuple, sealed
    /// block, refused by verification).
    #[allow(clippy::type_complexity)]
    fn judge_template(&mut self, r: &mut Reports, tpl: ckb_jsonrpc_types::BlockTemplate, pre: &VerifPoolDump, tip: H, sampled: Option<&str>) -> Option<(Option<(usize, usize, usize, u64)>, BlockView, bool)> {
        let cycles_limit: u64 = tpl.cycles_limit.into();
        let bytes_limit: u64 = tpl.bytes_limit.into();
        let n_txs = tpl.transactions.len();
        let n_props = tpl.proposals.len();
        let n_uncles = tpl.uncles.len();
        let block: BlockView = Into::<packed::Block>::into(tpl).into_view();
        let block = builder::seal(&self.gi.consensus, block);
        r.c13.eval();
        r.c13.count("templates_verified");
        if sampled.is_some() {
            r.c13.count("sampled.templates_judged");
            if n_txs > 0 {
                r.c13.count("sampled.templates_judged_with_txs");
            }
        }
        if self.flavor == Flavor::TinyReward {
            let finalises = block.number() > self.gi.consensus.finalization_delay_length();
            let empty = block.transactions().first().map(|cb| cb.outputs().is_empty()).unwrap_or(false);
            if finalises {
                r.c13.count(if empty { "obs.tiny_reward.templates_with_empty_cellbase" } else { "obs.tiny_reward.templates_with_cellbase_output" });
            }
        }
        if n_txs > 0 {
            r.c13.count("templates_with_txs");
        }
        if n_uncles > 0 {
            r.c13.count("templates_with_uncles");
        }
        if n_props > 0 {
            r.c13.count("templates_with_proposals");
        }
        r.c13.distinct(vbase::fnv1a(format!("{:?}{}{}{}{}", tip, n_txs, n_props, n_uncles, block.epoch().index()).as_bytes()));
        let wit = self.witness(json!({"template_parent": vbase::hex(&tip), "txs": n_txs, "proposals": n_props, "uncles": n_uncles, "taken": sampled.map(|l| format!("by the sampler thread, {l}")).unwrap_or_else(|| "at quiescence".into()),
            "template_txs": block.transactions().iter().skip(1).map(|t| format!("{}{}", hx(&h(&t.hash())), if pre.entries.iter().any(|e| e.tx.hash() == t.hash()) { "" } else { " (not pooled now)" })).collect::<Vec<_>>()}));
        let tpl_cycles;
        match full_verify_noncommit(&self.n.shared, &block) {
            Ok(cycles) => {
                tpl_cycles = cycles;
                if cycles > cycles_limit {
                    r.c13.violation("template.cycles_exceed_advertised_limit", format!("{cycles} > {cycles_limit}"), wit.clone());
                }
            }
            Err(e) if e.starts_with("stale") => {
                r.c13.count("templates_stale");
                return None;
            }
            Err(e) => {
                let kind: String = e.split(':').take(2).collect::<Vec<_>>().join(":").chars().take(90).collect();
                // hashes do not belong into a signature
                let kind = match kind.find("(Byte32(") { Some(i) => format!("{})", &kind[..i]), None => kind };
                // cause classification (only what the harness can prove from the dump taken right
                // before the template): the template is over the size / cycle limit, the pool's
                // own ancestor aggregates of template members are understated (compared with the
                // recomputation over the pool's links) by at least the excess, and every such
                // member belongs to a family the C11 taint tracking has marked (aggregates drift
                // after a late parent / a child committed before its pooled ancestor: known C11
                // findings). The selector budgets packages by those aggregates.
                let mut cause = "";
                let mut all_tainted = true;
                let mut understated_list: Vec<String> = vec![];
                let over_bytes = e.contains("ExceededMaximumBlockBytes");
                let over_cycles = e.contains("ExceededMaximumCycles");
                if over_bytes || over_cycles {
                    let by: HashMap<ProposalShortId, &VerifEntry> = pre.entries.iter().map(|x| (x.id.clone(), x)).collect();
                    let mut understated: u64 = 0;
                    let mut tpl_cycles_sum: u64 = 0;
                    let same_tip = self.understated_tip == tip;
                    for tx in block.transactions().iter().skip(1) {
                        let id = tx.proposal_short_id();
                        match by.get(&id) {
                            Some(en) => tpl_cycles_sum += en.cycles,
                            // no longer pooled (evicted / replaced since the template was filled)
                            None => tpl_cycles_sum += UNIT_CYCLES.load(Ordering::Relaxed).max(1) * tx.inputs().len() as u64,
                        }
                        if !same_tip {
                            continue;
                        }
                        if let Some((us, uc, known_cause)) = self.understated.get(&id) {
                            let u = if over_bytes { *us } else { *uc };
                            if u > 0 {
                                all_tainted &= *known_cause;
                                understated_list.push(format!("{}: pool understated its ancestors by size {} / cycles {} in a dump since this tip ({})", id_hex(&id), us, uc, if by.contains_key(&id) { "still pooled" } else { "no longer pooled" }));
                            }
                            understated += u;
                        }
                    }
                    let excess = if over_bytes {
                        (block.data().serialized_size_without_uncle_proposals() as u64).saturating_sub(bytes_limit)
                    } else {
                        tpl_cycles_sum.saturating_sub(cycles_limit)
                    };
                    if excess > 0 && understated >= excess && all_tainted {
                        cause = "@template_tx_ancestor_aggregates_understated_by_pool";
                        r.c13.count("obs.over_limit_template_with_understated_pool_aggregates");
                    } else {
                        understated_list.clear();
                    }
                    understated_list.push(format!("excess over the limit: {excess}; total understatement of template members: {understated}"));
                }
                let size = block.data().serialized_size_without_uncle_proposals();
                let signature = if cause.is_empty() {
                    format!("template.rejected_by_own_verification@{kind}")
                } else {
                    format!("template.exceeds_max_block_{}@pool_ancestor_aggregates_understated", if over_bytes { "bytes" } else { "cycles" })
                };
                r.c13.violation(&signature, format!("template on tip {} (#{}) with {} txs, {} proposals, {} uncles (size {} / limit {}, cycles limit {}) fails the node's own verification: {}; {}", hx(&tip), self.tg.rc.get(&tip).number, n_txs, n_props, n_uncles, size, bytes_limit, cycles_limit, e, understated_list.join("; ")), wit.clone());
                return Some((Some((n_txs, n_uncles, n_props, 0)), block, true));
            }
        }
        let verdict = Some((n_txs, n_uncles, n_props, tpl_cycles));
        // structural checks
        let size = block.data().serialized_size_without_uncle_proposals() as u64;
        if size > bytes_limit {
            r.c13.violation("template.size_exceeds_advertised_limit", format!("{size} > {bytes_limit}"), wit.clone());
        }
        // parents-first and all in-pool ancestors present
        let by_hash: HashMap<H, &VerifEntry> = pre.entries.iter().map(|e| (h(&e.tx.hash()), e)).collect();
        let mut seen: HashSet<H> = HashSet::new();
        let (set, _) = self.tg.rc.window_sets(&tip);
        for tx in block.transactions().iter().skip(1) {
            let th = h(&tx.hash());
            for op in tx.input_pts_iter() {
                let ph = h(&op.tx_hash());
                if by_hash.contains_key(&ph) && !seen.contains(&ph) {
                    r.c13.violation("template.tx_without_its_in_pool_ancestor", format!("template tx {} spends an output of pooled tx {} which does not precede it in the template", hx(&th), hx(&ph)), wit.clone());
                }
            }
            if !set.contains(&tx.proposal_short_id()) {
                r.c13.violation("template.commits_unproposed_tx", format!("template commits {} whose id is not in the model's proposal set", hx(&th)), wit.clone());
            }
            seen.insert(th);
        }
        if r.c13.samples.len() < 5 && n_txs > 0 {
            r.c13.sample(json!({"tip": format!("{}#{}", hx(&tip), self.tg.rc.get(&tip).number), "txs": n_txs, "proposals": n_props, "uncles": n_uncles, "size": size, "bytes_limit": bytes_limit, "epoch": format!("{}", block.epoch())}));
        }
        self.ops.push(format!("template{} on #{} txs={} props={} uncles={}", sampled.map(|l| format!(" (sampled {l})")).unwrap_or_default(), self.tg.rc.get(&tip).number, n_txs, n_props, n_uncles));
        Some((verdict, block, false))
    }
}

// --------------------------------------------------------------------------------------
// Directed scenarios: histories the random mix reaches too rarely. Every step goes through the
// ordinary operations above, so the ordinary oracles judge every intermediate state.

impl Sess {
    /// Plain always_success cells that are live at N's tip, created at or below block
    /// `max_number`, neither spent nor used as a cell dep by a pooled transaction and not
    /// reserved by an earlier scenario. Deterministic order, then shuffled with the scenario rng.
    fn chain_cells(&mut self, d: &VerifPoolDump, max_number: u64) -> Vec<(OutPoint, u64)> {
        let st = self.tg.rc.replay(&self.n_tip());
        let mut used: HashSet<(H, u32)> = d.edge_inputs.iter().map(|(op, _)| op_key(op)).collect();
        used.extend(d.edge_deps.iter().map(|(op, _)| op_key(op)));
        let mut v = vec![];
        for (k, c) in st.cells.iter() {
            if c.block_number > max_number || used.contains(k) || self.tg.keep.contains(k) {
                continue;
            }
            let Ok(out) = packed::CellOutput::from_slice(&c.output) else { continue };
            if out.type_().to_opt().is_some() || out.lock().code_hash() != self.gi.always_success_script.code_hash() || out.lock().hash_type() != self.gi.always_success_script.hash_type() {
                continue;
            }
            let cap: u64 = out.capacity().into();
            v.push((OutPoint::new(packed::Byte32::from_slice(&k.0).unwrap(), k.1), cap));
        }
        self.xrng.shuffle(&mut v);
        v
    }

    /// One-output transfer of deterministic size: pays `rate` shannons per 1000 bytes (+ `extra`).
    fn simple_tx(&mut self, inputs: &[(OutPoint, u64)], rate: u64, extra: u64, deps: &[CellDep], pad: usize) -> Option<TransactionView> {
        let in_cap: u64 = inputs.iter().map(|(_, c)| *c).sum();
        let ins: Vec<(OutPoint, u64)> = inputs.iter().map(|(op, _)| (op.clone(), 0u64)).collect();
        let lock = builder::lock_with_args(&self.gi, &[self.xrng.below(4) as u8]);
        let build = |fee: u64, salt: u64| -> Option<TransactionView> {
            let mut data = vec![0x5au8; pad];
            data.extend_from_slice(&salt.to_le_bytes());
            let cap = in_cap.checked_sub(fee)?;
            if cap < builder::occupied(&lock, &None, data.len()) {
                return None;
            }
            Some(builder::build_tx(&self.gi, &ins, &[OutSpec { capacity: cap, lock: lock.clone(), type_: None, data }], deps, &[], None))
        };
        self.salt += 1;
        let salt = self.salt;
        let size = build(0, salt)?.data().serialized_size_in_block() as u64;
        build(size * rate / 1000 + 1 + extra, salt)
    }

    fn committed_on_main(&self, tx: &TransactionView) -> bool {
        self.tg.rc.replay(&self.n_tip()).tx_info.contains_key(&h(&tx.hash()))
    }

    fn in_proposed_set(&self, txs: &[TransactionView]) -> bool {
        let (set, _) = self.tg.rc.window_sets(&self.n_tip());
        txs.iter().all(|t| set.contains(&t.proposal_short_id()))
    }

    /// Have `txs` proposed by the next block and extend the chain (no further proposals) until
    /// their ids are in the proposed set of the tip, i.e. the next block may commit them.
    /// Ok(true): they are; Ok(false): gave up; Err: session must stop.
    fn propose_and_wait(&mut self, r: &mut Reports, txs: &[TransactionView]) -> Result<bool, ()> {
        if !self.op_block_ex(r, 0, txs, false) {
            return Err(());
        }
        let w_close = self.tg.rc.window.0;
        for _ in 0..(w_close + 1) {
            if self.in_proposed_set(txs) {
                return Ok(true);
            }
            if txs.iter().any(|t| self.committed_on_main(t)) {
                return Ok(false);
            }
            if !self.op_block_ex(r, 0, &[], false) {
                return Err(());
            }
        }
        Ok(self.in_proposed_set(txs))
    }


    /// C11 (replacement accounting): the replaced set holds transactions paying *exactly* the
    /// same fee. Shapes: two unrelated transactions, a parent and its child, two parents and a
    /// common child. The replacement spends the roots' inputs and pays
    /// `sum(fees of roots and their descendants) + min_rbf_rate * size - k` for k = 0 (the
    /// threshold), 1, half a replaced fee, one replaced fee. `judge_submission` decides.
    fn op_rbf_equal(&mut self, r: &mut Reports) -> bool {
        if !self.pcfg.rbf {
            return self.op_submit(r, true);
        }
        let Some(pre) = self.quiesce() else { return false };
        let tip_n = self.tg.rc.get(&self.n_tip()).number;
        let cells = self.chain_cells(&pre, tip_n);
        if cells.len() < 2 {
            return true;
        }
        let shape = if self.flavor == Flavor::SmallCycles { 1 } else { self.xrng.below(3) };
        r.c11.count("ops.scenario_rbf_equal_fees");
        let rate = self.min_fee_rate + 100 + self.xrng.below(2_500);
        let mut olds: Vec<TransactionView> = vec![];
        let mut new_inputs: Vec<(OutPoint, u64)> = vec![];
        let Some(r1) = self.simple_tx(&[cells[0].clone()], rate, 0, &[], 0) else { return true };
        new_inputs.push(cells[0].clone());
        self.tg.keep.insert(op_key(&cells[0].0));
        olds.push(r1.clone());
        if shape != 1 {
            let Some(r2) = self.simple_tx(&[cells[1].clone()], rate, 0, &[], 0) else { return true };
            new_inputs.push(cells[1].clone());
            self.tg.keep.insert(op_key(&cells[1].0));
            olds.push(r2);
        }
        let cap_of = |t: &TransactionView| -> u64 { t.outputs().get(0).unwrap().capacity().into() };
        match shape {
            1 => {
                // child of r1 with the same fee (same shape, same rate)
                let Some(c) = self.simple_tx(&[(OutPoint::new(r1.hash(), 0), cap_of(&r1))], rate, 0, &[], 0) else { return true };
                olds.push(c);
            }
            2 => {
                let ins = [(OutPoint::new(olds[0].hash(), 0), cap_of(&olds[0])), (OutPoint::new(olds[1].hash(), 0), cap_of(&olds[1]))];
                let Some(c) = self.simple_tx(&ins, rate, 0, &[], 0) else { return true };
                olds.push(c);
            }
            _ => {}
        }
        for t in &olds {
            let Some(d) = self.quiesce() else { return false };
            match self.submit_tx(r, t, &d, "(rbf-equal original)") {
                None => return false,
                Some(true) => {}
                Some(false) => return true,
            }
        }
        let Some(pre2) = self.quiesce() else { return false };
        let fees: Vec<u64> = olds.iter().filter_map(|t| pre2.entries.iter().find(|e| e.id == t.proposal_short_id()).map(|e| e.fee)).collect();
        if fees.len() != olds.len() {
            return true;
        }
        let equal = fees.iter().filter(|f| **f == fees[0]).count();
        if equal >= 2 {
            r.c11.count("obs.rbf.replaced_set_with_equal_fees");
        }
        let sum: u64 = fees.iter().sum();
        let k = match self.xrng.below(4) {
            0 => 0,
            1 => 1,
            2 => fees[0] / 2,
            _ => fees[0],
        };
        // simple_tx pays size * rate / 1000 + 1 + extra
        let extra = (sum - 1).saturating_sub(k);
        let min_rbf = self.min_rbf_rate;
        let Some(new) = self.simple_tx(&new_inputs, min_rbf, extra, &[], 0) else { return true };
        match self.submit_tx(r, &new, &pre2, if k == 0 { "(rbf-equal replacement at the threshold)" } else { "(rbf-equal replacement below the threshold)" }) {
            None => false,
            Some(acc) => {
                r.c11.count(if acc { "obs.rbf.equal_fee_replacement_admitted" } else { "obs.rbf.equal_fee_replacement_refused" });
                true
            }
        }
    }

    /// C11 / C12 (parent enters the pool below its pooled children, then leaves by conflict):
    /// D (spends c0, creates c) is committed; P (cell dep on c) and S (spends c) are pooled; a
    /// competing branch forking below D's proposal does not contain D, so the pool takes D back
    /// with P and S already there; then the new branch commits D', a double spend of c0.
    /// Every step ends in the ordinary post-operation oracles.
    fn op_readd_family(&mut self, r: &mut Reports) -> bool {
        if self.flavor == Flavor::SmallCycles {
            return self.op_cpfp(r);
        }
        let Some(pre) = self.quiesce() else { return false };
        let tip0 = self.tg.rc.get(&self.n_tip()).number;
        let (w_close, w_far) = self.tg.rc.window;
        let cells = self.chain_cells(&pre, tip0);
        if cells.len() < 3 {
            return true;
        }
        let (c0, g1) = (cells[0].clone(), cells[1].clone());
        for (op, _) in [&c0, &g1] {
            self.tg.keep.insert(op_key(op));
        }
        let rate = self.min_fee_rate + 300 + self.xrng.below(2_000);
        let Some(d) = self.simple_tx(&[c0.clone()], rate, 0, &[], 0) else { return true };
        match self.submit_tx(r, &d, &pre, "(readd: creator)") {
            None => return false,
            Some(false) => return true,
            Some(true) => {}
        }
        match self.propose_and_wait(r, std::slice::from_ref(&d)) {
            Err(()) => return false,
            Ok(false) => return true,
            Ok(true) => {}
        }
        for _ in 0..(w_far + 2) {
            if self.committed_on_main(&d) {
                break;
            }
            if !self.op_block_ex(r, 0, &[], false) {
                return false;
            }
        }
        if !self.committed_on_main(&d) {
            return true;
        }
        let c = (OutPoint::new(d.hash(), 0), d.outputs().get(0).unwrap().capacity().into());
        self.tg.keep.insert(op_key(&c.0));
        let dep = CellDep::new_builder().out_point(c.0.clone()).build();
        let rate = self.min_fee_rate + 300 + self.xrng.below(2_000);
        let Some(p) = self.simple_tx(&[g1.clone()], rate, 0, &[dep], 3) else { return true };
        let Some(s) = self.simple_tx(&[c.clone()], rate + 50, 0, &[], 5) else { return true };
        let order: Vec<(&TransactionView, &str)> = if self.xrng.chance(500, 1000) { vec![(&p, "(readd: dep user)"), (&s, "(readd: spender)")] } else { vec![(&s, "(readd: spender)"), (&p, "(readd: dep user)")] };
        for (t, label) in order {
            let Some(dd) = self.quiesce() else { return false };
            match self.submit_tx(r, t, &dd, label) {
                None => return false,
                Some(false) => return true,
                Some(true) => {}
            }
        }
        // competing branch from below every block made since `tip0` (D's proposal included)
        let tip_n = self.tg.rc.get(&self.n_tip()).number;
        let depth = tip_n - tip0;
        if depth == 0 || depth > 40 {
            return true;
        }
        r.c12.count("ops.scenario_readd_family");
        if !self.op_block_ex(r, depth, &[], false) {
            return false;
        }
        let Some(mid) = self.quiesce() else { return false };
        let has = |dmp: &VerifPoolDump, t: &TransactionView| dmp.entries.iter().any(|e| e.id == t.proposal_short_id());
        if self.committed_on_main(&d) || !(has(&mid, &d) && has(&mid, &p) && has(&mid, &s)) {
            r.c12.count("obs.readd_family.family_not_complete_after_reorg");
            return true;
        }
        r.c12.count("obs.readd_family.creator_taken_back_below_dep_user_and_spender");
        // the new branch commits a double spend of D
        let Some(d2) = self.simple_tx(&[c0.clone()], rate + 700, 0, &[], 9) else { return true };
        self.known.insert(d2.proposal_short_id(), d2.clone());
        if !self.op_block_ex(r, 0, std::slice::from_ref(&d2), false) {
            return false;
        }
        for _ in 0..(w_close + w_far + 2) {
            if self.committed_on_main(&d2) {
                r.c12.count("obs.readd_family.double_spend_of_creator_committed");
                break;
            }
            if !self.op_block_ex(r, 0, &[], false) {
                return false;
            }
        }
        true
    }


    /// C11 (eviction of "cell ref parents" at the ancestor limit): a chain A0 <- A1 <- .. of
    /// max_ancestors pooled transactions, each with a cell dep on its own chain cell c_i, the
    /// first one paying the lowest fee rate (so it is the first eviction candidate and takes its
    /// descendants with it); then X spends every c_i: all A_i are its parents through the cell
    /// reference order, the ancestor limit is exceeded and can only be met by evicting them.
    fn op_cellref_evict(&mut self, r: &mut Reports) -> bool {
        let l = self.pcfg.max_ancestors;
        if self.flavor == Flavor::SmallCycles || l > 8 {
            return self.op_submit(r, true);
        }
        let Some(pre) = self.quiesce() else { return false };
        let tip_n = self.tg.rc.get(&self.n_tip()).number;
        let cells = self.chain_cells(&pre, tip_n);
        if cells.len() < l + 2 {
            return true;
        }
        r.c11.count("ops.scenario_cellref_evict");
        let mut prev: (OutPoint, u64) = cells[l].clone();
        self.tg.keep.insert(op_key(&prev.0));
        let mut chain: Vec<TransactionView> = vec![];
        for i in 0..l {
            let c = &cells[i];
            self.tg.keep.insert(op_key(&c.0));
            let dep = CellDep::new_builder().out_point(c.0.clone()).build();
            // A0 cheapest; later members pay clearly more
            let rate = if i == 0 { self.min_fee_rate + 20 } else { self.min_fee_rate + 2_000 + 500 * i as u64 };
            let Some(t) = self.simple_tx(std::slice::from_ref(&prev), rate, 0, &[dep], 0) else { return true };
            let cap: u64 = t.outputs().get(0).unwrap().capacity().into();
            prev = (OutPoint::new(t.hash(), 0), cap);
            chain.push(t);
        }
        for t in &chain {
            let Some(d) = self.quiesce() else { return false };
            match self.submit_tx(r, t, &d, "(cell-ref chain)") {
                None => return false,
                Some(true) => {}
                Some(false) => return true,
            }
        }
        let ins: Vec<(OutPoint, u64)> = cells.iter().take(l).cloned().collect();
        let Some(x) = self.simple_tx(&ins, self.min_fee_rate + 5_000, 0, &[], 0) else { return true };
        let Some(d) = self.quiesce() else { return false };
        match self.submit_tx(r, &x, &d, "(spender of every dep cell of the chain)") {
            None => false,
            Some(acc) => {
                r.c11.count(if acc { "obs.cellref_evict.spender_admitted" } else { "obs.cellref_evict.spender_refused" });
                true
            }
        }
    }


    /// C13 (uncle update racing with a tip change): U1, a sibling of the tip, reaches the node and
    /// the block assembler starts adding it to the template (held at the hook point after the
    /// uncle selection by an injected delay); block A2 -- child of the tip that already embeds
    /// U1 -- arrives right behind it and a template on top of A2 is installed. Every template
    /// taken afterwards is judged as usual (U1 must not show up as an uncle again).
    fn op_uncle_race(&mut self, r: &mut Reports) -> bool {
        let Some(pre) = self.quiesce() else { return false };
        let tip = self.n_tip();
        let tip_n = self.tg.rc.get(&tip).number;
        if tip_n < 2 {
            return true;
        }
        // U1: the tip's block with another timestamp (a valid sibling), known to the model so
        // that the builder can embed it as an uncle of the next block
        let tipb = std::sync::Arc::clone(&self.tg.rc.get(&tip).block);
        self.salt += 1;
        let header = tipb.header().as_advanced_builder().timestamp(tipb.timestamp() + 1 + 3 * (self.salt % 300)).build();
        let sib = builder::seal(&self.gi.consensus, builder::replace_header(&tipb, header.data()));
        let epoch = self.tg.rc.get(&tip).epoch.clone();
        let u1 = self.tg.rc.add(&sib, true, None, epoch);
        self.tg.order.push(u1);
        let saved = (self.tg.cfg.uncle_pm, self.tg.cfg.max_new_txs);
        self.tg.cfg.uncle_pm = 1000;
        self.tg.cfg.max_new_txs = 0;
        let a2 = self.tg.extend_ex(&tip, &[]);
        self.tg.cfg.uncle_pm = saved.0;
        self.tg.cfg.max_new_txs = saved.1;
        let embeds = self.tg.rc.get(&a2).block.uncles().hashes().into_iter().any(|x| h(&x) == u1);
        r.c13.count("ops.scenario_uncle_race");
        // the block assembler is parked (gate) between its uncle selection for the old tip and
        // its write into the template, A2 arrives meanwhile; the parked update is released after
        // the pool service had time to install the template of the new tip (had it been able to)
        hooks::arm_gate("assembler::after_prepare_uncles");
        self.cur_op = "the uncle race scenario";
        let ok1 = self.deliver(&[u1], r);
        let held = ok1 && hooks::wait_gate_held(Duration::from_millis(1500));
        let ok = ok1 && self.deliver(&[a2], r);
        if held {
            let us = if self.xrng.bool() { 300 } else { 3_000 + self.xrng.below(4_000) };
            std::thread::sleep(Duration::from_micros(us));
        }
        let released = hooks::release_gate();
        if !ok {
            self.cur_op = "";
            return false;
        }
        if held && released && embeds {
            r.c13.count("obs.uncle_race.uncle_update_parked_across_the_tip_change");
        }
        if embeds {
            r.c13.count("obs.uncle_race.next_block_embeds_the_candidate");
        }
        if !self.finish_block_op(&pre, tip, &[a2], 0, r) {
            return false;
        }
        self.settle_template();
        self.check_template(r, 0, false).is_some()
    }


    /// C13 (template updates inside the pool's tip-change window): T1 is pooled, proposed by the
    /// chain in block p and never committed (the builder skips every commit), so the block at
    /// height p + w_far is its last chance. That block arrives without T1 while the pool service
    /// is held (injected delay at `pool::before_reorg_lock`) between the arrival of the
    /// notification and the re-organisation of its content; inside that window T2 -- proposed by
    /// the chain at p + 1, unknown to the pool so far -- is submitted, which makes the block
    /// assembler refresh its transactions. Every template the sampler thread catches in the
    /// meantime is judged at the next quiescent point (T1 must not be committed on the new tip).
    fn op_window_race(&mut self, r: &mut Reports) -> bool {
        let saved = (self.tg.cfg.commit_skip_pm, self.tg.cfg.max_new_txs, self.tg.cfg.uncle_pm);
        self.cur_op = "the tip-change window scenario";
        let ok = self.op_window_race_inner(r);
        self.cur_op = "";
        self.tg.cfg.commit_skip_pm = saved.0;
        self.tg.cfg.max_new_txs = saved.1;
        self.tg.cfg.uncle_pm = saved.2;
        set_default_delay_plan(self.salt);
        ok
    }

    fn op_window_race_inner(&mut self, r: &mut Reports) -> bool {
        let Some(pre) = self.quiesce() else { return false };
        let (w_close, w_far) = self.tg.rc.window;
        if w_far <= w_close || self.flavor == Flavor::SmallCycles {
            return true;
        }
        let tip_n = self.tg.rc.get(&self.n_tip()).number;
        let cells = self.chain_cells(&pre, tip_n);
        if cells.len() < 2 {
            return true;
        }
        r.c13.count("ops.scenario_window_race");
        let (x, y) = (cells[0].clone(), cells[1].clone());
        self.tg.keep.insert(op_key(&x.0));
        self.tg.keep.insert(op_key(&y.0));
        let rate = self.min_fee_rate + 500 + self.xrng.below(2_000);
        let Some(t1) = self.simple_tx(&[x], rate, 0, &[], 2) else { return true };
        let Some(t2) = self.simple_tx(&[y], rate + 300, 0, &[], 5) else { return true };
        self.known.insert(t2.proposal_short_id(), t2.clone());
        match self.submit_tx(r, &t1, &pre, " (window race, T1)") {
            Some(true) => {}
            Some(false) => return true,
            None => return false,
        }
        // from here on the builder commits nothing and proposes only what it is told to
        self.tg.cfg.commit_skip_pm = 1000;
        self.tg.cfg.max_new_txs = 0;
        self.tg.cfg.uncle_pm = 0;
        if !self.op_block_ex(r, 0, std::slice::from_ref(&t1), false) {
            return false;
        }
        let p = self.tg.rc.get(&self.n_tip()).number;
        if !self.op_block_ex(r, 0, std::slice::from_ref(&t2), false) {
            return false;
        }
        while self.tg.rc.get(&self.n_tip()).number < p + w_far - 1 {
            if !self.op_block_ex(r, 0, &[], false) {
                return false;
            }
        }
        if self.tg.rc.get(&self.n_tip()).number != p + w_far - 1 || !self.in_proposed_set(&[t1.clone(), t2.clone()]) || self.committed_on_main(&t1) || self.committed_on_main(&t2) {
            r.c13.count("obs.window_race.setup_not_reached");
            return true;
        }
        let Some(pre2) = self.quiesce() else { return false };
        let t1_proposed = pre2.entries.iter().any(|e| e.id == t1.proposal_short_id() && e.status == "proposed");
        if !t1_proposed {
            r.c13.count("obs.window_race.setup_not_reached");
            return true;
        }
        let (blocks, old_tip, depth) = self.build_blocks(&pre2, 0, &[], false);
        if blocks.iter().any(|b| self.tg.rc.get(b).block.transactions().len() > 1) {
            r.c13.count("obs.window_race.setup_not_reached");
            if !self.deliver(&blocks, r) {
                return false;
            }
            return self.finish_block_op(&pre2, old_tip, &blocks, depth, r);
        }
        // the pool service sleeps between receiving the notification and re-organising the pool
        {
            let mut points = std::collections::BTreeMap::new();
            points.insert("pool::before_reorg_lock", (2000u64, 25_000u64));
            hooks::set_plan(hooks::DelayPlan { points, seed: self.salt });
        }
        if !self.deliver(&blocks, r) {
            return false;
        }
        std::thread::sleep(Duration::from_micros(800));
        let res = self.n.shared.tx_pool_controller().submit_local_tx(t2.clone());
        let behind = self.n.shared.tx_pool_controller().get_tx_pool_info().map(|i| i.tip_hash != self.n.tip_hash()).unwrap_or(false);
        // leave the block assembler and the sampler some time inside the window
        std::thread::sleep(Duration::from_millis(4));
        set_default_delay_plan(self.salt);
        let res = match res {
            Ok(x) => x.map(|_| ()).map_err(|e| e.to_string()),
            Err(e) => {
                r.c11.inconclusive(&format!("harness: submit_local_tx channel error {e}"));
                return false;
            }
        };
        if behind {
            r.c13.count("obs.window_race.submission_answered_while_pool_behind_chain");
        }
        let new_tip = *blocks.last().unwrap();
        self.now = self.now.max(self.tg.rc.get(&new_tip).block.timestamp());
        vnode::node::set_time(self.now);
        self.ops.push(format!("block depth=0 -> tip {}#{} (closes the window of T1 {}) ; T2 {} submitted inside the pool's tip-change window -> {}", hx(&new_tip), self.tg.rc.get(&new_tip).number, hx(&h(&t1.hash())), hx(&h(&t2.hash())), match &res { Ok(_) => "ok".to_string(), Err(e) => e.chars().take(70).collect() }));
        r.c11.count("ops.block");
        r.c11.count(if res.is_ok() { "ops.submit_ok" } else { "ops.submit_rejected" });
        if self.n_tip() != self.tg.tip() {
            r.c12.violation("node_tip_differs_from_builder_tip", format!("node {} builder {}", hx(&self.n_tip()), hx(&self.tg.tip())), self.witness(json!({})));
            return false;
        }
        let Some(post) = self.quiesce() else {
            r.c12.inconclusive("watchdog: pool did not catch up with the chain tip in 30 s");
            return false;
        };
        {
            let id = t2.proposal_short_id();
            let in_pool = post.entries.iter().any(|e| e.id == id);
            r.c11.eval();
            if res.is_ok() != in_pool {
                r.c11.violation(
                    if res.is_ok() { "submit.accepted_tx_not_in_pool" } else { "submit.rejected_tx_in_pool" },
                    format!("submit_local_tx returned {:?} but pool membership is {}", res, in_pool),
                    self.witness(json!({"tx": vbase::hex(t2.hash().as_slice()), "submitted_inside_tip_change_window": true})),
                );
            }
        }
        if !self.after_tip_change_with(&pre2, post, old_tip, r) {
            return false;
        }
        self.settle_template();
        self.check_template(r, 0, false).is_some()
    }


    /// C11 / C12 (no directed gate, plain contention): three threads submit independent
    /// transactions (plus a few double spends of each other's inputs) while this thread delivers an
    /// extension or a reorganisation that may propose / commit some of them. Nothing is judged in
    /// flight; at quiescence the ordinary oracles run (recomputation of the dump, pool against the
    /// new chain), a refused submission must not be pooled, and the templates the sampler caught
    /// are judged.
    fn op_storm(&mut self, r: &mut Reports) -> bool {
        let Some(pre) = self.quiesce() else { return false };
        let tip_n = self.tg.rc.get(&self.n_tip()).number;
        let (w_close, _) = self.tg.rc.window;
        let reorg = self.xrng.chance(400, 1000);
        let depth = if reorg { (1 + self.xrng.below(w_close + 1)).min(tip_n.saturating_sub(1)) } else { 0 };
        let cells = self.chain_cells(&pre, tip_n.saturating_sub(depth));
        if cells.len() < 6 {
            return true;
        }
        self.cur_op = "the submission storm";
        let n = cells.len().min(6 + self.xrng.usize_below(6));
        let mut txs: Vec<TransactionView> = vec![];
        for c in cells.iter().take(n) {
            self.tg.keep.insert(op_key(&c.0));
            let rate = self.min_fee_rate + 100 + self.xrng.below(3_000);
            let pad = self.xrng.usize_below(24);
            if let Some(t) = self.simple_tx(std::slice::from_ref(c), rate, 0, &[], pad) {
                txs.push(t);
            }
        }
        // a few double spends (another transaction on the same input, higher fee rate)
        for c in cells.iter().take(n).skip(n.saturating_sub(2)) {
            let rate = self.min_fee_rate + 6_000 + self.xrng.below(3_000);
            if let Some(t) = self.simple_tx(std::slice::from_ref(c), rate, 0, &[], 3) {
                txs.push(t);
            }
        }
        // a reorganisation detaches committed transactions which the pool takes back; submissions
        // that spend a later input of such a transaction race with that re-admission (they are sent
        // by this thread right behind the blocks, while the pool service works on the tip change)
        let mut late: Vec<TransactionView> = vec![];
        if depth > 0 {
            let old = self.n_tip();
            if let Some(fork) = self.tg.rc.ancestor_at(&old, tip_n - depth) {
                let st_fork = self.tg.rc.replay(&fork);
                let mut contested: Vec<(OutPoint, u64)> = vec![];
                let mut b = old;
                while b != fork {
                    let rec = self.tg.rc.get(&b);
                    for tx in rec.block.transactions().iter().skip(1) {
                        if tx.inputs().len() < 2 {
                            continue;
                        }
                        for op in tx.input_pts_iter().skip(1) {
                            let key = op_key(&op);
                            if let Some(c) = st_fork.cells.get(&key) {
                                if let Ok(out) = packed::CellOutput::from_slice(&c.output) {
                                    if out.type_().to_opt().is_none() && out.lock().code_hash() == self.gi.always_success_script.code_hash() {
                                        let cap: u64 = out.capacity().into();
                                        contested.push((op.clone(), cap));
                                    }
                                }
                            }
                        }
                    }
                    b = rec.parent;
                }
                for c in contested.iter().take(4) {
                    let rate = self.min_fee_rate + 500 + self.xrng.below(2_000);
                    if let Some(t) = self.simple_tx(std::slice::from_ref(c), rate, 0, &[], 5) {
                        late.push(t);
                        r.c12.count("obs.storm.submissions_contesting_an_input_of_a_detached_transaction");
                    }
                }
            }
        }
        for t in txs.iter().chain(late.iter()) {
            self.known.insert(t.proposal_short_id(), t.clone());
        }
        // the blocks propose (and, for a reorg of some depth, may commit) a part of them
        let forced: Vec<TransactionView> = txs.iter().take(n / 2).cloned().collect();
        let (blocks, old_tip, depth) = self.build_blocks(&pre, depth, &forced, true);
        self.rng.shuffle(&mut txs);
        let shares: Vec<Vec<TransactionView>> = (0..3).map(|k| txs.iter().skip(k).step_by(3).cloned().collect()).collect();
        let delay_us = self.xrng.below(2_500);
        if !late.is_empty() {
            // the pool service is slow when it takes detached transactions back (hook H5c), the
            // contested submissions keep coming meanwhile
            let mut points = std::collections::BTreeMap::new();
            points.insert("pool::before_reorg_lock", (250u64, 2_500u64));
            points.insert("pool::readd_before_verify", (2000u64, 1_500u64));
            hooks::set_plan(hooks::DelayPlan { points, seed: self.salt });
        }
        let mut results: Vec<(TransactionView, Result<(), String>)> = vec![];
        let mut delivered = false;
        let mut channel_error = false;
        {
            let ctl0 = self.n.shared.tx_pool_controller().clone();
            std::thread::scope(|s| {
                let hs: Vec<_> = shares
                    .iter()
                    .map(|share| {
                        let ctl = ctl0.clone();
                        s.spawn(move || {
                            let mut out = vec![];
                            for t in share {
                                let res = ctl.submit_local_tx(t.clone());
                                out.push((t.clone(), res.map(|x| x.map(|_| ()).map_err(|e| e.to_string())).map_err(|e| e.to_string())));
                            }
                            out
                        })
                    })
                    .collect();
                std::thread::sleep(Duration::from_micros(delay_us));
                delivered = self.deliver(&blocks, r);
                if delivered {
                    for t in &late {
                        let res = ctl0.submit_local_tx(t.clone());
                        match res {
                            Ok(x) => results.push((t.clone(), x.map(|_| ()).map_err(|e| e.to_string()))),
                            Err(_) => channel_error = true,
                        }
                        std::thread::sleep(Duration::from_micros(400));
                    }
                }
                for h in hs {
                    for (t, res) in h.join().unwrap_or_default() {
                        match res {
                            Ok(x) => results.push((t, x)),
                            Err(_) => channel_error = true,
                        }
                    }
                }
            });
        }
        set_default_delay_plan(self.salt);
        if !delivered {
            self.cur_op = "";
            return false;
        }
        if channel_error {
            r.c11.inconclusive("harness: submit_local_tx channel error in a submission storm");
            self.cur_op = "";
            return false;
        }
        r.c11.count("ops.scenario_storm");
        r.c12.count("ops.scenario_storm");
        r.c11.count_n("obs.storm.submissions", results.len() as u64);
        r.c11.count_n("obs.storm.accepted", results.iter().filter(|x| x.1.is_ok()).count() as u64);
        let new_tip = *blocks.last().unwrap();
        self.now = self.now.max(self.tg.rc.get(&new_tip).block.timestamp());
        vnode::node::set_time(self.now);
        self.ops.push(format!("storm: {} submissions from 3 threads ({} accepted) while block(s) depth={} -> tip {}#{} (+{} blocks) arrived", results.len(), results.iter().filter(|x| x.1.is_ok()).count(), depth, hx(&new_tip), self.tg.rc.get(&new_tip).number, blocks.len()));
        r.c11.count("ops.block");
        if depth > 0 {
            r.c12.count("reorgs");
        }
        if self.n_tip() != self.tg.tip() {
            r.c12.violation("node_tip_differs_from_builder_tip", format!("node {} builder {}", hx(&self.n_tip()), hx(&self.tg.tip())), self.witness(json!({})));
            self.cur_op = "";
            return false;
        }
        let Some(post) = self.quiesce() else {
            r.c12.inconclusive("watchdog: pool did not catch up with the chain tip in 30 s");
            self.cur_op = "";
            return false;
        };
        for (t, res) in &results {
            r.c11.eval();
            let id = t.proposal_short_id();
            if res.is_err() && post.entries.iter().any(|e| e.id == id) {
                r.c11.violation("submit.rejected_tx_in_pool", format!("submit_local_tx returned {:?} but the transaction is pooled", res), self.witness(json!({"tx": vbase::hex(t.hash().as_slice()), "submitted_in_a_storm": true})));
            }
        }
        let ok = self.after_tip_change_with(&pre, post, old_tip, r);
        self.cur_op = "";
        ok
    }


    /// C11 (two submissions racing for one input): B spends [g2, g1] and is parked (gate at
    /// `pool::before_submit_lock`: verified, not yet inserted); A spends g1 and is accepted; B is
    /// released. Whatever the pool decides about B (refusal, or replacement of A when RBF allows
    /// it), its maps must stay consistent - judged by the ordinary dump recomputation - and the
    /// answer must agree with the membership.
    fn op_submit_race(&mut self, r: &mut Reports) -> bool {
        // (sessions with a tiny cycle limit only know single-group transactions: the builder plans
        // its blocks by counting transactions)
        if self.flavor == Flavor::SmallCycles {
            return true;
        }
        let Some(pre) = self.quiesce() else { return false };
        let tip_n = self.tg.rc.get(&self.n_tip()).number;
        let cells = self.chain_cells(&pre, tip_n);
        if cells.len() < 2 {
            return true;
        }
        let (g1, g2) = (cells[0].clone(), cells[1].clone());
        self.tg.keep.insert(op_key(&g1.0));
        self.tg.keep.insert(op_key(&g2.0));
        let rate = self.min_fee_rate + 300 + self.xrng.below(1_500);
        let Some(a) = self.simple_tx(std::slice::from_ref(&g1), rate, 0, &[], 4) else { return true };
        let b_rate = if self.xrng.bool() { rate + 200 } else { rate + self.min_rbf_rate + 4_000 };
        let Some(b) = self.simple_tx(&[g2.clone(), g1.clone()], b_rate, 0, &[], 6) else { return true };
        self.known.insert(b.proposal_short_id(), b.clone());
        r.c11.count("ops.scenario_submit_race");
        hooks::arm_gate("pool::before_submit_lock");
        let ctl = self.n.shared.tx_pool_controller().clone();
        let b_clone = b.clone();
        let th = std::thread::Builder::new().name("verif-race-submit".into()).spawn(move || ctl.submit_local_tx(b_clone)).expect("spawn");
        let held = {
            let t0 = Instant::now();
            loop {
                if hooks::wait_gate_held(Duration::from_millis(5)) {
                    break true;
                }
                if th.is_finished() || t0.elapsed() > Duration::from_secs(20) {
                    break hooks::gate_is_holding();
                }
            }
        };
        // A goes through the ordinary submission path (and its checks) while B is parked
        let a_ok = if held { self.submit_tx(r, &a, &pre, " (racing: the other spender of its input is parked before the pool lock)") } else { Some(false) };
        let released = if held { hooks::release_gate() } else { hooks::release_gate(); false };
        let res = th.join();
        let Some(a_ok) = a_ok else { return false };
        let res = match res {
            Ok(Ok(x)) => x.map(|_| ()).map_err(|e| e.to_string()),
            _ => {
                r.c11.inconclusive("harness: submit_local_tx failed in a submission race");
                return false;
            }
        };
        if !held || !released {
            r.c11.count("obs.submit_race.not_parked");
            return true;
        }
        r.c11.count("obs.submit_race.parked_across_a_conflicting_submission");
        if a_ok {
            r.c11.count("obs.submit_race.conflicting_submission_accepted_meanwhile");
        }
        let Some(post) = self.quiesce() else {
            r.c11.inconclusive("watchdog: pool did not reach quiescence in 30 s");
            return false;
        };
        let in_pool = post.entries.iter().any(|e| e.id == b.proposal_short_id());
        self.ops.push(format!("submit (parked across the acceptance of a conflicting transaction) {} -> {}", hx(&h(&b.hash())), match &res { Ok(_) => "ok".to_string(), Err(e) => e.chars().take(70).collect() }));
        r.c11.count(if res.is_ok() { "ops.submit_ok" } else { "ops.submit_rejected" });
        r.c11.eval();
        if res.is_ok() != in_pool {
            r.c11.violation(
                if res.is_ok() { "submit.accepted_tx_not_in_pool" } else { "submit.rejected_tx_in_pool" },
                format!("submit_local_tx returned {:?} but pool membership is {}", res, in_pool),
                self.witness(json!({"tx": vbase::hex(b.hash().as_slice()), "parked_across_a_conflicting_submission": true})),
            );
        }
        self.check_pool(&post, r);
        true
    }


    /// C12 / C13 (I/O fault, hook H2b): the database commit of a block import fails once. The
    /// block is answered with an error, chain and pool stay where they were (the pool is judged by
    /// the ordinary dump checks, the template must still be one for the old tip), then the same
    /// block is delivered again and the tip change is judged as usual.
    fn op_block_fault(&mut self, r: &mut Reports) -> bool {
        let Some(pre) = self.quiesce() else { return false };
        let (blocks, old_tip, depth) = self.build_blocks(&pre, 0, &[], true);
        let b = std::sync::Arc::clone(&self.tg.rc.get(&blocks[0]).block);
        let which = 1 + self.xrng.below(2);
        ckb_db::verif::fail_write_at(ckb_db::verif::commit_count() + which);
        let res = self.n.chain().blocking_process_block(std::sync::Arc::clone(&b));
        ckb_db::verif::fail_write_at(0);
        r.c12.count("ops.scenario_block_fault");
        if res.is_err() {
            r.c12.count("obs.block_fault.block_answered_with_an_error");
            self.ops.push(format!("block #{} answered with an error (injected failure of database write {which} of its import)", b.number()));
            r.c12.eval();
            if self.n_tip() != old_tip {
                r.c12.violation("block_fault.tip_moved_although_the_import_failed", format!("tip {} expected {}", hx(&self.n_tip()), hx(&old_tip)), self.witness(json!({})));
                return false;
            }
            let Some(mid) = self.quiesce() else {
                r.c12.inconclusive("watchdog: pool did not reach quiescence in 30 s after a failed block import");
                return false;
            };
            self.check_pool(&mid, r);
            // the template handed out now must still be acceptable (on the old tip)
            if self.check_template(r, 0, false).is_none() {
                return false;
            }
        } else {
            // the armed write was not one of this import (nothing to judge about the fault)
            r.c12.count("obs.block_fault.not_hit");
            if !matches!(res, Ok(true)) {
                return false;
            }
            return self.finish_block_op(&pre, old_tip, &blocks, depth, r);
        }
        // the same block again
        if !self.deliver(&blocks, r) {
            return false;
        }
        self.finish_block_op(&pre, old_tip, &blocks, depth, r)
    }

    /// C11: submissions until the pool's size limit evicts (or refuses) something; only in
    /// sessions whose limit is reachable.
    fn op_pool_pressure(&mut self, r: &mut Reports) -> bool {
        if self.pcfg.max_pool_bytes > 100_000 {
            return self.op_submit(r, false);
        }
        let before = r.c11.counter("obs.evicted_by_size");
        for _ in 0..45 {
            if !self.op_submit(r, false) {
                return false;
            }
            if r.c11.counter("obs.evicted_by_size") > before {
                break;
            }
        }
        true
    }

    fn op_flavor_scenario(&mut self, r: &mut Reports) -> bool {
        match self.flavor {
            Flavor::SmallBytes => self.op_late_fill(r),
            Flavor::SmallCycles => self.op_cpfp(r),
            Flavor::Plain | Flavor::TinyReward => self.op_template(r),
        }
    }

    /// C12: pooled B has a cell dep on cell X, pooled A spends X; a block (plain extension, or a
    /// competing branch when `reorg`) commits A while B is neither proposed nor committed.
    fn op_dep_spend(&mut self, r: &mut Reports, reorg: bool) -> bool {
        let Some(pre) = self.quiesce() else { return false };
        let tip_n = self.tg.rc.get(&self.n_tip()).number;
        let (w_close, _) = self.tg.rc.window;
        let depth = if reorg { (w_close + self.xrng.below(2)).min(tip_n.saturating_sub(1)) } else { 0 };
        if reorg && depth < w_close {
            return true;
        }
        let cells = self.chain_cells(&pre, tip_n - depth);
        if cells.len() < 3 {
            return true;
        }
        r.c12.count("ops.scenario_dep_spend");
        let (x, g1) = (cells[0].clone(), cells[1].clone());
        let dep = CellDep::new_builder().out_point(x.0.clone()).build();
        let rate = self.min_fee_rate + 200 + self.xrng.below(3_000);
        let pad = self.xrng.usize_below(20);
        let Some(b) = self.simple_tx(&[g1.clone()], rate, 0, &[dep], pad) else { return true };
        match self.submit_tx(r, &b, &pre, "(dep user)") {
            None => return false,
            Some(false) => return true,
            Some(true) => {}
        }
        let Some(pre2) = self.quiesce() else { return false };
        let mut a_inputs = vec![x.clone()];
        if self.flavor != Flavor::SmallCycles && self.xrng.chance(300, 1000) {
            a_inputs.push(cells[2].clone());
        }
        let rate = self.min_fee_rate + 200 + self.xrng.below(3_000);
        let pad = self.xrng.usize_below(20);
        let Some(a) = self.simple_tx(&a_inputs, rate, 0, &[], pad) else { return true };
        match self.submit_tx(r, &a, &pre2, "(spender of the dep)") {
            None => return false,
            Some(false) => return true,
            Some(true) => {}
        }
        // the builder's own transactions must not interfere with the two
        for (op, _) in [&x, &g1].into_iter().chain(a_inputs.iter()) {
            self.tg.keep.insert(op_key(op));
        }
        if !self.op_block_ex(r, depth, std::slice::from_ref(&a), false) {
            return false;
        }
        for _ in 0..(w_close + 3) {
            if self.committed_on_main(&a) {
                break;
            }
            let Some(d) = self.quiesce() else { return false };
            if !d.entries.iter().any(|e| e.id == a.proposal_short_id()) {
                break;
            }
            if !self.op_block_ex(r, 0, &[], false) {
                return false;
            }
        }
        true
    }

    /// C12 (interleaving): a submission T has passed verification and is parked right before it
    /// takes the pool's write lock (hook point `pool::before_submit_lock`); meanwhile a block
    /// arrives (plain extension, or the last block of a competing branch when `reorg`) that
    /// commits a transaction T' which spends an input of T / spends a cell T depends on / is T
    /// itself; the pool processes the tip change; T is released. T's answer and the pool are
    /// judged by the ordinary oracles.
    fn op_race(&mut self, r: &mut Reports, reorg: bool) -> bool {
        let Some(pre0) = self.quiesce() else { return false };
        let tip_n = self.tg.rc.get(&self.n_tip()).number;
        let (w_close, _) = self.tg.rc.window;
        let depth = if reorg { (w_close + self.xrng.below(2)).min(tip_n.saturating_sub(1)) } else { 0 };
        if reorg && depth < w_close {
            return true;
        }
        let cells = self.chain_cells(&pre0, tip_n - depth);
        if cells.len() < 2 {
            return true;
        }
        r.c12.count("ops.scenario_race");
        let (x, y) = (cells[0].clone(), cells[1].clone());
        self.tg.keep.insert(op_key(&x.0));
        self.tg.keep.insert(op_key(&y.0));
        let kind = self.xrng.below(3);
        // T' is known to the rest of the network only (never submitted to N)
        let rate = self.min_fee_rate + 500 + self.xrng.below(2_000);
        let pad = self.xrng.usize_below(16);
        let Some(t_prime) = self.simple_tx(&[x.clone()], rate, 0, &[], pad) else { return true };
        self.known.insert(t_prime.proposal_short_id(), t_prime.clone());
        let t = match kind {
            0 => {
                let mut ins = vec![x.clone()];
                if self.flavor != Flavor::SmallCycles && self.xrng.bool() {
                    ins.push(y.clone());
                }
                self.simple_tx(&ins, rate + 700, 0, &[], 3)
            }
            1 => {
                let dep = CellDep::new_builder().out_point(x.0.clone()).build();
                self.simple_tx(&[y.clone()], rate, 0, &[dep], 3)
            }
            _ => Some(t_prime.clone()),
        };
        let Some(t) = t else { return true };
        let kind_name = ["input_spent", "dep_spent", "tx_itself_committed"][kind as usize];

        // the blocks: for an extension T' is proposed first and the chain extended until the
        // builder commits it; for a reorg one branch proposes and commits it
        let (pre, blocks, old_tip, depth) = if !reorg {
            if !self.op_block_ex(r, 0, std::slice::from_ref(&t_prime), true) {
                return false;
            }
            let mut found = None;
            for _ in 0..(w_close + 4) {
                let Some(pre) = self.quiesce() else { return false };
                let (blocks, old_tip, depth) = self.build_blocks(&pre, 0, &[], true);
                let commits = self.tg.rc.get(&blocks[0]).block.transactions().iter().any(|x| x.hash() == t_prime.hash());
                if commits {
                    found = Some((pre, blocks, old_tip, depth));
                    break;
                }
                if !self.deliver(&blocks, r) || !self.finish_block_op(&pre, old_tip, &blocks, depth, r) {
                    return false;
                }
            }
            match found {
                Some(f) => f,
                None => {
                    r.c12.count("obs.race.conflict_never_committed");
                    return true;
                }
            }
        } else {
            let (blocks, old_tip, depth) = self.build_blocks(&pre0, depth, std::slice::from_ref(&t_prime), false);
            let commits = blocks.iter().any(|b| self.tg.rc.get(b).block.transactions().iter().any(|x| x.hash() == t_prime.hash()));
            if !commits {
                r.c12.count("obs.race.conflict_never_committed");
                if !self.deliver(&blocks, r) {
                    return false;
                }
                return self.finish_block_op(&pre0, old_tip, &blocks, depth, r);
            }
            (pre0, blocks, old_tip, depth)
        };
        // everything but the block that moves the tip is delivered up front
        let (last, side) = blocks.split_last().unwrap();
        if !self.deliver(side, r) {
            return false;
        }
        if self.n_tip() != old_tip {
            r.c12.inconclusive("harness: side-branch blocks moved the tip before the race");
            return false;
        }
        // park T
        hooks::arm_gate("pool::before_submit_lock");
        let ctl = self.n.shared.tx_pool_controller().clone();
        let t_clone = t.clone();
        let th = std::thread::Builder::new()
            .name("verif-race-submit".into())
            .spawn(move || ctl.submit_local_tx(t_clone))
            .expect("spawn");
        // wait until T is parked at the gate, or its thread has ended (refused before that step)
        let held = {
            let t0 = Instant::now();
            loop {
                if hooks::wait_gate_held(Duration::from_millis(5)) {
                    break true;
                }
                if th.is_finished() || t0.elapsed() > Duration::from_secs(20) {
                    break hooks::gate_is_holding();
                }
            }
        };
        if !held {
            // T did not get as far as the insertion step (refused earlier): no race to judge
            hooks::release_gate();
            r.c12.count("obs.race.submission_refused_before_insertion_step");
        }
        let delivered = self.deliver(std::slice::from_ref(last), r);
        let mut pool_caught_up = false;
        if delivered && held {
            let want = self.n.tip_hash();
            let t0 = Instant::now();
            while t0.elapsed() < Duration::from_secs(20) {
                if let Ok(info) = self.n.shared.tx_pool_controller().get_tx_pool_info() {
                    if info.tip_hash == want {
                        pool_caught_up = true;
                        break;
                    }
                }
                std::thread::sleep(Duration::from_micros(300));
            }
        }
        let released_by_engine = if held { hooks::release_gate() } else { false };
        let res = th.join();
        if !delivered {
            return false;
        }
        let res = match res {
            Ok(Ok(x)) => x.map(|_| ()).map_err(|e| e.to_string()),
            Ok(Err(e)) => {
                r.c11.inconclusive(&format!("harness: submit_local_tx channel error {e}"));
                return false;
            }
            Err(_) => {
                r.c11.inconclusive("harness: submitting thread panicked");
                return false;
            }
        };
        if held && !pool_caught_up {
            r.c12.inconclusive("watchdog: pool did not process the tip change within 20 s while a submission was parked before the pool lock");
            return false;
        }
        if held && !released_by_engine {
            r.c12.inconclusive("harness: the gate timed out before the engine released the parked submission");
            return false;
        }
        if held {
            r.c12.count("obs.race.submit_held_across_tip_change");
            r.c12.count(&format!("obs.race.{kind_name}"));
            if reorg {
                r.c12.count("obs.race.tip_change_was_reorg");
            }
            if res.is_ok() {
                r.c12.count("obs.race.submission_accepted");
            }
        }
        let label = format!("({}, {kind_name}{})", if held { "parked across tip change" } else { "refused before the insertion step, block delivered afterwards" }, if reorg { ", reorg" } else { "" });
        // bookkeeping of the block operation first (so that the log reads in causal order), then
        // the submission is judged against the dump, then the tip-change checks
        let new_tip = *blocks.last().unwrap();
        self.now = self.now.max(self.tg.rc.get(&new_tip).block.timestamp());
        vnode::node::set_time(self.now);
        self.ops.push(format!("block depth={} -> tip {}#{} (+{} blocks, {} commits) while a submission was parked", depth, hx(&new_tip), self.tg.rc.get(&new_tip).number, blocks.len(), blocks.iter().map(|x| self.tg.rc.get(x).block.transactions().len() - 1).sum::<usize>()));
        r.c11.count("ops.block");
        if depth > 0 {
            r.c12.count("reorgs");
        }
        if self.n_tip() != self.tg.tip() {
            r.c12.violation("node_tip_differs_from_builder_tip", format!("node {} builder {}", hx(&self.n_tip()), hx(&self.tg.tip())), self.witness(json!({})));
            return false;
        }
        // membership / answer consistency; the dump check inside is repeated by after_tip_change
        // with the chain comparison. `pre` is the dump before both events.
        let Some(post) = self.quiesce() else {
            r.c12.inconclusive("watchdog: pool did not catch up with the chain tip in 30 s");
            return false;
        };
        {
            let id = t.proposal_short_id();
            let in_pool = post.entries.iter().any(|e| e.id == id);
            let fee = self.fee_of(&t, &pre);
            self.ops.push(format!("submit{} {} fee={} -> {}", label, hx(&h(&t.hash())), fee.map(|f| f.to_string()).unwrap_or_else(|| "?".into()), match &res { Ok(_) => "ok".to_string(), Err(e) => e.chars().take(70).collect() }));
            r.c11.count(if res.is_ok() { "ops.submit_ok" } else { "ops.submit_rejected" });
            r.c11.eval();
            if res.is_ok() != in_pool {
                r.c11.violation(
                    if res.is_ok() { "submit.accepted_tx_not_in_pool" } else { "submit.rejected_tx_in_pool" },
                    format!("submit_local_tx returned {:?} but pool membership is {}", res, in_pool),
                    self.witness(json!({"tx": vbase::hex(t.hash().as_slice()), "parked_across_tip_change": true})),
                );
            }
        }
        self.after_tip_change_with(&pre, post, old_tip, r)
    }

    /// C13 (size bookkeeping): transactions that the chain has already proposed reach the pool
    /// late and fill the template through `update_transactions`; afterwards an uncle candidate
    /// and fresh pending transactions (new proposals) arrive. Every template is verified.
    fn op_late_fill(&mut self, r: &mut Reports) -> bool {
        let Some(pre) = self.quiesce() else { return false };
        let tip_n = self.tg.rc.get(&self.n_tip()).number;
        let cells = self.chain_cells(&pre, tip_n);
        let k = 9 + self.xrng.usize_below(4);
        if cells.len() < k + 4 {
            return true;
        }
        r.c13.count("ops.scenario_late_fill");
        let mut txs = vec![];
        for c in cells.iter().take(k) {
            let rate = self.min_fee_rate + 100 + self.xrng.below(2_500);
            let pad = self.xrng.usize_below(48);
            if let Some(t) = self.simple_tx(std::slice::from_ref(c), rate, 0, &[], pad) {
                self.tg.keep.insert(op_key(&c.0));
                self.known.insert(t.proposal_short_id(), t.clone());
                txs.push(t);
            }
        }
        match self.propose_and_wait(r, &txs) {
            Err(()) => return false,
            Ok(false) => return true,
            Ok(true) => {}
        }
        // in every second scenario the template already carries a good number of proposals (ids
        // of pending transactions) when the late transactions fill it
        let mut pending_before = 0usize;
        if self.xrng.chance(600, 1000) {
            let want = (cells.len() - k - 2).min(10 + self.xrng.usize_below(9));
            for c in cells.iter().skip(k).take(want) {
                let rate = self.min_fee_rate + 50 + self.xrng.below(300);
                let Some(t) = self.simple_tx(std::slice::from_ref(c), rate, 0, &[], 0) else { continue };
                self.tg.keep.insert(op_key(&c.0));
                let Some(d) = self.quiesce() else { return false };
                match self.submit_tx(r, &t, &d, "(pending before the late fill)") {
                    None => return false,
                    Some(true) => pending_before += 1,
                    Some(false) => {}
                }
            }
            self.settle_template();
            if self.check_template(r, 0, true).is_none() {
                return false;
            }
        }
        // late arrival: the transactions enter the pool as already proposed
        let mut proposed_on_arrival = 0;
        for t in &txs {
            let Some(d) = self.quiesce() else { return false };
            match self.submit_tx(r, t, &d, "(late, already proposed on chain)") {
                None => return false,
                Some(true) => proposed_on_arrival += 1,
                Some(false) => {}
            }
            if self.xrng.chance(300, 1000) {
                self.settle_template();
                if self.check_template(r, 0, true).is_none() {
                    return false;
                }
            }
        }
        self.settle_template();
        let Some((n_txs, _, _, _)) = self.check_template(r, 0, false) else { return false };
        let filled = proposed_on_arrival >= 3 && n_txs >= 1 && n_txs < proposed_on_arrival;
        if filled {
            // fewer transactions in the template than proposed ones in the pool: the size limit binds
            r.c13.count("obs.late_fill.template_filled_to_size_limit");
        }
        // late updates on top of the filled template
        let steps = 1 + self.xrng.below(3);
        for step in 0..steps {
            let uncle = if step == 0 { self.xrng.chance(700, 1000) } else { self.xrng.bool() };
            if uncle {
                // a sibling of the tip arrives: uncle candidate
                let tip = self.n_tip();
                let tipb = std::sync::Arc::clone(&self.tg.rc.get(&tip).block);
                self.salt += 1;
                let header = tipb.header().as_advanced_builder().timestamp(tipb.timestamp() + 1 + step + 3 * (self.salt % 300)).build();
                let sib = builder::seal(&self.gi.consensus, builder::replace_header(&tipb, header.data()));
                let res = self.n.chain().blocking_process_block(std::sync::Arc::new(sib.clone()));
                if res.is_err() || self.n_tip() != tip {
                    r.c13.inconclusive(&format!("harness: sibling of the tip was answered {:?} / moved the tip", res.map_err(|e| e.to_string())));
                    return false;
                }
                self.ops.push(format!("sibling {} of tip #{} delivered (uncle candidate)", hx(&h(&sib.hash())), tipb.number()));
                r.c13.count("ops.uncle_candidate_after_fill");
                if filled && pending_before >= 5 {
                    r.c13.count("obs.late_fill.uncle_offered_to_filled_template_with_proposals");
                }
            } else {
                for _ in 0..(1 + self.xrng.below(3)) {
                    if !self.op_submit(r, false) {
                        return false;
                    }
                }
                r.c13.count("ops.pending_txs_after_fill");
            }
            self.settle_template();
            let Some((n_txs2, _, _, _)) = self.check_template(r, 0, false) else { return false };
            if filled && n_txs2 >= 1 {
                r.c13.count("obs.late_fill.templates_after_uncle_or_proposal_update");
            }
        }
        self.check_template(r, 500, false).is_some()
    }

    /// C13 (cycle budget): independent high-fee-rate transactions next to a child-pays-for-parent
    /// chain (cheap parent, well paying child), all proposed, in a session whose block cycle limit
    /// leaves room for the independents plus one and a half transactions.
    fn op_cpfp(&mut self, r: &mut Reports) -> bool {
        let Some(pre) = self.quiesce() else { return false };
        let unit = match UNIT_CYCLES.load(Ordering::Relaxed) {
            0 => UNIT_CYCLES_DEFAULT,
            u => u,
        };
        let limit = self.max_block_cycles;
        let fit = limit / unit; // whole transactions per block
        if fit < 2 || fit > 4 {
            r.c13.count("obs.cpfp.cycle_limit_does_not_fit_the_unit");
            return self.op_template(r);
        }
        let n_indep = (fit - 1) as usize;
        let chain_len = 2 + self.xrng.usize_below(2).min((fit - 1) as usize);
        let tip_n = self.tg.rc.get(&self.n_tip()).number;
        let cells = self.chain_cells(&pre, tip_n);
        if cells.len() < n_indep + 1 {
            return true;
        }
        r.c13.count("ops.scenario_cpfp");
        let mut all: Vec<TransactionView> = vec![];
        // independents: highest fee rates
        for c in cells.iter().take(n_indep) {
            let rate = 9_000 + self.xrng.below(4_000);
            let Some(t) = self.simple_tx(std::slice::from_ref(c), rate, 0, &[], 0) else { return true };
            self.tg.keep.insert(op_key(&c.0));
            all.push(t);
        }
        // chain: cheap ancestors, last one pays (package rate between the parent's and the independents')
        let mut prev: (OutPoint, u64) = cells[n_indep].clone();
        self.tg.keep.insert(op_key(&prev.0));
        for i in 0..chain_len {
            let rate = if i + 1 == chain_len { 5_000 + self.xrng.below(2_500) } else { self.min_fee_rate + self.xrng.below(200) };
            let Some(t) = self.simple_tx(std::slice::from_ref(&prev), rate, 0, &[], 0) else { return true };
            let cap: u64 = t.outputs().get(0).unwrap().capacity().into();
            prev = (OutPoint::new(t.hash(), 0), cap);
            all.push(t);
        }
        for t in &all {
            let Some(d) = self.quiesce() else { return false };
            match self.submit_tx(r, t, &d, "(cpfp scenario)") {
                None => return false,
                Some(true) => {}
                Some(false) => return true,
            }
        }
        match self.propose_and_wait(r, &all) {
            Err(()) => return false,
            Ok(false) => return true,
            Ok(true) => {}
        }
        let Some(d) = self.quiesce() else { return false };
        let all_proposed = all.iter().all(|t| d.entries.iter().any(|e| e.id == t.proposal_short_id() && e.status == "proposed"));
        let unit_ok = all.iter().all(|t| d.entries.iter().find(|e| e.id == t.proposal_short_id()).map(|e| e.cycles == unit).unwrap_or(false));
        let proposed_cycles: u64 = d.entries.iter().filter(|e| e.status == "proposed").map(|e| e.cycles).sum();
        self.settle_template();
        let Some((n_txs, _, _, cycles)) = self.check_template(r, 0, false) else { return false };
        if all_proposed && unit_ok && proposed_cycles > limit && n_txs >= 1 && (cycles == 0 || cycles + unit > limit) {
            // the pool offers more cycles than a block may hold and the template is within one
            // transaction of the limit (cycles == 0: the template was refused and reported)
            r.c13.count("obs.cpfp.templates_at_cycle_limit");
        } else if !unit_ok {
            r.c13.count("obs.cpfp.cycle_limit_does_not_fit_the_unit");
        }
        self.check_template(r, 500, false).is_some()
    }
}

fn transitive(by: &HashMap<ProposalShortId, &VerifEntry>, id: &ProposalShortId, up: bool) -> HashSet<ProposalShortId> {
    let mut out = HashSet::new();
    let mut stack: Vec<ProposalShortId> = match by.get(id) {
        Some(e) => if up { e.parents.clone() } else { e.children.clone() },
        None => vec![],
    };
    while let Some(x) = stack.pop() {
        if x == *id || !out.insert(x.clone()) {
            continue;
        }
        if let Some(e) = by.get(&x) {
            stack.extend(if up { e.parents.clone() } else { e.children.clone() });
        }
    }
    out
}


/// Why is the creator of a referenced cell neither on the main chain nor pooled? Judged from
/// the harness's own records of THIS tip change only (the caller falls back to the cause recorded
/// when the same (entry, creator) pair was first reported):
/// `@creator_committed_only_on_abandoned_branch`: the creating transaction was on the main chain
/// before this tip change, its block was detached by it, and it was not re-admitted to the pool.
/// `@creator_dropped_from_pool_while_child_kept`: the creating transaction was pooled before this
/// tip change, was not committed, and it is (a descendant of) an entry whose proposal id the chain
/// reported as dropped from the window in this tip change (remove_by_detached_proposal takes the
/// family out and re-inserts the members one by one, ignoring failures).
/// `@creator_left_pool_without_its_descendants`: pooled before, gone now, for any other reason
/// (conflict with a committed transaction, expiry, eviction: all of these remove descendants).
fn creator_cause(st: &vnode::model::State, creator: &H, pre: &VerifPoolDump, detached_now: &HashSet<H>, dropped_family: &HashSet<ProposalShortId>) -> &'static str {
    if st.tx_info.contains_key(creator) {
        return "@spent_on_main_chain";
    }
    if let Some(e) = pre.entries.iter().find(|e| h(&e.tx.hash()) == *creator) {
        if dropped_family.contains(&e.id) {
            return "@creator_dropped_from_pool_while_child_kept";
        }
        return "@creator_left_pool_without_its_descendants";
    }
    if detached_now.contains(creator) {
        return "@creator_committed_only_on_abandoned_branch";
    }
    ""
}
