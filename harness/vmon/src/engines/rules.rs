//! Engine `rules` (C03): a block joins the main chain iff it meets every consensus rule.
//!
//! On random valid contexts (tips of generated trees) a valid candidate block V is drafted on
//! the builder node; single-rule violations of V (mutators below) and valid boundary variants
//! are pushed through the same pipeline a miner / peer uses — `HeaderVerifier` on the node's
//! snapshot, then `ChainController::blocking_process_block` — on a node N synchronised to the
//! same tip. Violations must be rejected with the node's state (full store dump, tip) unchanged;
//! boundary-valid variants must be attached. Side-branch placement: an invalid block stored on
//! a lighter side branch plus re-parented descendants that make the branch heavier: the
//! attempt must be refused as a whole; the valid twin branch must then be attached.

use ckb_types::core::{BlockView, Capacity, EpochNumberWithFraction, TransactionView, UncleBlockView};
use ckb_types::packed::{self, CellInput, ProposalShortId};
use ckb_types::{bytes::Bytes, prelude::*};
use ckb_verification::HeaderVerifier;
use ckb_verification_traits::Verifier;
use serde_json::json;
use std::collections::HashSet;
use std::sync::Arc;
use std::time::{Duration, Instant};
use vbase::{Args, Report, Rng};
use vnode::builder;
use vnode::consensus::{self, ChainParams, EpochMode, GenesisInfo};
use vnode::dump;
use vnode::hooks;
use vnode::model::{H, h, hx};
use vnode::node::{Node, NodeCfg};
use vnode::treegen::{TreeCfg, TreeGen};

const NOW_AHEAD: u64 = 60_000;

struct Ctx<'a> {
    gi: &'a GenesisInfo,
    tg: &'a TreeGen,
    parent: H,
    now: u64,
    /// valid uncle candidates not used by V
    spare_uncles: Vec<UncleBlockView>,
    /// a transaction proposed on this chain at distance d from the candidate, still
    /// committable except for the window: (d, tx)
    proposed_at: Vec<(u64, TransactionView)>,
    /// a fresh valid transaction never proposed
    fresh_tx: Option<TransactionView>,
}

type Mutator = fn(&Ctx, &BlockView, &mut Rng) -> Option<BlockView>;

fn with_header(block: &BlockView, header: ckb_types::core::HeaderView) -> BlockView {
    builder::replace_header(block, header.data())
}

/// Replace the epoch field without going through the (asserting) header builder.
fn with_epoch(block: &BlockView, number: u64, index: u64, length: u64) -> BlockView {
    let full: u64 = (length << 40) | (index << 24) | number;
    let raw = block.data().header().raw().as_builder().epoch(full).build();
    let header = block.data().header().as_builder().raw(raw).build();
    builder::replace_header(block, header)
}

fn seal(c: &Ctx, b: BlockView) -> BlockView {
    builder::reseal(&c.gi.consensus, b)
}

/// Replace the body's transactions. The dao field depends on the body: it is recomputed with the
/// production calculator whenever the new body resolves on the parent, so that the mutant differs
/// from a valid block in the mutated rule only (a stale dao field would get it refused anyway and
/// hide a missing check).
fn set_txs(c: &Ctx, b: &BlockView, txs: Vec<TransactionView>) -> BlockView {
    let nb = b.as_advanced_builder().set_transactions(txs).build();
    let nb = match builder::recompute_dao(&c.tg.b.shared, &nb) {
        Some(dao) => nb.as_advanced_builder().dao(dao).build(),
        None => nb,
    };
    seal(c, nb)
}

fn dao_component(c: &Ctx, b: &BlockView, idx: usize, up: bool) -> Option<BlockView> {
    let mut dao = b.dao().as_slice().to_vec();
    let mut v = u64::from_le_bytes(dao[idx * 8..idx * 8 + 8].try_into().unwrap());
    v = if up { v.checked_add(1)? } else { v.checked_sub(1)? };
    dao[idx * 8..idx * 8 + 8].copy_from_slice(&v.to_le_bytes());
    Some(seal(c, b.as_advanced_builder().dao(packed::Byte32::from_slice(&dao).unwrap()).build()))
}

fn cellbase_mut(c: &Ctx, b: &BlockView, f: impl Fn(TransactionView) -> Option<TransactionView>) -> Option<BlockView> {
    let mut txs = b.transactions();
    txs[0] = f(txs[0].clone())?;
    Some(set_txs(c, b, txs))
}

fn mutators() -> Vec<(&'static str, Mutator)> {
    vec![
        // ---- header linkage
        ("header.number_plus_one", |c, b, _| Some(seal(c, with_header(b, b.header().as_advanced_builder().number(b.number() + 1).build())))),
        ("header.number_minus_one", |c, b, _| Some(seal(c, with_header(b, b.header().as_advanced_builder().number(b.number() - 1).build())))),
        ("header.epoch_number_plus_one", |c, b, _| {
            let e = b.epoch();
            Some(seal(c, with_epoch(b, e.number() + 1, e.index(), e.length())))
        }),
        ("header.epoch_index_plus_one", |c, b, _| {
            let e = b.epoch();
            Some(seal(c, with_epoch(b, e.number(), e.index() + 1, e.length())))
        }),
        ("header.epoch_length_plus_one", |c, b, _| {
            let e = b.epoch();
            Some(seal(c, with_epoch(b, e.number(), e.index(), e.length() + 1)))
        }),
        ("header.epoch_malformed_index_ge_length", |c, b, _| {
            let e = b.epoch();
            Some(seal(c, with_epoch(b, e.number(), e.length(), e.length())))
        }),
        ("header.timestamp_equals_median", |c, b, _| {
            let m = c.tg.rc.median_time(&c.parent);
            Some(seal(c, with_header(b, b.header().as_advanced_builder().timestamp(m).build())))
        }),
        ("header.timestamp_too_far_in_future", |c, b, _| Some(seal(c, with_header(b, b.header().as_advanced_builder().timestamp(c.now + 15_000 + 1).build())))),
        ("header.compact_target_changed", |c, b, _| Some(seal(c, with_header(b, b.header().as_advanced_builder().compact_target(b.compact_target() - 1).build())))),
        ("header.parent_unknown", |c, b, r| {
            let x = r.bytes(32);
            Some(seal(c, with_header(b, b.header().as_advanced_builder().parent_hash(packed::Byte32::from_slice(&x).unwrap()).build())))
        }),
        ("header.pow_invalid", |c, b, _| {
            // only meaningful with a real PoW engine: find a nonce that fails
            let engine = c.gi.consensus.pow_engine();
            let mut n = b.nonce();
            for _ in 0..64 {
                n = n.wrapping_add(0x9E3779B97F4A7C15);
                let cand = with_header(b, b.header().as_advanced_builder().nonce(n).build());
                if !engine.verify(&cand.data().header()) {
                    return Some(cand);
                }
            }
            None
        }),
        // ---- merkle roots / hashes
        ("structure.transactions_root_mismatch", |c, b, _| {
            let mut x = b.transactions_root().as_slice().to_vec();
            x[3] ^= 0x10;
            Some(seal(c, with_header(b, b.header().as_advanced_builder().transactions_root(packed::Byte32::from_slice(&x).unwrap()).build())))
        }),
        ("structure.proposals_hash_mismatch", |c, b, _| {
            let mut x = b.proposals_hash().as_slice().to_vec();
            x[3] ^= 0x10;
            Some(seal(c, with_header(b, b.header().as_advanced_builder().proposals_hash(packed::Byte32::from_slice(&x).unwrap()).build())))
        }),
        ("structure.extra_hash_mismatch", |c, b, _| {
            let mut x = b.extra_hash().as_slice().to_vec();
            x[3] ^= 0x10;
            Some(seal(c, with_header(b, b.header().as_advanced_builder().extra_hash(packed::Byte32::from_slice(&x).unwrap()).build())))
        }),
        // ---- cellbase shape
        ("cellbase.missing", |c, b, _| {
            let txs = b.transactions();
            if txs.len() < 2 {
                return None;
            }
            Some(set_txs(c, b, txs[1..].to_vec()))
        }),
        ("cellbase.duplicated", |c, b, _| {
            let mut txs = b.transactions();
            txs.insert(1, txs[0].clone());
            Some(set_txs(c, b, txs))
        }),
        ("cellbase.not_first", |c, b, _| {
            let mut txs = b.transactions();
            if txs.len() < 2 {
                return None;
            }
            txs.swap(0, 1);
            Some(set_txs(c, b, txs))
        }),
        ("cellbase.two_outputs", |c, b, _| cellbase_mut(c, b, |cb| {
            let o = cb.outputs().get(0)?;
            let cap: u64 = o.capacity().into();
            let half = cap / 2;
            let o1 = o.clone().as_builder().capacity(Capacity::shannons(half)).build();
            let o2 = o.as_builder().capacity(Capacity::shannons(cap - half)).build();
            Some(cb.as_advanced_builder().set_outputs(vec![o1, o2]).set_outputs_data(vec![Default::default(), Default::default()]).build())
        })),
        ("cellbase.output_data_not_empty", |c, b, _| cellbase_mut(c, b, |cb| {
            cb.outputs().get(0)?;
            Some(cb.as_advanced_builder().set_outputs_data(vec![Bytes::from(vec![1u8]).into()]).build())
        })),
        ("cellbase.output_with_type_script", |c, b, _| cellbase_mut(c, b, |cb| {
            let o = cb.outputs().get(0)?;
            let o = o.as_builder().type_(Some(c.gi.always_success_script.clone())).build();
            Some(cb.as_advanced_builder().set_outputs(vec![o]).build())
        })),
        ("cellbase.input_since_wrong", |c, b, _| cellbase_mut(c, b, |cb| {
            Some(cb.as_advanced_builder().set_inputs(vec![CellInput::new_cellbase_input(b.number() + 1)]).build())
        })),
        ("cellbase.witness_malformed", |c, b, _| cellbase_mut(c, b, |cb| {
            Some(cb.as_advanced_builder().set_witnesses(vec![Bytes::from(vec![1u8, 2, 3]).into()]).build())
        })),
        ("cellbase.witness_missing", |c, b, _| cellbase_mut(c, b, |cb| Some(cb.as_advanced_builder().set_witnesses(vec![]).build()))),
        ("cellbase.witness_lock_hash_type_invalid", |c, b, _| cellbase_mut(c, b, |cb| {
            let w = packed::CellbaseWitness::from_slice(&cb.witnesses().get(0)?.raw_data()).ok()?;
            let lock = w.lock().as_builder().hash_type(packed::Byte::new(0x7f)).build();
            let w = w.as_builder().lock(lock).build();
            Some(cb.as_advanced_builder().set_witnesses(vec![w.as_bytes().into()]).build())
        })),
        // ---- reward
        ("reward.amount_plus_one", |c, b, _| cellbase_mut(c, b, |cb| {
            let o = cb.outputs().get(0)?;
            let cap: u64 = o.capacity().into();
            Some(cb.as_advanced_builder().set_outputs(vec![o.as_builder().capacity(Capacity::shannons(cap + 1)).build()]).build())
        })),
        ("reward.amount_minus_one", |c, b, _| cellbase_mut(c, b, |cb| {
            let o = cb.outputs().get(0)?;
            let cap: u64 = o.capacity().into();
            Some(cb.as_advanced_builder().set_outputs(vec![o.as_builder().capacity(Capacity::shannons(cap - 1)).build()]).build())
        })),
        ("reward.wrong_lock", |c, b, _| cellbase_mut(c, b, |cb| {
            let o = cb.outputs().get(0)?;
            let lock = builder::lock_with_args(c.gi, &[0xEE]);
            if o.lock() == lock {
                return None;
            }
            Some(cb.as_advanced_builder().set_outputs(vec![o.as_builder().lock(lock).build()]).build())
        })),
        ("reward.output_without_finalization_target", |c, b, _| cellbase_mut(c, b, |cb| {
            if !cb.outputs().is_empty() {
                return None;
            }
            let lock = builder::lock_with_args(c.gi, &[0xA0]);
            let o = packed::CellOutput::new_builder().lock(lock).capacity(Capacity::shannons(100_0000_0000)).build();
            Some(cb.as_advanced_builder().set_outputs(vec![o]).set_outputs_data(vec![Default::default()]).build())
        })),
        ("reward.output_dropped", |c, b, _| cellbase_mut(c, b, |cb| {
            cb.outputs().get(0)?;
            Some(cb.as_advanced_builder().set_outputs(vec![]).set_outputs_data(vec![]).build())
        })),
        // ---- dao field
        ("dao.C_plus_one", |c, b, _| dao_component(c, b, 0, true)),
        ("dao.C_minus_one", |c, b, _| dao_component(c, b, 0, false)),
        ("dao.AR_plus_one", |c, b, _| dao_component(c, b, 1, true)),
        ("dao.AR_minus_one", |c, b, _| dao_component(c, b, 1, false)),
        ("dao.S_plus_one", |c, b, _| dao_component(c, b, 2, true)),
        ("dao.S_minus_one", |c, b, _| dao_component(c, b, 2, false)),
        ("dao.U_plus_one", |c, b, _| dao_component(c, b, 3, true)),
        ("dao.U_minus_one", |c, b, _| dao_component(c, b, 3, false)),
        // ---- duplicates / limits
        ("structure.duplicate_transaction", |c, b, _| {
            let mut txs = b.transactions();
            if txs.len() < 2 {
                return None;
            }
            txs.push(txs[1].clone());
            Some(set_txs(c, b, txs))
        }),
        ("structure.duplicate_proposal", |c, b, _| {
            let mut p: Vec<ProposalShortId> = b.data().proposals().into_iter().collect();
            let first = p.first()?.clone();
            p.push(first);
            Some(seal(c, b.as_advanced_builder().set_proposals(p).build()))
        }),
        ("structure.proposals_over_limit", |c, b, r| {
            let limit = c.gi.consensus.max_block_proposals_limit() as usize;
            if limit > 64 {
                return None;
            }
            let mut p: Vec<ProposalShortId> = b.data().proposals().into_iter().collect();
            while p.len() <= limit {
                p.push(ProposalShortId::from_slice(&r.bytes(10)).unwrap());
            }
            Some(seal(c, b.as_advanced_builder().set_proposals(p).build()))
        }),
        // ---- extension
        ("extension.missing", |c, b, _| {
            b.extension()?;
            Some(seal(c, b.as_advanced_builder().extension(None).build()))
        }),
        ("extension.empty", |c, b, _| Some(seal(c, b.as_advanced_builder().extension(Some(Bytes::new().into())).build()))),
        ("extension.shorter_than_32", |c, b, _| {
            let e = b.extension()?.raw_data();
            Some(seal(c, b.as_advanced_builder().extension(Some(e.slice(0..31).into())).build()))
        }),
        ("extension.97_bytes", |c, b, r| {
            let mut e = b.extension()?.raw_data().slice(0..32).to_vec();
            e.extend(r.bytes(65));
            Some(seal(c, b.as_advanced_builder().extension(Some(Bytes::from(e).into())).build()))
        }),
        ("extension.wrong_chain_root", |c, b, _| {
            let mut e = b.extension()?.raw_data().to_vec();
            e[5] ^= 0x01;
            Some(seal(c, b.as_advanced_builder().extension(Some(Bytes::from(e).into())).build()))
        }),
        // ---- uncles
        ("uncles.count_over_limit", |c, b, _| {
            let max = c.gi.consensus.max_uncles_num();
            let mut u: Vec<UncleBlockView> = b.uncles().into_iter().collect();
            for s in &c.spare_uncles {
                if u.len() > max {
                    break;
                }
                if !u.iter().any(|x| x.hash() == s.hash()) {
                    u.push(s.clone());
                }
            }
            if u.len() <= max {
                return None;
            }
            Some(seal(c, b.as_advanced_builder().set_uncles(u).build()))
        }),
        ("uncles.duplicate", |c, b, _| {
            let s = c.spare_uncles.first().cloned().or_else(|| b.uncles().into_iter().next())?;
            if c.gi.consensus.max_uncles_num() < 2 {
                return None;
            }
            Some(seal(c, b.as_advanced_builder().set_uncles(vec![s.clone(), s]).build()))
        }),
        ("uncles.number_not_below_block", |c, b, _| {
            // a sibling of V itself (same number): take V with another nonce/timestamp as uncle
            let sib = b.as_advanced_builder().timestamp(b.timestamp() + 1).build();
            let sib = builder::reseal(&c.gi.consensus, sib);
            Some(seal(c, b.as_advanced_builder().set_uncles(vec![sib.as_uncle()]).build()))
        }),
        ("uncles.wrong_compact_target", |c, b, _| {
            let s = c.spare_uncles.first()?;
            let hd = s.header().as_advanced_builder().compact_target(s.compact_target() - 1).build();
            let u = packed::UncleBlock::new_builder().header(hd.data()).proposals(s.data().proposals()).build().into_view();
            Some(seal(c, b.as_advanced_builder().set_uncles(vec![u]).build()))
        }),
        ("uncles.other_epoch", |c, b, _| {
            let s = c.spare_uncles.first()?;
            let e = s.epoch();
            let hd = s.header().as_advanced_builder().epoch(EpochNumberWithFraction::new_unchecked(e.number() + 1, e.index(), e.length())).build();
            let u = packed::UncleBlock::new_builder().header(hd.data()).proposals(s.data().proposals()).build().into_view();
            Some(seal(c, b.as_advanced_builder().set_uncles(vec![u]).build()))
        }),
        ("uncles.not_a_descendant", |c, b, r| {
            let s = c.spare_uncles.first()?;
            let hd = s.header().as_advanced_builder().parent_hash(packed::Byte32::from_slice(&r.bytes(32)).unwrap()).build();
            let u = packed::UncleBlock::new_builder().header(hd.data()).proposals(s.data().proposals()).build().into_view();
            Some(seal(c, b.as_advanced_builder().set_uncles(vec![u]).build()))
        }),
        ("uncles.main_chain_block_as_uncle", |c, b, _| {
            let rec = c.tg.rc.get(&c.parent);
            if rec.number < 2 || rec.block.epoch().number() != b.epoch().number() {
                return None;
            }
            Some(seal(c, b.as_advanced_builder().set_uncles(vec![rec.block.as_uncle()]).build()))
        }),
        ("uncles.already_included", |c, b, _| {
            // an uncle embedded by an ancestor in the same epoch
            let st = c.tg.rc.replay(&c.parent);
            for x in st.chain.iter().rev() {
                let blk = &c.tg.rc.get(x).block;
                if blk.epoch().number() != b.epoch().number() {
                    break;
                }
                if let Some(u) = blk.uncles().into_iter().next() {
                    return Some(seal(c, b.as_advanced_builder().set_uncles(vec![u]).build()));
                }
            }
            None
        }),
        ("uncles.proposals_hash_mismatch", |c, b, r| {
            let s = c.spare_uncles.first()?;
            let u = packed::UncleBlock::new_builder()
                .header(s.header().data())
                .proposals(packed::ProposalShortIdVec::new_builder().push(ProposalShortId::from_slice(&r.bytes(10)).unwrap()).build())
                .build()
                .into_view();
            Some(seal(c, b.as_advanced_builder().set_uncles(vec![u]).build()))
        }),
        // ---- two-phase commit window
        ("commit.not_proposed", |c, b, _| {
            let tx = c.fresh_tx.clone()?;
            let mut txs = b.transactions();
            txs.push(tx);
            Some(set_txs(c, b, txs))
        }),
        ("commit.proposed_too_recently", |c, b, _| {
            let w_close = c.tg.rc.window.0;
            let (_, tx) = c.proposed_at.iter().find(|(d, _)| *d + 1 == w_close || (*d < w_close && *d >= 1))?.clone();
            let mut txs = b.transactions();
            if txs.iter().any(|t| t.hash() == tx.hash()) {
                return None;
            }
            txs.push(tx);
            Some(set_txs(c, b, txs))
        }),
        ("commit.proposal_expired", |c, b, _| {
            let w_far = c.tg.rc.window.1;
            let (_, tx) = c.proposed_at.iter().find(|(d, _)| *d > w_far)?.clone();
            let mut txs = b.transactions();
            if txs.iter().any(|t| t.hash() == tx.hash()) {
                return None;
            }
            txs.push(tx);
            Some(set_txs(c, b, txs))
        }),
    ]
}

/// Valid boundary variants of V (must be attached).
fn valid_variants() -> Vec<(&'static str, Mutator)> {
    vec![
        ("valid.as_built", |_c, b, _| Some(b.clone())),
        ("valid.timestamp_median_plus_one", |c, b, _| {
            let m = c.tg.rc.median_time(&c.parent);
            Some(seal(c, b.as_advanced_builder().timestamp(m + 1).build()))
        }),
        ("valid.timestamp_now_plus_allowed_future", |c, b, _| Some(seal(c, b.as_advanced_builder().timestamp(c.now + 15_000).build()))),
        ("valid.extension_32_bytes", |c, b, _| {
            let e = b.extension()?.raw_data().slice(0..32);
            Some(seal(c, b.as_advanced_builder().extension(Some(e.into())).build()))
        }),
        ("valid.extension_96_bytes", |c, b, r| {
            let mut e = b.extension()?.raw_data().slice(0..32).to_vec();
            e.extend(r.bytes(64));
            Some(seal(c, b.as_advanced_builder().extension(Some(Bytes::from(e).into())).build()))
        }),
        ("valid.proposals_exactly_at_limit", |c, b, r| {
            let limit = c.gi.consensus.max_block_proposals_limit() as usize;
            if limit > 64 {
                return None;
            }
            let mut p: Vec<ProposalShortId> = b.data().proposals().into_iter().collect();
            if p.len() > limit {
                return None;
            }
            while p.len() < limit {
                p.push(ProposalShortId::from_slice(&r.bytes(10)).unwrap());
            }
            Some(seal(c, b.as_advanced_builder().set_proposals(p).build()))
        }),
        ("valid.uncles_exactly_at_limit", |c, b, _| {
            let max = c.gi.consensus.max_uncles_num();
            let mut u: Vec<UncleBlockView> = b.uncles().into_iter().collect();
            for s in &c.spare_uncles {
                if u.len() >= max {
                    break;
                }
                if !u.iter().any(|x| x.hash() == s.hash()) {
                    u.push(s.clone());
                }
            }
            if u.len() != max || u.len() == b.uncles().hashes().len() {
                return None;
            }
            Some(seal(c, b.as_advanced_builder().set_uncles(u).build()))
        }),
        ("valid.commit_at_exactly_w_close", |c, b, _| commit_at(c, b, c.tg.rc.window.0)),
        ("valid.commit_at_exactly_w_far", |c, b, _| commit_at(c, b, c.tg.rc.window.1)),
    ]
}

/// Variant committing a tx proposed exactly at distance d. The dao field / reward of later
/// blocks depend on the body, so the block is REBUILT on the builder (not patched).
fn commit_at(c: &Ctx, b: &BlockView, d: u64) -> Option<BlockView> {
    let (_, tx) = c.proposed_at.iter().find(|(x, _)| *x == d)?.clone();
    if b.transactions().iter().any(|t| t.hash() == tx.hash()) {
        return None;
    }
    let mut txs: Vec<TransactionView> = b.transactions()[1..].to_vec();
    txs.push(tx);
    let spec = builder::BlockSpec {
        txs,
        proposals: b.data().proposals().into_iter().collect(),
        uncles: b.uncles().into_iter().collect(),
        timestamp: Some(b.timestamp()),
        miner_lock: packed::CellbaseWitness::from_slice(&b.transactions()[0].witnesses().get(0)?.raw_data()).ok().map(|w| w.lock()),
        message: vec![],
        extension_extra: vec![],
        nonce: b.nonce(),
    };
    builder::try_build_block(&c.tg.b.shared, c.gi, &spec).ok().map(|x| x.block)
}

fn params_for(i: u64, rng: &mut Rng) -> ChainParams {
    let mut p = ChainParams::default();
    match i % 6 {
        5 => {
            // rewards too small to fund a cell: every cellbase has to stay empty
            p.window = (2, 4);
            p.epoch = EpochMode::Permanent { genesis_len: 5, epoch_len: 5 };
            p.primary_epoch_reward_ckb = Some(100);
            p.secondary_epoch_reward_ckb = Some(10);
        }
        0 => {
            p.window = (2, 10);
            p.epoch = EpochMode::Permanent { genesis_len: 6, epoch_len: 5 };
        }
        1 => {
            p.window = (1, 3);
            p.epoch = EpochMode::Permanent { genesis_len: 4, epoch_len: 3 };
        }
        2 => {
            p.window = (2, 4);
            p.epoch = EpochMode::Permanent { genesis_len: 40, epoch_len: 40 };
            p.max_block_proposals_limit = Some(8);
        }
        3 => {
            // real proof of work with real difficulty adjustment (first epoch only)
            p.window = (2, 10);
            p.eaglesong = true;
            p.epoch = EpochMode::Adjusting { genesis_len: 200, duration_target: 1600 };
        }
        _ => {
            p.window = (1, 1);
            p.epoch = EpochMode::Permanent { genesis_len: 7, epoch_len: 7 };
            p.max_block_proposals_limit = Some(6);
        }
    }
    p.median_time_block_count = Some((3 + rng.below(8) as usize) | 1);
    p
}

enum Outcome {
    RejectedByHeaderCheck(String),
    RejectedByChain(String),
    Accepted(bool),
}

fn pipeline(node: &Node, block: &BlockView) -> Outcome {
    let snapshot = node.shared.snapshot();
    if let Err(e) = HeaderVerifier::new(snapshot.as_ref(), snapshot.consensus()).verify(&block.header()) {
        return Outcome::RejectedByHeaderCheck(e.to_string());
    }
    match node.chain().blocking_process_block(Arc::new(block.clone())) {
        Ok(b) => Outcome::Accepted(b),
        Err(e) => Outcome::RejectedByChain(e.to_string()),
    }
}

fn state_fingerprint(node: &Node) -> (String, H) {
    let d = dump::dump(&node.shared.store().get_snapshot());
    (serde_json::to_string(&dump::to_json(&d)).unwrap(), d.tip)
}

pub fn run(args: &Args) -> i32 {
    hooks::install_panic_monitor();
    let mut r = Report::new(
        "C03",
        "exploration",
        args,
        "valid contexts (tips of random block trees incl. epoch boundaries, real PoW contexts) x single-rule violations of a valid candidate (mutators) and valid boundary variants, pushed through HeaderVerifier + chain service on a synchronised node; plus invalid blocks parked on side branches with re-parented heavier descendants; distinct = (mutator, context class) pairs judged",
    );
    let mut rng = Rng::new(args.seed ^ 0xC03);
    let n_ctx = args.get_u64("contexts", args.tier.pick(14, 400));
    let deadline = Instant::now() + Duration::from_secs(args.get_u64("budget_s", args.tier.pick(80, 1100)));
    let muts = mutators();
    let valids = valid_variants();
    for ci in 0..n_ctx {
        if Instant::now() > deadline {
            r.note("stopped_by_budget_after_contexts", json!(ci));
            break;
        }
        let mut crng = rng.fork(ci);
        let params = params_for(ci, &mut crng);
        let gi = consensus::build(&params);
        let cfg = TreeCfg {
            n_blocks: if params.eaglesong { 10 + crng.usize_below(8) } else { 14 + crng.usize_below(22) },
            fork_pm: 220,
            max_fork_depth: 3,
            invalid: 0,
            uncle_pm: 300,
            commit_skip_pm: 300 + crng.below(600),
            ..Default::default()
        };
        let mut tg = TreeGen::new(&gi, cfg, crng.next_u64());
        tg.generate();
        // side blocks next to the tip: uncle candidates for the candidate block
        {
            let t = tg.tip();
            let tn = tg.rc.get(&t).number;
            if tn >= 2 {
                let a = tg.rc.ancestor_at(&t, tn - 1).unwrap();
                tg.extend(&a);
                tg.extend(&a);
                tg.extend(&a);
            }
        }
        for _ in 0..60 {
            let received: HashSet<H> = tg.order.iter().cloned().collect();
            let (_, best) = tg.rc.best(&received);
            let t = tg.tip();
            if best.len() == 1 && best[0] == t {
                break;
            }
            tg.extend(&t);
        }
        // window ladder (every second context): w_far + 2 further blocks, each proposing its own
        // probe transaction and committing nothing, so that the candidate's parent chain holds an
        // uncommitted proposal at EVERY distance 1 ..= w_far + 2 (too recent / exactly w_close /
        // exactly w_far / expired by one)
        if ci % 2 == 1 && !params.eaglesong {
            tg.cfg.commit_skip_pm = 1000;
            tg.cfg.max_new_txs = 0;
            tg.cfg.uncle_pm = 0;
            let (_, w_far) = tg.rc.window;
            let mut t = tg.tip();
            let st0 = tg.rc.replay(&t);
            let mut cells: Vec<((H, u32), u64)> = st0
                .cells
                .iter()
                .filter(|(_, c)| {
                    c.block_number == 0
                        && packed::CellOutput::from_slice(&c.output)
                            .map(|o| o.type_().to_opt().is_none() && o.lock().code_hash() == gi.always_success_script.code_hash() && o.lock().hash_type() == gi.always_success_script.hash_type())
                            .unwrap_or(false)
                })
                .map(|(k, c)| (*k, packed::CellOutput::from_slice(&c.output).unwrap().capacity().into()))
                .collect();
            cells.sort();
            for i in 0..(w_far + 2) {
                let Some((k, cap)) = cells.pop() else { break };
                tg.keep.insert(k);
                let probe = builder::build_tx(&gi, &[(packed::OutPoint::new(packed::Byte32::from_slice(&k.0).unwrap(), k.1), 0)], &[builder::OutSpec { capacity: cap - 5000, lock: builder::lock_with_args(&gi, &[0x1A]), type_: None, data: vec![0x1A, i as u8, ci as u8] }], &[], &[], None);
                t = tg.extend_ex(&t, &[probe]);
            }
            r.count("contexts_with_window_ladder");
        }
        let parent = tg.tip();
        let now = tg.rc.get(&parent).block.timestamp() + NOW_AHEAD;
        vnode::node::set_time(now);
        let node = Node::boot(&gi, &NodeCfg::default());
        for x in tg.order.clone() {
            let _ = node.chain().blocking_process_block(Arc::clone(&tg.rc.get(&x).block));
        }
        if h(&node.tip_hash()) != parent {
            r.inconclusive("harness: node did not reach the builder's tip");
            continue;
        }
        r.count("contexts");
        // candidate (sometimes without commits so that old proposals stay uncommitted)
        let (built, _spec, _new) = tg.draft_ex(&parent, &[]);
        let v = built.block;
        let n = v.number();
        // context facts from the model
        let st = tg.rc.replay(&parent);
        let on_path: HashSet<H> = st.chain.iter().cloned().collect();
        let used: HashSet<packed::Byte32> = v.uncles().hashes().into_iter().collect();
        let spare_uncles: Vec<UncleBlockView> = tg
            .order
            .iter()
            .filter(|x| !on_path.contains(*x))
            .map(|x| tg.rc.get(x))
            .filter(|rec| rec.number < n && rec.number > 0 && rec.block.epoch().number() == v.epoch().number() && on_path.contains(&rec.parent) && !st.uncles.contains_key(&rec.hash) && rec.block.compact_target() == v.compact_target())
            .map(|rec| rec.block.as_uncle())
            .filter(|u| !used.contains(&u.hash()))
            .collect();
        let mut proposed_at = vec![];
        {
            let committed: HashSet<H> = st.tx_info.keys().cloned().collect();
            let in_v: HashSet<H> = v.transactions().iter().map(|t| h(&t.hash())).collect();
            let mut cur = parent;
            loop {
                let rec = tg.rc.get(&cur);
                if rec.number == 0 {
                    break;
                }
                let d = n - rec.number;
                if d > tg.rc.window.1 + 3 {
                    break;
                }
                // ids proposed in this block and nowhere else inside the window
                if let Some(i) = tg.info.get(&cur) {
                    for tx in &i.proposed {
                        let th = h(&tx.hash());
                        if committed.contains(&th) || in_v.contains(&th) {
                            continue;
                        }
                        // inputs live and not spent by V
                        let live = tx.input_pts_iter().all(|op| {
                            let idx: u32 = op.index().into();
                            st.cells.contains_key(&(h(&op.tx_hash()), idx))
                        });
                        let clash = v.transactions().iter().skip(1).any(|t| t.input_pts_iter().any(|a| tx.input_pts_iter().any(|b| a == b)));
                        // proposed only at this distance?
                        let id = tx.proposal_short_id();
                        let mut other = false;
                        let mut c2 = parent;
                        loop {
                            let r2 = tg.rc.get(&c2);
                            if r2.number == 0 || n - r2.number > tg.rc.window.1 + 3 {
                                break;
                            }
                            if c2 != cur && r2.block.union_proposal_ids().contains(&id) {
                                other = true;
                            }
                            c2 = r2.parent;
                        }
                        if live && !clash && !other && tx.cell_deps().len() == 1 && tx.header_deps().is_empty() {
                            proposed_at.push((d, tx.clone()));
                        }
                    }
                }
                cur = rec.parent;
            }
        }
        let fresh_tx = {
            // spend a live plain cell not touched by V
            let spent_by_v: HashSet<(H, u32)> = v.transactions().iter().skip(1).flat_map(|t| t.input_pts_iter().map(|op| { let i: u32 = op.index().into(); (h(&op.tx_hash()), i) }).collect::<Vec<_>>()).collect();
            st.cells.iter().find(|(k, c)| {
                !spent_by_v.contains(*k) && packed::CellOutput::from_slice(&c.output).map(|o| o.type_().to_opt().is_none() && o.lock().code_hash() == gi.always_success_script.code_hash()).unwrap_or(false)
            }).map(|(k, c)| {
                let out = packed::CellOutput::from_slice(&c.output).unwrap();
                let cap: u64 = out.capacity().into();
                builder::build_tx(&gi, &[(packed::OutPoint::new(packed::Byte32::from_slice(&k.0).unwrap(), k.1), 0)], &[builder::OutSpec { capacity: cap - 1000, lock: builder::lock_with_args(&gi, &[9]), type_: None, data: ci.to_le_bytes().to_vec() }], &[], &[], None)
            })
        };
        let ctx = Ctx { gi: &gi, tg: &tg, parent, now, spare_uncles, proposed_at, fresh_tx };
        let class = format!("v{}{}", ci % 6, if v.epoch().index() == 0 { ".epoch_head" } else if v.epoch().index() + 1 == v.epoch().length() { ".epoch_tail" } else { "" });
        let (mut base_fp, _) = state_fingerprint(&node);
        // ---- single-rule violations
        for (name, m) in &muts {
            let Some(mb) = m(&ctx, &v, &mut crng) else {
                r.count(&format!("mutator_not_applicable.{name}"));
                continue;
            };
            if mb.hash() == v.hash() {
                continue;
            }
            r.eval();
            r.count(&format!("mutants.{name}"));
            r.distinct_str(&format!("{name}|{class}"));
            let wit = json!({"context": ci, "params_variant": ci % 6, "parent": format!("{}#{}", hx(&parent), n - 1), "mutator": name, "candidate_epoch": format!("{}", v.epoch()), "block_hex_len": mb.data().as_slice().len()});
            match pipeline(&node, &mb) {
                Outcome::RejectedByHeaderCheck(_) => r.count("rejected_by_header_check"),
                Outcome::RejectedByChain(_) => r.count("rejected_by_chain_service"),
                Outcome::Accepted(b) => {
                    r.violation(
                        &format!("invalid_block_accepted@{name}"),
                        format!("block violating exactly `{name}` on top of {}#{} was answered Ok({b}) by the pipeline", hx(&parent), n - 1),
                        wit.clone(),
                    );
                }
            }
            let (fp, tip) = state_fingerprint(&node);
            if tip != parent {
                r.violation(&format!("tip_moved_by_invalid_block@{name}"), format!("tip is now {}", hx(&tip)), wit.clone());
                // can not continue on this node
                break;
            }
            if fp != base_fp {
                r.violation(&format!("state_changed_by_rejected_block@{name}"), "store dump differs after the rejected block".into(), wit.clone());
                base_fp = fp;
            }
        }
        // ---- valid boundary variants: accepted, then the node is brought back with truncate
        let mut delivered_valid: HashSet<H> = HashSet::new();
        for (name, m) in &valids {
            let Some(vb) = m(&ctx, &v, &mut crng) else {
                r.count(&format!("variant_not_applicable.{name}"));
                continue;
            };
            if !delivered_valid.insert(h(&vb.hash())) {
                // identical to a variant already delivered (a re-delivery is answered Ok(false))
                continue;
            }
            r.eval();
            r.count(&format!("valid_variants.{name}"));
            r.distinct_str(&format!("{name}|{class}"));
            let wit = json!({"context": ci, "params_variant": ci % 6, "parent": format!("{}#{}", hx(&parent), n - 1), "variant": name});
            match pipeline(&node, &vb) {
                Outcome::Accepted(true) if h(&node.tip_hash()) == h(&vb.hash()) => {
                    r.count("valid_accepted");
                }
                Outcome::Accepted(b) => r.violation(&format!("valid_block_not_attached@{name}"), format!("answered Ok({b}) but the tip is {}", hx(&h(&node.tip_hash()))), wit.clone()),
                Outcome::RejectedByHeaderCheck(e) | Outcome::RejectedByChain(e) => {
                    r.violation(&format!("valid_block_rejected@{name}"), format!("boundary-valid block rejected: {e}"), wit.clone());
                }
            }
            if h(&node.tip_hash()) != parent {
                let _ = node.chain().truncate(packed::Byte32::from_slice(&parent).unwrap());
            }
        }
        // ---- side-branch placement (needs depth)
        if n >= 4 {
            side_branch(&mut tg, &gi, &node, parent, &mut crng, &mut r, ci);
        }
        for p in hooks::take_panics() {
            r.violation(&format!("node_thread_panicked@{}:{}", p.thread, p.message.chars().take(60).collect::<String>()), format!("{} at {}", p.message, p.location), json!({"context": ci}));
        }
        if r.samples.len() < 3 {
            r.sample(json!({"context": ci, "params": format!("{:?}", params.epoch), "window": [params.window.0, params.window.1], "tree_blocks": tg.order.len(), "candidate_number": n, "candidate_epoch": format!("{}", v.epoch()), "spare_uncles": ctx_len(&tg, &parent)}));
        }
    }
    r.require("contexts", 3);
    if n_ctx >= 8 {
        r.require("contexts_with_window_ladder", 1);
        r.require("mutants.commit.proposal_expired", 1);
        r.require("valid_variants.valid.commit_at_exactly_w_far", 1);
    }
    r.require("rejected_by_header_check", 5);
    r.require("rejected_by_chain_service", 20);
    r.require("valid_accepted", 5);
    r.require("side_branch.refused_as_a_whole", 1);
    r.assume("mutants violate exactly one rule by construction; window / median / uncle eligibility facts come from the RefChain model, dao and reward fields of the valid candidate from the production calculators (C06 judges those)");
    r.finish(None)
}

fn ctx_len(tg: &TreeGen, parent: &H) -> usize {
    tg.rc.replay(parent).uncles.len()
}

/// An invalid block parked on a lighter side branch, made heavier by re-parented descendants.
fn side_branch(tg: &mut TreeGen, _gi: &GenesisInfo, node: &Node, tip: H, rng: &mut Rng, r: &mut Report, ci: u64) {
    let tip_n = tg.rc.get(&tip).number;
    let depth = 1 + rng.below(3.min(tip_n - 1));
    let anc = tg.rc.ancestor_at(&tip, tip_n - depth).unwrap();
    // valid branch anc -> v1 -> ... longer than the main chain by one
    let mut valid_branch = vec![];
    let mut cur = anc;
    for _ in 0..(depth + 1) {
        cur = tg.extend(&cur);
        valid_branch.push(cur);
    }
    // invalid twin of the first block + re-parented descendants
    let kinds = [vnode::treegen::Mutation::DaoField, vnode::treegen::Mutation::RewardPlusOne, vnode::treegen::Mutation::BadChainRoot, vnode::treegen::Mutation::UnproposedCommit];
    let kind = kinds[rng.usize_below(kinds.len())];
    let Some(twin) = tg.mutate(&valid_branch[0], kind) else {
        return;
    };
    let epoch = tg.rc.get(&valid_branch[0]).epoch.clone();
    let m = tg.rc.add(&twin, false, Some(&format!("{kind:?}")), epoch);
    let mut bad_branch = vec![m];
    let mut prev = m;
    for x in valid_branch.iter().skip(1) {
        let re = tg.reparent(x, &prev);
        let ep = tg.rc.get(x).epoch.clone();
        let rh = tg.rc.add(&re, true, None, ep);
        bad_branch.push(rh);
        prev = rh;
    }
    let wit = json!({"context": ci, "fork_depth": depth, "invalid_kind": format!("{kind:?}"), "branch_len": bad_branch.len()});
    let (fp0, _) = state_fingerprint(node);
    let canonical = |node: &Node| -> String {
        // canonical columns only (side blocks may legitimately be stored)
        let d = dump::dump(&node.shared.store().get_snapshot());
        format!("{:?}|{}|{}|{}|{}", d.tip, d.cells.len(), d.tx_info.len(), d.index_num_to_hash.len(), vbase::hex(&d.current_epoch))
    };
    let c0 = canonical(node);
    let _ = fp0;
    let mut refused = false;
    for (i, x) in bad_branch.iter().enumerate() {
        let b = Arc::clone(&tg.rc.get(x).block);
        let res = node.chain().blocking_process_block(b);
        r.eval();
        let heavier = (i as u64 + 1) > depth;
        match (&res, heavier) {
            (Ok(_), false) => r.count("side_branch.stored_unverified"),
            (Err(_), _) => {
                if heavier {
                    refused = true;
                }
            }
            (Ok(b), true) => {
                if h(&node.tip_hash()) != tip {
                    r.violation("side_branch.invalid_branch_became_canonical", format!("block {} of a branch containing an invalid block ({kind:?}) answered Ok({b}) and the tip moved", i), wit.clone());
                    return;
                }
            }
        }
        if h(&node.tip_hash()) != tip || canonical(node) != c0 {
            r.violation("side_branch.state_changed_by_refused_branch", format!("after block {i} of the invalid branch"), wit.clone());
            return;
        }
    }
    if refused {
        r.count("side_branch.refused_as_a_whole");
    } else {
        r.violation("side_branch.trigger_block_not_reported_failed", format!("no block of the heavier invalid branch ({kind:?}) was reported failed to its submitter"), wit.clone());
    }
    // the valid twin branch must be attached
    for x in &valid_branch {
        let _ = node.chain().blocking_process_block(Arc::clone(&tg.rc.get(x).block));
    }
    r.eval();
    if h(&node.tip_hash()) != *valid_branch.last().unwrap() {
        r.violation("side_branch.valid_heavier_branch_not_attached", format!("tip {} expected {}", hx(&h(&node.tip_hash())), hx(valid_branch.last().unwrap())), wit);
    } else {
        r.count("side_branch.valid_twin_attached");
    }
}
