//! Real `BlockView`s forming a parent-hash chain (sizes vary: output data, extra transactions,
//! proposals, optional extension).

use ckb_types::{
    core::{BlockBuilder, BlockView, EpochNumberWithFraction, TransactionBuilder},
    packed,
    prelude::*,
};
use vbase::Rng;

pub fn random_hash(rng: &mut Rng) -> packed::Byte32 {
    packed::Byte32::from_slice(&rng.bytes(32)).expect("32 bytes")
}

fn rb(rng: &mut Rng, lo: u64, hi: u64) -> Vec<u8> {
    let n = rng.range(lo, hi) as usize;
    rng.bytes(n)
}

pub fn gen_block(rng: &mut Rng, number: u64, parent: &packed::Byte32) -> BlockView {
    let data_len = match rng.below(4) {
        0 => 0,
        1 => rng.range(1, 16) as usize,
        _ => rng.range(0, 160) as usize,
    };
    let lock = packed::Script::new_builder()
        .code_hash(random_hash(rng))
        .args(rng.bytes(20).as_slice())
        .build();
    let output = packed::CellOutput::new_builder()
        .capacity(rng.next_u64())
        .lock(lock)
        .build();
    let cellbase = TransactionBuilder::default()
        .input(packed::CellInput::new_cellbase_input(number))
        .output(output)
        .output_data(rng.bytes(data_len).as_slice())
        .witness(rb(rng, 0, 40).as_slice())
        .build();
    let mut b = BlockBuilder::default()
        .number(number)
        .parent_hash(parent.clone())
        .timestamp(1_700_000_000_000u64 + number * 8_000 + rng.below(1000))
        .epoch(EpochNumberWithFraction::new(number / 50, number % 50, 50).full_value())
        .nonce(((rng.next_u64() as u128) << 64) | rng.next_u64() as u128)
        .compact_target(0x2001_0000u32)
        .transaction(cellbase);
    for _ in 0..rng.below(3) {
        let input = packed::CellInput::new(
            packed::OutPoint::new(random_hash(rng), rng.below(4) as u32),
            0,
        );
        let out = packed::CellOutput::new_builder()
            .capacity(rng.next_u64())
            .build();
        let tx = TransactionBuilder::default()
            .input(input)
            .output(out)
            .output_data(rb(rng, 0, 30).as_slice())
            .build();
        b = b.transaction(tx);
    }
    for _ in 0..rng.below(3) {
        b = b.proposal(packed::ProposalShortId::from_slice(&rng.bytes(10)).expect("10 bytes"));
    }
    if rng.chance(1, 3) {
        let ext: packed::Bytes = rb(rng, 1, 96).as_slice().into();
        b = b.extension(Some(ext));
    }
    b.build()
}
