//! `Freezer` level: real blocks, `Freezer::{open, freeze, retrieve, truncate, number}`; tip
//! re-derivation (an unlinked block must be refused after reopen / truncate / crash), crash cuts
//! at the file level under a `Freezer`.  Roll-over states cannot be produced through
//! `Freezer::open` alone (it uses 2 GB data files), so part of the histories first lay out the
//! directory with `FreezerFilesBuilder` (small `max_file_size`, compression on = the Freezer
//! default) exactly as `Freezer::freeze` would (`append(number, block.data())`), and then
//! continue through `Freezer`.

use crate::blocks::{gen_block, random_hash};
use crate::crash::{self, DataCut, DirLens, Plan};
use crate::ffwrap::Ff;
use crate::files_engine::{Diff, Dirs, RR};
use crate::stats::Stats;
use ckb_freezer::Freezer;
use ckb_types::{core::BlockView, packed, prelude::*};
use serde_json::{Value, json};
use std::cell::RefCell;
use std::collections::{BTreeMap, HashSet};
use std::path::Path;
use vbase::Rng;

pub const LVL: &str = "freezer";

pub struct FCfg {
    pub seed: u64,
    pub max_unsynced: usize,
    pub extra_cuts: usize,
    pub n_ops: usize,
    pub crash_phases: usize,
}

pub fn compare(fz: &Freezer, frozen: &[BlockView]) -> Result<(), Diff> {
    let n = fz.number();
    if n != frozen.len() as u64 + 1 {
        return Err(Diff {
            symptom: "number_mismatch",
            detail: format!(
                "number()={} but {} blocks are frozen in the model",
                n,
                frozen.len()
            ),
        });
    }
    for (i, b) in frozen.iter().enumerate() {
        let i = i as u64 + 1;
        let data = b.data();
        match fz.retrieve(i) {
            Ok(Some(got)) if got.as_slice() == data.as_slice() => {}
            Ok(Some(got)) => {
                return Err(Diff {
                    symptom: "item_corrupt",
                    detail: format!(
                        "retrieve({i}) returned {} bytes, block.data() has {}",
                        got.len(),
                        data.as_slice().len()
                    ),
                });
            }
            Ok(None) => {
                return Err(Diff {
                    symptom: "item_missing",
                    detail: format!("retrieve({i}) = None"),
                });
            }
            Err(e) => {
                return Err(Diff {
                    symptom: "retrieve_error",
                    detail: format!("retrieve({i}) = Err({e})"),
                });
            }
        }
    }
    let len = frozen.len() as u64;
    for beyond in [0, len + 1, len + 7, u64::MAX] {
        match fz.retrieve(beyond) {
            Ok(None) => {}
            Ok(Some(v)) => {
                return Err(Diff {
                    symptom: "beyond_range_not_none",
                    detail: format!("retrieve({beyond}) returned {} bytes", v.len()),
                });
            }
            Err(e) => {
                return Err(Diff {
                    symptom: "beyond_range_not_none",
                    detail: format!("retrieve({beyond}) = Err({e})"),
                });
            }
        }
    }
    Ok(())
}

pub fn compare_light(fz: &Freezer, frozen: &[BlockView], pick: u64) -> Result<(), Diff> {
    let n = fz.number();
    let len = frozen.len() as u64;
    if n != len + 1 {
        return Err(Diff {
            symptom: "number_mismatch",
            detail: format!("number()={} but {} blocks are frozen in the model", n, len),
        });
    }
    let mut idx = vec![];
    if len >= 1 {
        idx.push(pick % len + 1);
    }
    if len >= 2 {
        idx.push(len - 1);
    }
    if len >= 1 {
        idx.push(len);
    }
    for i in idx {
        read_one(fz, frozen, i)?;
    }
    match fz.retrieve(len + 1) {
        Ok(None) => Ok(()),
        Ok(Some(v)) => Err(Diff {
            symptom: "beyond_range_not_none",
            detail: format!("retrieve({}) returned {} bytes", len + 1, v.len()),
        }),
        Err(e) => Err(Diff {
            symptom: "beyond_range_not_none",
            detail: format!("retrieve({}) = Err({e})", len + 1),
        }),
    }
}

pub fn read_one(fz: &Freezer, frozen: &[BlockView], i: u64) -> Result<(), Diff> {
    let want = frozen[i as usize - 1].data();
    match fz.retrieve(i) {
        Ok(Some(got)) if got.as_slice() == want.as_slice() => Ok(()),
        Ok(Some(got)) => Err(Diff {
            symptom: "item_corrupt",
            detail: format!(
                "retrieve({i}) returned {} bytes, block.data() has {}",
                got.len(),
                want.as_slice().len()
            ),
        }),
        Ok(None) => Err(Diff {
            symptom: "item_missing",
            detail: format!("retrieve({i}) = None"),
        }),
        Err(e) => Err(Diff {
            symptom: "retrieve_error",
            detail: format!("retrieve({i}) = Err({e})"),
        }),
    }
}

fn tip_hash(frozen: &[BlockView], genesis: &packed::Byte32) -> packed::Byte32 {
    frozen
        .last()
        .map(|b| b.hash())
        .unwrap_or_else(|| genesis.clone())
}

/// Freeze `blocks` (linked onto the frozen tip); `missing_at` makes the block source return
/// None there (freeze must stop in front of it). Returns a divergence description on failure.
fn freeze_blocks(
    fz: &Freezer,
    frozen: &mut Vec<BlockView>,
    blocks: &[BlockView],
    missing_at: Option<usize>,
    on_fetch: &dyn Fn(),
) -> Result<(), String> {
    let start = frozen.len() as u64 + 1;
    let threshold = start + blocks.len() as u64;
    let ret = fz.freeze(threshold, |n| {
        on_fetch();
        let i = n.checked_sub(start)? as usize;
        if Some(i) == missing_at {
            None
        } else {
            blocks.get(i).cloned()
        }
    });
    let take = missing_at.unwrap_or(blocks.len()).min(blocks.len());
    let mut want: BTreeMap<packed::Byte32, (u64, u32)> = BTreeMap::new();
    for (i, b) in blocks[..take].iter().enumerate() {
        want.insert(b.hash(), (start + i as u64, b.transactions().len() as u32));
    }
    match ret {
        Ok(got) => {
            frozen.extend_from_slice(&blocks[..take]);
            if got != want {
                return Err(format!(
                    "freeze({threshold}) returned {} entries, expected {}",
                    got.len(),
                    want.len()
                ));
            }
            Ok(())
        }
        Err(e) => Err(format!(
            "freeze({threshold}) of {} linked blocks = Err({e})",
            blocks.len()
        )),
    }
}

/// A block that does not link onto the tip must be refused and nothing may change.
fn unlinked_refused(fz: &Freezer, frozen: &[BlockView], rng: &mut Rng) -> Result<(), String> {
    let next = frozen.len() as u64 + 1;
    let stranger = random_hash(rng);
    let bad = gen_block(rng, next, &stranger);
    match fz.freeze(next + 1, |_| Some(bad.clone())) {
        Err(_) => {}
        Ok(_) => {
            return Err(format!(
                "freeze accepted block {next} whose parent_hash is not the hash of frozen block {}",
                next - 1
            ));
        }
    }
    if fz.number() != next {
        return Err(format!(
            "number() changed to {} by a refused freeze",
            fz.number()
        ));
    }
    Ok(())
}

fn new_blocks(
    rng: &mut Rng,
    frozen: &[BlockView],
    genesis: &packed::Byte32,
    k: usize,
) -> Vec<BlockView> {
    let mut parent = tip_hash(frozen, genesis);
    let mut v = vec![];
    for i in 0..k {
        let b = gen_block(rng, frozen.len() as u64 + 1 + i as u64, &parent);
        parent = b.hash();
        v.push(b);
    }
    v
}

struct FH<'a> {
    random_reads: bool,
    poke: u64,
    cfg: &'a FCfg,
    job: String,
    dirs: &'a Dirs,
    genesis: packed::Byte32,
    frozen: Vec<BlockView>,
    layout: Option<u64>,
    ops: Vec<String>,
    st: &'a mut Stats,
    dead: bool,
}

impl<'a> FH<'a> {
    fn ctx(&self) -> Value {
        json!({
            "level": LVL, "job": self.job, "seed": self.cfg.seed,
            "directory_laid_out_with_max_file_size": self.layout,
            "random_reads_between_writes": self.random_reads,
            "block_sizes": self.frozen.iter().map(|b| b.data().as_slice().len()).collect::<Vec<_>>(),
            "ops": self.ops,
        })
    }
    fn weight(&self) -> (u64, u64) {
        (
            self.frozen.len() as u64,
            self.frozen
                .iter()
                .map(|b| b.data().as_slice().len() as u64)
                .sum(),
        )
    }
    fn fail(&mut self, op: &str, symptom: &str, detail: String) {
        let (sig, detail) = if self.random_reads {
            (
                format!("{LVL}.history.diverged@{RR}"),
                format!("{op}: {symptom}: {detail}"),
            )
        } else {
            (format!("{LVL}.{op}.{symptom}"), detail)
        };
        let ctx = self.ctx();
        let w = self.weight();
        self.st.violation(&sig, detail, w, || ctx);
        self.dead = true;
    }
    fn check(&mut self, fz: &Freezer, op: &'static str) {
        self.st.eval();
        if let Err(d) = compare(fz, &self.frozen) {
            return self.fail(op, d.symptom, d.detail);
        }
        // finish with a random-access read, like a real reader between two freeze passes
        self.poke = self
            .poke
            .wrapping_mul(6364136223846793005)
            .wrapping_add(1442695040888963407);
        if self.random_reads && !self.frozen.is_empty() && (self.poke >> 33) % 4 != 0 {
            let i = (self.poke >> 35) % self.frozen.len() as u64;
            self.st.count("freezer.op.retrieve_single_random");
            self.ops.push(format!("retrieve({})", i + 1));
            if let Err(d) = read_one(fz, &self.frozen, i + 1) {
                self.fail(op, d.symptom, d.detail);
            }
        }
    }

    fn crash_witness(
        &self,
        plan: &Plan,
        dc: DataCut,
        ic: u64,
        class: &str,
        n: Option<u64>,
    ) -> Value {
        let (k_idx, k_data) = plan.written(dc, ic);
        json!({
            "history": self.ctx(),
            "synced_items": plan.m0,
            "unsynced_items": plan.u,
            "unsynced_item_extents": plan.extents.iter().map(|e| json!({"file": crash::data_name(e.file), "start": e.start, "end": e.end})).collect::<Vec<_>>(),
            "synced_lengths": crash::image_lens(&plan.base),
            "final_lengths": crash::image_lens(&plan.fin),
            "crash_state": {
                "data_cut": {"file": crash::data_name(dc.file), "len": dc.len, "newer_files": "absent"},
                "index_cut": ic,
                "directory": plan.state_lens(dc, ic),
                "class": class,
                "complete_unsynced_index_entries": k_idx,
                "unsynced_items_with_complete_data": k_data,
            },
            "expected_min_items": plan.lower_bound(dc, ic),
            "actual_items": n,
        })
    }

    fn enumerate(&mut self, plan: &Plan, rng: &mut Rng) {
        self.st.count("freezer.crash_plans");
        if plan.rollovers() > 0 {
            self.st.count("freezer.crash_plans_with_rollover");
        }
        let cuts = plan.sampled_data_cuts(rng, self.cfg.extra_cuts);
        let salt = rng.next_u64();
        let mut seen: HashSet<(u32, u64, u64)> = HashSet::new();
        for dc in &cuts {
            for ic in plan.i0..=plan.i_fin {
                if !seen.insert((dc.file, dc.len, ic)) {
                    continue;
                }
                let class = plan.class(*dc, ic);
                self.st.count("freezer.crash_states");
                self.st.count(class_counter(class));
                let sub = salt ^ vbase::fnv1a(format!("{}:{}:{}", dc.file, dc.len, ic).as_bytes());
                let r = std::panic::catch_unwind(std::panic::AssertUnwindSafe(|| {
                    eval_state(self, plan, *dc, ic, class, sub)
                }));
                if let Err(p) = r {
                    let msg = crate::panic_msg(&p);
                    let w = self.crash_witness(plan, *dc, ic, class, None);
                    let wt = self.weight();
                    self.st.violation(
                        &format!("{LVL}.crash_state.panic@{class}"),
                        format!("panic while opening / using a crash state: {msg}"),
                        wt,
                        || w,
                    );
                }
            }
        }
        self.st.distinct += seen.len() as u64;
    }

    /// Crash phase through `Freezer::freeze` itself: the unsynced appends are the appends of ONE
    /// freeze call (it syncs only at its end); lengths are observed from the block source callback.
    fn crash_phase_freeze(&mut self, fz: &Freezer, rng: &mut Rng) {
        // freeze with nothing to do = sync_all
        if let Err(e) = fz.freeze(0, |_| None) {
            return self.fail("freeze", "error", format!("empty freeze = Err({e})"));
        }
        let base = match crash::read_image(&self.dirs.main) {
            Ok(b) => b,
            Err(e) => return self.st.harness_error(format!("read base image: {e}")),
        };
        let m0 = self.frozen.len();
        let u = rng.range(1, self.cfg.max_unsynced as u64) as usize;
        let blocks = new_blocks(rng, &self.frozen, &self.genesis, u);
        let snaps: RefCell<Vec<DirLens>> = RefCell::new(vec![]);
        let main = self.dirs.main.clone();
        self.ops.push(format!("freeze(+{u}) [crash phase]"));
        self.st
            .count_n("freezer.op.freeze_block_unsynced", u as u64);
        let r = freeze_blocks(fz, &mut self.frozen, &blocks, None, &|| {
            snaps
                .borrow_mut()
                .push(crash::read_lens(&main).unwrap_or_default());
        });
        if let Err(d) = r {
            return self.fail("freeze", "diverged", d);
        }
        self.check(fz, "freeze");
        if self.dead {
            return;
        }
        let mut snaps = snaps.into_inner();
        snaps.push(crash::read_lens(&self.dirs.main).unwrap_or_default());
        let fin = match crash::read_image(&self.dirs.main) {
            Ok(b) => b,
            Err(e) => return self.st.harness_error(format!("read final image: {e}")),
        };
        match Plan::build(base, fin, &snaps, m0) {
            Ok(plan) => self.enumerate(&plan, rng),
            Err(e) => self
                .st
                .harness_error(format!("{LVL} job {}: crash plan: {e}", self.job)),
        }
    }

    /// Lay the directory out with small data files (what `Freezer::freeze` would write with a
    /// small file limit), with a crash phase, before any `Freezer` is opened on it.
    fn layout_phase(&mut self, rng: &mut Rng, max: u64) {
        let mut ff = match Ff::open(&self.dirs.main, max, true, None) {
            Ok(f) => f,
            Err(e) => return self.fail("layout", "open_error", format!("{e}")),
        };
        let pre = rng.range(0, 5) as usize;
        let blocks = new_blocks(rng, &self.frozen, &self.genesis, pre);
        for b in blocks {
            let num = self.frozen.len() as u64 + 1;
            if let Err(e) = ff.append(num, b.data().as_slice()) {
                return self.fail("layout", "append_error", format!("{e}"));
            }
            self.frozen.push(b);
        }
        self.ops.push(format!(
            "layout: {pre} blocks appended with max_file_size {max}, sync_all"
        ));
        if let Err(e) = ff.sync_all() {
            return self.fail("layout", "sync_error", format!("{e}"));
        }
        let base = match crash::read_image(&self.dirs.main) {
            Ok(b) => b,
            Err(e) => return self.st.harness_error(format!("read base image: {e}")),
        };
        let m0 = self.frozen.len();
        let mut snaps = vec![crash::image_lens(&base)];
        let u = rng.range(1, self.cfg.max_unsynced as u64) as usize;
        let blocks = new_blocks(rng, &self.frozen, &self.genesis, u);
        for b in blocks {
            let num = self.frozen.len() as u64 + 1;
            if let Err(e) = ff.append(num, b.data().as_slice()) {
                return self.fail("layout", "append_error", format!("{e}"));
            }
            self.frozen.push(b);
            snaps.push(crash::read_lens(&self.dirs.main).unwrap_or_default());
        }
        self.ops.push(format!(
            "layout: {u} blocks appended unsynced [crash phase]"
        ));
        drop(ff);
        let fin = match crash::read_image(&self.dirs.main) {
            Ok(b) => b,
            Err(e) => return self.st.harness_error(format!("read final image: {e}")),
        };
        let files = fin.keys().filter(|k| crash::data_id(k).is_some()).count() as u64;
        self.st.count_n("freezer.layout.data_files", files);
        match Plan::build(base, fin, &snaps, m0) {
            Ok(plan) => {
                self.st.count_n(
                    "freezer.rollovers_in_unsynced_appends",
                    plan.rollovers() as u64,
                );
                self.enumerate(&plan, rng)
            }
            Err(e) => self
                .st
                .harness_error(format!("{LVL} job {}: layout crash plan: {e}", self.job)),
        }
    }
}

fn class_counter(class: &str) -> &'static str {
    match class {
        "rollover_head_cut" => "freezer.crash_class.rollover_head_cut",
        "empty_item_heads_new_file" => "freezer.crash_class.empty_item_heads_new_file",
        "index_ahead" => "freezer.crash_class.index_ahead",
        "data_ahead_rollover" => "freezer.crash_class.data_ahead_rollover",
        "data_ahead" => "freezer.crash_class.data_ahead",
        _ => "freezer.crash_class.clean",
    }
}

fn eval_state(h: &mut FH, plan: &Plan, dc: DataCut, ic: u64, class: &'static str, sub: u64) {
    let dir: &Path = &h.dirs.crash;
    if let Err(e) = crash::clear_dir(dir).and_then(|_| plan.materialize(dir, dc, ic)) {
        return h.st.harness_error(format!("materialize: {e}"));
    }
    h.st.eval();
    h.st.count("freezer.open_evaluations");
    let lower = plan.lower_bound(dc, ic);
    let wt = h.weight();
    let fz = match Freezer::open(dir.to_path_buf()) {
        Ok(f) => f,
        Err(e) => {
            let w = h.crash_witness(plan, dc, ic, class, None);
            return h.st.violation(
                &format!("{LVL}.open.unreadable_prefix@{class}"),
                format!("Freezer::open on a crash state failed: {e}"),
                wt,
                || w,
            );
        }
    };
    let number = fz.number();
    let n = number.saturating_sub(1);
    if number < 1 || n > h.frozen.len() as u64 {
        let w = h.crash_witness(plan, dc, ic, class, Some(n));
        return h.st.violation(
            &format!("{LVL}.open.unreadable_prefix@{class}"),
            format!(
                "number()={number} after open, only {} blocks were ever frozen",
                h.frozen.len()
            ),
            wt,
            || w,
        );
    }
    if (n as usize) < lower {
        let w = h.crash_witness(plan, dc, ic, class, Some(n));
        return h.st.violation(
            &format!("{LVL}.open.lost_fully_written_items@{class}"),
            format!(
                "Freezer::open reports {n} blocks; {lower} blocks had data and index entry fully inside the cuts ({} of them synced)",
                plan.m0
            ),
            wt,
            || w,
        );
    }
    let frozen: Vec<BlockView> = h.frozen[..n as usize].to_vec();
    if let Err(d) = compare(&fz, &frozen) {
        let w = h.crash_witness(plan, dc, ic, class, Some(n));
        return h.st.violation(
            &format!("{LVL}.open.unreadable_prefix@{class}"),
            format!("after open with {n} blocks: {}: {}", d.symptom, d.detail),
            wt,
            || w,
        );
    }

    let pokes = Rng::new(sub ^ 0x9e37).chance(1, 4);
    if pokes {
        h.st.count("freezer.post_crash.with_random_reads");
    }
    let Some((mut symptom, mut d, mut steps)) = follow_up(h, fz, n as usize, sub, pokes) else {
        return;
    };
    let mut label = class;
    if pokes {
        // attribute: does the same follow-up (same writes) also diverge without the reads?
        let again = crash::clear_dir(dir)
            .and_then(|_| plan.materialize(dir, dc, ic))
            .map_err(|e| e.to_string())
            .and_then(|_| Freezer::open(dir.to_path_buf()).map_err(|e| e.to_string()));
        match again {
            Ok(fz2) => match follow_up(h, fz2, n as usize, sub, false) {
                Some((s2, d2, st2)) => {
                    symptom = s2;
                    d = d2;
                    steps = st2;
                }
                None => label = RR,
            },
            Err(e) => {
                return h
                    .st
                    .harness_error(format!("re-materialize for attribution: {e}"));
            }
        }
    }
    let mut w = h.crash_witness(plan, dc, ic, class, Some(n));
    w["post_crash_steps"] = json!(steps);
    h.st.violation(
        &format!("{LVL}.post_crash.{symptom}@{label}"),
        format!("open gave a correct prefix of {n} blocks, then: {d}"),
        wt,
        || w,
    );
}

/// Follow-up operations on a re-opened crash state (`fz` holds exactly `h.frozen[..n]`).
fn follow_up(
    h: &mut FH,
    mut fz: Freezer,
    n: usize,
    sub: u64,
    pokes: bool,
) -> Option<(&'static str, String, Vec<String>)> {
    let dir: &Path = &h.dirs.crash;
    let mut frozen: Vec<BlockView> = h.frozen[..n].to_vec();
    let mut rng = Rng::new(sub);
    let mut prng = Rng::new(sub ^ 0x706f6b65);
    let mut steps: Vec<String> = vec![];
    let genesis = h.genesis.clone();
    macro_rules! chk {
        ($what:expr, $full:expr) => {
            h.st.eval();
            let pick = prng.next_u64();
            let r = if $full {
                compare(&fz, &frozen)
            } else {
                compare_light(&fz, &frozen, pick)
            };
            if let Err(d) = r {
                return Some((
                    "diverged",
                    format!("after {}: {}: {}", $what, d.symptom, d.detail),
                    steps,
                ));
            }
            if pokes && !frozen.is_empty() && prng.chance(3, 4) {
                let i = prng.range(1, frozen.len() as u64);
                steps.push(format!("retrieve({i})"));
                if let Err(d) = read_one(&fz, &frozen, i) {
                    return Some((
                        "diverged",
                        format!("after {}: {}: {}", $what, d.symptom, d.detail),
                        steps,
                    ));
                }
            }
        };
    }
    macro_rules! tip {
        ($what:expr) => {
            if !frozen.is_empty() {
                h.st.eval();
                h.st.count("freezer.tip_checks");
                if let Err(d) = unlinked_refused(&fz, &frozen, &mut rng) {
                    return Some((
                        "accepted_unlinked_block",
                        format!("after {}: {}", $what, d),
                        steps,
                    ));
                }
            }
        };
    }
    tip!("open");
    let k = rng.range(1, 2) as usize;
    let blocks = new_blocks(&mut rng, &frozen, &genesis, k);
    steps.push(format!("freeze(+{k})"));
    h.st.count("freezer.post_crash.freeze");
    if let Err(d) = freeze_blocks(&fz, &mut frozen, &blocks, None, &|| {}) {
        return Some(("diverged", d, steps));
    }
    chk!("freeze", false);
    if rng.chance(1, 3) && frozen.len() >= 2 {
        let t = rng.range(1, frozen.len() as u64 - 1);
        steps.push(format!("truncate({t})"));
        h.st.count("freezer.post_crash.truncate");
        if let Err(e) = fz.truncate(t) {
            return Some(("diverged", format!("truncate({t}) = Err({e})"), steps));
        }
        frozen.truncate(t as usize);
        chk!("truncate", false);
        tip!("truncate");
    }
    drop(fz);
    steps.push("reopen".into());
    h.st.count("freezer.post_crash.reopen");
    fz = match Freezer::open(dir.to_path_buf()) {
        Ok(f) => f,
        Err(e) => return Some(("diverged", format!("second open = Err({e})"), steps)),
    };
    chk!("reopen", true);
    tip!("reopen");
    let blocks = new_blocks(&mut rng, &frozen, &genesis, 1);
    steps.push("freeze(+1)".into());
    h.st.count("freezer.post_crash.freeze");
    if let Err(d) = freeze_blocks(&fz, &mut frozen, &blocks, None, &|| {}) {
        return Some(("diverged", d, steps));
    }
    chk!("freeze", true);
    None
}

pub fn run_random(cfg: &FCfg, idx: u64, dirs: &Dirs, st: &mut Stats) {
    let mut rng = Rng::new(
        cfg.seed.wrapping_mul(0xD6E8_FEB8_6659_FD93)
            ^ vbase::fnv1a(format!("freezer:{idx}").as_bytes()),
    );
    let _ = crash::clear_dir(&dirs.main);
    let genesis = random_hash(&mut rng);
    let random_reads = rng.chance(1, 3);
    let mut h = FH {
        random_reads,
        poke: cfg.seed ^ 0x7a11,
        cfg,
        job: format!("freezer:{idx}"),
        dirs,
        genesis,
        frozen: vec![],
        layout: None,
        ops: vec![],
        st,
        dead: false,
    };
    h.st.count("freezer.histories");
    if random_reads {
        h.st.count("freezer.histories.random_reads_between_writes");
    }
    // two thirds of the histories start from a multi-file layout
    if rng.chance(2, 3) {
        let max = rng.range(300, 1500);
        h.layout = Some(max);
        h.st.count("freezer.histories.multi_file_layout");
        h.layout_phase(&mut rng, max);
        if h.dead {
            return;
        }
    }
    let mut fz = match Freezer::open(dirs.main.clone()) {
        Ok(f) => f,
        Err(e) => return h.fail("open", "error", format!("{e}")),
    };
    h.check(&fz, "open");
    let mut phases_left = cfg.crash_phases;
    let mut crash_at: Vec<usize> = (0..phases_left)
        .map(|_| rng.range(1, cfg.n_ops as u64 - 1) as usize)
        .collect();
    crash_at.sort();
    for step in 0..cfg.n_ops {
        if h.dead {
            return;
        }
        if phases_left > 0 && crash_at.contains(&step) {
            phases_left -= 1;
            h.crash_phase_freeze(&fz, &mut rng);
            continue;
        }
        match rng.below(100) {
            0..=44 => {
                let k = rng.range(0, 3) as usize;
                let blocks = new_blocks(&mut rng, &h.frozen, &h.genesis, k);
                let missing = if k > 0 && rng.chance(1, 5) {
                    Some(rng.usize_below(k))
                } else {
                    None
                };
                h.ops.push(format!("freeze(+{k}, missing_at={missing:?})"));
                h.st.count("freezer.op.freeze");
                h.st.count_n("freezer.op.freeze_block", missing.unwrap_or(k) as u64);
                if let Err(d) = freeze_blocks(&fz, &mut h.frozen, &blocks, missing, &|| {}) {
                    return h.fail("freeze", "diverged", d);
                }
                h.check(&fz, "freeze");
            }
            45..=54 => {
                if h.frozen.is_empty() {
                    continue;
                }
                h.ops.push("freeze(unlinked block)".into());
                h.st.count("freezer.op.freeze_unlinked");
                h.st.count("freezer.tip_checks");
                h.st.eval();
                if let Err(d) = unlinked_refused(&fz, &h.frozen, &mut rng) {
                    return h.fail("freeze", "accepted_unlinked_block", d);
                }
                h.check(&fz, "freeze_unlinked");
            }
            55..=69 => {
                let len = h.frozen.len() as u64;
                let t = if rng.chance(1, 5) {
                    len + rng.below(3)
                } else if len > 0 {
                    rng.range(0, len)
                } else {
                    0
                };
                h.ops.push(format!("truncate({t})"));
                h.st.count("freezer.op.truncate");
                if let Err(e) = fz.truncate(t) {
                    return h.fail("truncate", "error", format!("truncate({t}) = Err({e})"));
                }
                if t >= 1 && t < len {
                    h.frozen.truncate(t as usize);
                    h.st.count("freezer.op.truncate.effective");
                }
                h.check(&fz, "truncate");
            }
            70..=84 => {
                drop(fz);
                h.ops.push("reopen".into());
                h.st.count("freezer.op.reopen");
                fz = match Freezer::open(dirs.main.clone()) {
                    Ok(f) => f,
                    Err(e) => return h.fail("reopen", "error", format!("{e}")),
                };
                h.check(&fz, "reopen");
            }
            _ => {
                h.st.count("freezer.op.retrieve");
                h.check(&fz, "retrieve");
            }
        }
    }
    if !h.dead && h.st.samples.is_empty() {
        let c = h.ctx();
        h.st.sample(c);
    }
}
