//! Crash-state model shared by the `FreezerFiles` level and the `Freezer` level.
//!
//! Everything here is written from the *documented* on-disk format (INDEX = 12-byte entries
//! `file_id: u32 LE, offset: u64 LE`, entry 0 is a placeholder; data files `blkNNNNNN`) and from
//! byte lengths observed in the directory; no code of ckb-freezer is used.
//!
//! A crash plan is: the directory image at the last sync (`base`), the image after `u` further
//! unsynced appends (`fin`), and the directory byte lengths observed after each single append.
//! Crash states are all pairs (data cut, index cut):
//!   * index cut  = any byte length of INDEX between synced and final length;
//!   * data cut   = a prefix of the byte stream that the unsynced appends wrote to the data
//!     files, in write order: (file j, length L) means: touched files older than j are complete,
//!     file j has exactly L bytes (synced length <= L <= final length), touched files newer than
//!     j do not exist yet.  (j, final_j) = "new head file missing", (j+1, 0) = "new head file
//!     exists but is empty".
//! Files are append-only, the data cut and the index cut are independent (the OS may persist
//! the two files in any order), a newer data file never has bytes while an older one is short.

use std::collections::BTreeMap;
use std::io;
use std::path::Path;

pub type DirImage = BTreeMap<String, Vec<u8>>;
pub type DirLens = BTreeMap<String, u64>;

pub const INDEX: &str = "INDEX";
pub const LOCK: &str = "FLOCK";
/// size of one index entry as documented (u32 + u64)
pub const ENTRY: u64 = 12;

pub fn data_id(name: &str) -> Option<u32> {
    let s = name.strip_prefix("blk")?;
    if s.len() == 6 { s.parse().ok() } else { None }
}

pub fn data_name(id: u32) -> String {
    format!("blk{id:06}")
}

pub fn read_image(dir: &Path) -> io::Result<DirImage> {
    let mut m = DirImage::new();
    for e in std::fs::read_dir(dir)? {
        let e = e?;
        let name = e.file_name().to_string_lossy().to_string();
        if name == LOCK {
            continue;
        }
        m.insert(name, std::fs::read(e.path())?);
    }
    Ok(m)
}

pub fn read_lens(dir: &Path) -> io::Result<DirLens> {
    let mut m = DirLens::new();
    for e in std::fs::read_dir(dir)? {
        let e = e?;
        let name = e.file_name().to_string_lossy().to_string();
        if name == LOCK {
            continue;
        }
        m.insert(name, e.metadata()?.len());
    }
    Ok(m)
}

pub fn image_lens(img: &DirImage) -> DirLens {
    img.iter()
        .map(|(k, v)| (k.clone(), v.len() as u64))
        .collect()
}

pub fn clear_dir(dir: &Path) -> io::Result<()> {
    std::fs::create_dir_all(dir)?;
    for e in std::fs::read_dir(dir)? {
        let e = e?;
        let p = e.path();
        if e.file_type()?.is_dir() {
            std::fs::remove_dir_all(p)?;
        } else {
            std::fs::remove_file(p)?;
        }
    }
    Ok(())
}

/// Independent decoder of the complete entries of an index image.
pub fn decode_index(raw: &[u8]) -> Vec<(u32, u64)> {
    raw.chunks_exact(ENTRY as usize)
        .map(|c| {
            (
                u32::from_le_bytes([c[0], c[1], c[2], c[3]]),
                u64::from_le_bytes([c[4], c[5], c[6], c[7], c[8], c[9], c[10], c[11]]),
            )
        })
        .collect()
}

/// Highest data file id present (the head, as long as no stale files exist).
pub fn highest_data_file(lens: &DirLens) -> (u32, u64) {
    lens.iter()
        .filter_map(|(k, v)| data_id(k).map(|id| (id, *v)))
        .max()
        .unwrap_or((0, 0))
}

#[derive(Clone, Copy, Debug, PartialEq, Eq, Hash)]
pub struct DataCut {
    pub file: u32,
    pub len: u64,
}

#[derive(Clone, Debug)]
pub struct Extent {
    pub file: u32,
    pub start: u64,
    pub end: u64,
}

pub struct Plan {
    pub base: DirImage,
    pub fin: DirImage,
    /// items present (and synced) in `base`
    pub m0: usize,
    /// unsynced appends
    pub u: usize,
    pub i0: u64,
    pub i_fin: u64,
    /// head file id / size at the sync
    pub h0: u32,
    pub d0: u64,
    /// data files written by the unsynced appends in write order: (id, first length, final length)
    pub touched: Vec<(u32, u64, u64)>,
    /// where the data of each unsynced item went
    pub extents: Vec<Extent>,
}

impl Plan {
    /// `snaps[k]` = directory lengths after the k-th unsynced append (`snaps[0]` = at the sync).
    pub fn build(
        base: DirImage,
        fin: DirImage,
        snaps: &[DirLens],
        m0: usize,
    ) -> Result<Plan, String> {
        let u = snaps.len().checked_sub(1).ok_or("no snapshots")?;
        let bidx = base.get(INDEX).ok_or("base has no INDEX")?;
        let fidx = fin.get(INDEX).ok_or("final has no INDEX")?;
        let i0 = bidx.len() as u64;
        let i_fin = fidx.len() as u64;
        if i0 != ENTRY * (m0 as u64 + 1) {
            return Err(format!("synced INDEX has {i0} bytes for {m0} items"));
        }
        if i_fin != ENTRY * ((m0 + u) as u64 + 1) {
            return Err(format!(
                "final INDEX has {i_fin} bytes for {} items",
                m0 + u
            ));
        }
        if image_lens(&base) != snaps[0] || image_lens(&fin) != snaps[u] {
            return Err("snapshots do not match images".into());
        }
        // append-only: every synced file is a prefix of the final file of the same name
        for (name, b) in &base {
            match fin.get(name) {
                Some(f) if f.len() >= b.len() && &f[..b.len()] == b.as_slice() => {}
                _ => {
                    return Err(format!(
                        "file {name} was not only appended to after the sync"
                    ));
                }
            }
        }
        let bentries = decode_index(bidx);
        let fentries = decode_index(fidx);
        let (h0, d0) = *bentries.last().unwrap();
        let base_head_len = base
            .get(&data_name(h0))
            .map(|v| v.len() as u64)
            .unwrap_or(0);
        if base_head_len != d0 {
            return Err(format!(
                "synced state inconsistent: index says head blk{h0:06} has {d0} bytes, file has {base_head_len}"
            ));
        }
        let (hi, _) = highest_data_file(&snaps[0]);
        if hi != h0 {
            return Err(format!(
                "stale data file blk{hi:06} above synced head blk{h0:06}"
            ));
        }
        // derive item extents from the observed lengths
        let mut head = h0;
        let mut touched: Vec<(u32, u64, u64)> = vec![(h0, d0, d0)];
        let mut extents = vec![];
        for k in 1..=u {
            let prev = &snaps[k - 1];
            let cur = &snaps[k];
            if cur.get(INDEX).copied() != Some(i0 + ENTRY * k as u64) {
                return Err(format!(
                    "INDEX did not grow by one entry at unsynced append {k}"
                ));
            }
            let new_files: Vec<u32> = cur
                .keys()
                .filter(|n| !prev.contains_key(*n))
                .filter_map(|n| data_id(n))
                .collect();
            if new_files.len() > 1 {
                return Err(format!("append {k} created {} files", new_files.len()));
            }
            if let Some(nf) = new_files.first() {
                if *nf != head + 1 {
                    return Err(format!(
                        "append {k} created blk{nf:06}, head was blk{head:06}"
                    ));
                }
                head = *nf;
                touched.push((head, 0, 0));
            }
            for (name, len) in cur {
                if name == INDEX || data_id(name) == Some(head) {
                    continue;
                }
                if prev.get(name) != Some(len) {
                    return Err(format!("append {k} changed non-head file {name}"));
                }
            }
            let start = if new_files.is_empty() {
                prev.get(&data_name(head)).copied().unwrap_or(0)
            } else {
                0
            };
            let end = cur.get(&data_name(head)).copied().unwrap_or(0);
            if end < start {
                return Err(format!("head shrank at append {k}"));
            }
            touched.last_mut().unwrap().2 = end;
            // cross-check with the entry the code wrote
            let e = fentries[m0 + k];
            if e != (head, end) {
                return Err(format!(
                    "index entry {} is {:?} but the data went to blk{head:06} ending at {end}",
                    m0 + k,
                    e
                ));
            }
            extents.push(Extent {
                file: head,
                start,
                end,
            });
        }
        for (id, _, f) in &touched {
            let l = fin
                .get(&data_name(*id))
                .map(|v| v.len() as u64)
                .unwrap_or(0);
            if l != *f {
                return Err(format!("final length of blk{id:06} is {l}, tracked {f}"));
            }
        }
        Ok(Plan {
            base,
            fin,
            m0,
            u,
            i0,
            i_fin,
            h0,
            d0,
            touched,
            extents,
        })
    }

    pub fn rollovers(&self) -> usize {
        self.touched.len() - 1
    }

    pub fn all_data_cuts(&self) -> Vec<DataCut> {
        let mut v = vec![];
        for (id, s, f) in &self.touched {
            for l in *s..=*f {
                v.push(DataCut { file: *id, len: l });
            }
        }
        v
    }

    /// Boundary-focused subset: file starts/ends, item boundaries +-2, plus `extra` seeded picks.
    pub fn sampled_data_cuts(&self, rng: &mut vbase::Rng, extra: usize) -> Vec<DataCut> {
        let all = self.all_data_cuts();
        let mut keep = std::collections::BTreeSet::new();
        for (i, c) in all.iter().enumerate() {
            let (_, s, f) = self.touched.iter().find(|t| t.0 == c.file).unwrap();
            let mut near = c.len <= s + 2 || c.len + 2 >= *f;
            for e in &self.extents {
                if e.file == c.file && (c.len + 2 >= e.end && c.len <= e.end + 2) {
                    near = true;
                }
            }
            if near {
                keep.insert(i);
            }
        }
        for _ in 0..extra {
            keep.insert(rng.usize_below(all.len()));
        }
        keep.into_iter().map(|i| all[i]).collect()
    }

    /// (complete unsynced index entries inside the index cut,
    ///  unsynced items whose data bytes lie entirely inside the data cut)
    pub fn written(&self, dc: DataCut, ic: u64) -> (usize, usize) {
        let k_idx = ((ic - self.i0) / ENTRY) as usize;
        let mut k_data = 0;
        for e in &self.extents {
            if e.file < dc.file || (e.file == dc.file && e.end <= dc.len) {
                k_data += 1;
            } else {
                break;
            }
        }
        (k_idx, k_data)
    }

    /// Lower bound of the property: synced items + items whose data AND index entry are inside
    /// the cuts.
    pub fn lower_bound(&self, dc: DataCut, ic: u64) -> usize {
        let (a, b) = self.written(dc, ic);
        self.m0 + a.min(b)
    }

    fn entry_pos(&self, k: usize) -> (u32, u64) {
        if k == 0 {
            (self.h0, self.d0)
        } else {
            (self.extents[k - 1].file, self.extents[k - 1].end)
        }
    }

    fn size_in_state(&self, file: u32, dc: DataCut) -> u64 {
        if file < dc.file {
            self.touched
                .iter()
                .find(|t| t.0 == file)
                .map(|t| t.2)
                .unwrap_or(u64::MAX)
        } else if file == dc.file {
            dc.len
        } else {
            0
        }
    }

    /// Label of the crash state (independent of what the code then does with it): what a repair
    /// that compares the last index entry with the size of the data file it names is faced with.
    pub fn class(&self, dc: DataCut, ic: u64) -> &'static str {
        let (k_idx, k_data) = self.written(dc, ic);
        if k_idx > k_data {
            // dangling index entries. Zero-length items directly after the complete data need
            // no bytes: their entries are not dangling even if their (new) file does not exist.
            let mut k_eff = k_data;
            while k_eff < k_idx && self.extents[k_eff].start == self.extents[k_eff].end {
                k_eff += 1;
            }
            if k_eff == k_idx {
                return "clean";
            }
            // Walking back from the last complete entry, where does a size comparison first
            // find "file has at least `offset` bytes"?
            let mut k_stop = k_idx;
            while k_stop > k_eff {
                let (f, o) = self.entry_pos(k_stop);
                if self.size_in_state(f, dc) >= o {
                    break;
                }
                k_stop -= 1;
            }
            if k_stop > k_eff {
                // only possible for an entry with offset 0 in a data file newer than the data
                // cut: a zero-length item that opened a new data file (after an item larger
                // than max_file_size) while an item before it lacks data
                "empty_item_heads_new_file"
            } else if self.entry_pos(k_idx).0 != self.entry_pos(k_eff).0 {
                // dropping the dangling entries steps back into an older data file
                "rollover_head_cut"
            } else {
                "index_ahead"
            }
        } else {
            let (ef, eo) = self.entry_pos(k_idx);
            if dc.file > ef {
                "data_ahead_rollover"
            } else if dc.len > eo {
                "data_ahead"
            } else {
                "clean"
            }
        }
    }

    /// Write the crash state into (empty) `dir`.
    pub fn materialize(&self, dir: &Path, dc: DataCut, ic: u64) -> io::Result<()> {
        for (name, content) in &self.fin {
            if name == INDEX {
                std::fs::write(dir.join(name), &content[..ic as usize])?;
                continue;
            }
            let Some(id) = data_id(name) else {
                std::fs::write(dir.join(name), content)?;
                continue;
            };
            if !self.touched.iter().any(|t| t.0 == id) || id < dc.file {
                std::fs::write(dir.join(name), content)?;
            } else if id == dc.file {
                std::fs::write(dir.join(name), &content[..dc.len as usize])?;
            } else if let Some(b) = self.base.get(name) {
                // cannot happen (no stale files, checked in build); kept for completeness
                std::fs::write(dir.join(name), b)?;
            }
        }
        Ok(())
    }

    pub fn state_lens(&self, dc: DataCut, ic: u64) -> DirLens {
        let mut m = DirLens::new();
        for (name, content) in &self.fin {
            if name == INDEX {
                m.insert(name.clone(), ic);
            } else if let Some(id) = data_id(name) {
                if !self.touched.iter().any(|t| t.0 == id) || id < dc.file {
                    m.insert(name.clone(), content.len() as u64);
                } else if id == dc.file {
                    m.insert(name.clone(), dc.len);
                }
            }
        }
        m
    }
}
