//! Durability-order monitor for the freezer (C09, syscall level).
//!
//! The byte-cut crash states of the other two levels are built by the harness itself: it
//! decides what was synced (it takes "`freeze()` / `sync_all()` returned" for "durable"). A
//! change that drops or re-orders an fsync is invisible to them. Here the parent runs this same
//! binary as `vfreezer sync-child ...` under strace, the child drives the real `Freezer` /
//! `FreezerFiles` through a list of scenarios and writes `VERIF-MARK` lines to a marker file,
//! and the parent replays the recorded syscall log through `vbase::durability::Model`.
//!
//! Rules (what the code promises its caller, `Shared::freeze` -> `wipe_out_frozen_data`, which
//! deletes the returned blocks from the key-value store with a synced write):
//!  R1  whenever `Freezer::freeze` returned `Ok(ret)` with `ret` non-empty - full pass, pass cut
//!      short by the stop flag, pass ended by a missing block, pass with a roll-over to a new
//!      data file, pass after `truncate`, pass after re-open - no freezer file (INDEX, blk*)
//!      may be dirty at that moment;
//!  R2  whenever `FreezerFiles::sync_all` returned `Ok` (the only durability step `freeze` has)
//!      no freezer file may be dirty.
//! Nothing is demanded after `append` or `truncate` alone (no sync is promised there).

use crate::blocks::{gen_block, random_hash};
use crate::ffwrap::Ff;
use ckb_freezer::Freezer;
use ckb_types::{core::BlockView, packed, prelude::*};
use serde_json::{Value, json};
use std::cell::Cell;
use std::collections::BTreeSet;
use std::io::{Seek, SeekFrom, Write};
use std::path::{Path, PathBuf};
use std::sync::atomic::Ordering;
use vbase::durability::{self as du, Marker, Obs};
use vbase::{Args, Report, Rng, Scratch};

const MAX_FILE_SIZE: u64 = 2_000_000_000; // freezer_files.rs MAX_FILE_SIZE (Freezer::open default)

pub const SCENARIOS: [&str; 7] = [
    "full_pass",
    "partial_pass",
    "missing_block",
    "rollover_in_pass",
    "truncate_across_files_then_pass",
    "truncate_then_pass",
    "reopen_then_pass",
];

// ------------------------------------------------------------------------------------------
// child

struct Ctx {
    marker: Marker,
    rng: Rng,
    base: PathBuf,
    round: u64,
    /// directory name of the scenario under way (the parent only judges files below it)
    cur: String,
}

fn chain(rng: &mut Rng, first_number: u64, parent: &packed::Byte32, n: usize) -> Vec<BlockView> {
    let mut out: Vec<BlockView> = vec![];
    let mut p = parent.clone();
    for i in 0..n {
        let b = gen_block(rng, first_number + i as u64, &p);
        p = b.hash();
        out.push(b);
    }
    out
}

/// One `Freezer::freeze` call over `blocks` (linked onto the frozen tip) and the marker line.
/// `stop_after = k`: the block source raises `Freezer::stopped` while handing out the k-th
/// block, so the loop appends k blocks and takes the stop branch at its next iteration.
fn pass(cx: &Ctx, scen: &str, fz: &Freezer, blocks: &[BlockView], stop_after: Option<usize>, missing_at: Option<usize>) -> usize {
    let start = fz.number();
    let threshold = start + blocks.len() as u64;
    let fetched = Cell::new(0usize);
    let pre_stopped = fz.stopped.load(Ordering::SeqCst);
    let ret = fz.freeze(threshold, |n| {
        let i = n.checked_sub(start)? as usize;
        if Some(i) == missing_at {
            return None;
        }
        let k = fetched.get() + 1;
        fetched.set(k);
        if Some(k) == stop_after {
            fz.stopped.store(true, Ordering::SeqCst);
        }
        blocks.get(i).cloned()
    });
    let stopped = fz.stopped.load(Ordering::SeqCst);
    let (ok, items) = match &ret {
        Ok(r) => (1, r.len()),
        Err(_) => (0, 0),
    };
    let expected = if pre_stopped { 0 } else { stop_after.or(missing_at).unwrap_or(blocks.len()).min(blocks.len()) };
    cx.marker.mark(&format!(
        "freeze-ret {scen} dir={} ok={ok} items={items} expected={expected} stopped={} offered={} number={}",
        cx.cur,
        stopped as u8,
        blocks.len(),
        fz.number()
    ));
    fz.stopped.store(false, Ordering::SeqCst);
    items
}

fn open_dir(cx: &mut Ctx, scen: &str) -> PathBuf {
    cx.cur = format!("{scen}-{}", cx.round);
    let d = cx.base.join(&cx.cur).join("ancient");
    std::fs::create_dir_all(&d).expect("scenario dir");
    d
}

fn begin(cx: &Ctx, scen: &str) {
    cx.marker.mark(&format!("scenario-begin {scen} round={}", cx.round));
}
fn end(cx: &Ctx, scen: &str) {
    cx.marker.mark(&format!("scenario-end {scen}"));
}

fn sc_full(cx: &mut Ctx) {
    let scen = "full_pass";
    let dir = open_dir(cx, scen);
    begin(cx, scen);
    let fz = Freezer::open(dir).expect("open");
    let mut parent = random_hash(&mut cx.rng);
    let mut number = 1;
    for _ in 0..cx.rng.range(2, 3) {
        let n = cx.rng.range(1, 9) as usize;
        let blocks = chain(&mut cx.rng, number, &parent, n);
        pass(cx, scen, &fz, &blocks, None, None);
        number += n as u64;
        parent = blocks.last().unwrap().hash();
    }
    end(cx, scen);
}

fn sc_partial(cx: &mut Ctx) {
    let scen = "partial_pass";
    let dir = open_dir(cx, scen);
    begin(cx, scen);
    let fz = Freezer::open(dir).expect("open");
    let mut parent = random_hash(&mut cx.rng);
    let mut number = 1u64;
    // first pass of a fresh freezer cut short, then a later pass cut short, then completion
    for _ in 0..2 {
        let n = cx.rng.range(3, 10) as usize;
        let blocks = chain(&mut cx.rng, number, &parent, n);
        let k = cx.rng.range(1, n as u64 - 1) as usize;
        pass(cx, scen, &fz, &blocks, Some(k), None);
        // the rest of the same blocks: a complete pass after the interrupted one
        pass(cx, "full_pass", &fz, &blocks[k..], None, None);
        number += n as u64;
        parent = blocks.last().unwrap().hash();
    }
    // stop flag already up when the pass starts: nothing appended, empty result (no demand)
    let blocks = chain(&mut cx.rng, number, &parent, 3);
    fz.stopped.store(true, Ordering::SeqCst);
    pass(cx, scen, &fz, &blocks, None, None);
    end(cx, scen);
}

fn sc_missing(cx: &mut Ctx) {
    let scen = "missing_block";
    let dir = open_dir(cx, scen);
    begin(cx, scen);
    let fz = Freezer::open(dir).expect("open");
    let parent = random_hash(&mut cx.rng);
    let n = cx.rng.range(3, 9) as usize;
    let blocks = chain(&mut cx.rng, 1, &parent, n);
    let j = cx.rng.range(1, n as u64 - 1) as usize;
    pass(cx, scen, &fz, &blocks, None, Some(j));
    pass(cx, "full_pass", &fz, &blocks[j..], None, None);
    end(cx, scen);
}

/// A roll-over inside a `Freezer::freeze` pass needs a 2 GB head file (`Freezer::open` has no
/// size parameter). The directory is laid out with a SPARSE blk000000 (no memory behind the
/// hole): item 1 is the hole (never read: `Freezer::open` only reads the last item to derive
/// its tip), item 2 is a real compressed block right below the 2 GB mark. The harness fsyncs
/// what it wrote itself, so the scenario starts clean.
fn sc_rollover(cx: &mut Ctx) {
    let scen = "rollover_in_pass";
    let dir = open_dir(cx, scen);
    let genesis = random_hash(&mut cx.rng);
    let hole_block = gen_block(&mut cx.rng, 1, &genesis);
    let b2 = gen_block(&mut cx.rng, 2, &hole_block.hash());
    let n = cx.rng.range(4, 8) as usize;
    let blocks = chain(&mut cx.rng, 3, &b2.hash(), n);
    let comp = |b: &BlockView| snap::raw::Encoder::new().compress_vec(b.data().as_slice()).expect("snappy");
    let c2 = comp(&b2);
    let sizes: Vec<u64> = blocks.iter().map(|b| comp(b).len() as u64).collect();
    // roll over exactly in front of block index j (1 <= j < n): j blocks fit, the next does not
    let j = cx.rng.range(1, n as u64 - 1) as usize;
    let fit: u64 = sizes[..j].iter().sum();
    let head_end = MAX_FILE_SIZE - fit - (sizes[j] - 1); // size of blk000000 before the pass
    let hole = head_end - c2.len() as u64;
    {
        let mut f = std::fs::OpenOptions::new().create(true).truncate(true).read(true).write(true).open(dir.join("blk000000")).expect("blk");
        f.set_len(hole).expect("sparse");
        f.seek(SeekFrom::Start(hole)).unwrap();
        f.write_all(&c2).unwrap();
        f.sync_all().unwrap();
        let mut idx = std::fs::OpenOptions::new().create(true).truncate(true).write(true).open(dir.join("INDEX")).expect("index");
        for (file, off) in [(0u32, 0u64), (0, hole), (0, head_end)] {
            idx.write_all(&file.to_le_bytes()).unwrap();
            idx.write_all(&off.to_le_bytes()).unwrap();
        }
        idx.sync_all().unwrap();
    }
    begin(cx, scen);
    let fz = match Freezer::open(dir.clone()) {
        Ok(f) => f,
        Err(e) => {
            cx.marker.mark(&format!("harness-error rollover-layout-refused {}", e.to_string().len()));
            return;
        }
    };
    cx.marker.mark(&format!("rollover-layout number={} fit={j} offered={n}", fz.number()));
    pass(cx, scen, &fz, &blocks, None, None);
    let files = std::fs::read_dir(&dir).map(|d| d.flatten().filter(|e| e.file_name().to_string_lossy().starts_with("blk")).count()).unwrap_or(0);
    cx.marker.mark(&format!("rollover-files data_files={files}"));
    end(cx, scen);
    // ---- truncate back across the file boundary (deletes blk000001, re-opens blk000000 as
    // head, ftruncates it), then a pass that fits into blk000000
    let scen = "truncate_across_files_then_pass";
    begin(cx, scen);
    match fz.truncate(2) {
        Ok(()) => cx.marker.mark(&format!("truncated {scen} number={}", fz.number())),
        Err(_) => cx.marker.mark("harness-error truncate-refused"),
    }
    let m = cx.rng.range(1, j as u64) as usize;
    pass(cx, scen, &fz, &blocks[..m], None, None);
    end(cx, scen);
}

fn sc_truncate(cx: &mut Ctx) {
    let scen = "truncate_then_pass";
    let dir = open_dir(cx, scen);
    begin(cx, scen);
    let fz = Freezer::open(dir).expect("open");
    let parent = random_hash(&mut cx.rng);
    let n = cx.rng.range(5, 10) as usize;
    let blocks = chain(&mut cx.rng, 1, &parent, n);
    pass(cx, "full_pass", &fz, &blocks, None, None);
    let keep = cx.rng.range(1, n as u64 - 2);
    match fz.truncate(keep) {
        Ok(()) => cx.marker.mark(&format!("truncated {scen} number={}", fz.number())),
        Err(_) => cx.marker.mark("harness-error truncate-refused"),
    }
    let m = cx.rng.range(1, 5) as usize;
    let more = chain(&mut cx.rng, keep + 1, &blocks[keep as usize - 1].hash(), m);
    pass(cx, scen, &fz, &more, None, None);
    end(cx, scen);
}

fn sc_reopen(cx: &mut Ctx) {
    let scen = "reopen_then_pass";
    let dir = open_dir(cx, scen);
    begin(cx, scen);
    let parent = random_hash(&mut cx.rng);
    let n = cx.rng.range(2, 6) as usize;
    let blocks = chain(&mut cx.rng, 1, &parent, n + 4);
    {
        let fz = Freezer::open(dir.clone()).expect("open");
        pass(cx, "full_pass", &fz, &blocks[..n], None, None);
    }
    let fz = Freezer::open(dir).expect("reopen");
    pass(cx, scen, &fz, &blocks[n..n + 2], None, None);
    pass(cx, "partial_pass", &fz, &blocks[n + 2..n + 4], Some(1), None);
    pass(cx, "full_pass", &fz, &blocks[n + 3..n + 4], None, None);
    end(cx, scen);
}

/// `FreezerFiles` level with small data files: batches of appends, `sync_all`, marker.
fn sc_files(cx: &mut Ctx) {
    let scen = "files_sync_all";
    let dir = open_dir(cx, scen);
    begin(cx, scen);
    let max = cx.rng.range(60, 300);
    let compress = cx.rng.bool();
    let mut ff = Ff::open(&dir, max, compress, None).expect("open files");
    let count_files = |d: &Path| std::fs::read_dir(d).map(|x| x.flatten().filter(|e| e.file_name().to_string_lossy().starts_with("blk")).count()).unwrap_or(0);
    for batch in 0..cx.rng.range(3, 6) {
        let before = count_files(&dir);
        let m = cx.rng.range(1, 6);
        for _ in 0..m {
            let len = cx.rng.range(0, 140) as usize;
            let item = cx.rng.bytes(len);
            let n = ff.number();
            ff.append(n, &item).expect("append");
        }
        // one batch in three: truncate in the middle of the batch (no sync promised by it)
        if batch % 3 == 2 && ff.number() > 3 {
            let keep = cx.rng.range(1, ff.number() - 2);
            ff.truncate(keep).expect("truncate");
            let n = ff.number();
            ff.append(n, &cx.rng.bytes(20)).expect("append");
        }
        let ok = ff.sync_all().is_ok();
        cx.marker.mark(&format!(
            "sync-all-ret {scen} dir={} ok={} appended={m} rollovers={} number={}",
            cx.cur,
            ok as u8,
            count_files(&dir).saturating_sub(before),
            ff.number()
        ));
    }
    end(cx, scen);
}

pub fn child(args: &Args) -> i32 {
    let mut cx = Ctx {
        marker: Marker::open(args.get_str("mark")),
        rng: Rng::new(args.seed ^ 0x5EC0_FD),
        base: PathBuf::from(args.get_str("dir").expect("dir=")),
        round: 0,
        cur: String::new(),
    };
    let rounds = args.get_u64("rounds", 1);
    cx.marker.mark(&format!("child-begin rounds={rounds}"));
    for round in 0..rounds {
        cx.round = round;
        sc_full(&mut cx);
        sc_partial(&mut cx);
        sc_missing(&mut cx);
        sc_rollover(&mut cx);
        sc_truncate(&mut cx);
        sc_reopen(&mut cx);
        sc_files(&mut cx);
    }
    cx.marker.mark("child-end");
    0
}

// ------------------------------------------------------------------------------------------
// parent

fn kv(text: &str, key: &str) -> Option<u64> {
    text.split_whitespace()
        .find_map(|t| t.strip_prefix(key).and_then(|r| r.strip_prefix('=')))
        .and_then(|v| v.parse().ok())
}

/// A dirty data file is "rolled over" when a data file with a higher id exists next to it.
fn is_closed_data_file(d: &du::DirtyFile, model: &du::Model) -> bool {
    if d.class != "freezer_data" {
        return false;
    }
    let Some((dir, base)) = d.path.rsplit_once('/') else { return false };
    model.files.keys().any(|p| match p.rsplit_once('/') {
        Some((pd, pb)) => pd == dir && pb.starts_with("blk") && pb > base,
        None => false,
    })
}

fn judge_log(r: &mut Report, log: &str, run: u64, sub_seed: u64) {
    let t = du::parse(log);
    r.count_n("sync.log_lines", t.lines);
    r.count_n("sync.syscalls_parsed", t.calls.len() as u64);
    if t.unparsed > 0 {
        r.inconclusive(&format!("sync monitor: {} line(s) of the strace log could not be parsed, e.g. {:?}", t.unparsed, t.unparsed_samples));
        return;
    }
    let cl = |p: &str| du::classify_node_path(p);
    let mut m = du::Model::new(&cl, &[]);
    let mut scenario = String::from("none");
    let mut touched: BTreeSet<&'static str> = BTreeSet::new();
    let mut child_end = false;
    for (ph, i) in &t.timeline {
        let Some(obs) = m.step(*ph, &t.calls[*i]) else { continue };
        match obs {
            Obs::Modified { class, kind, .. } => {
                touched.insert(class);
                if class == "freezer_data" && scenario == "rollover_in_pass" && kind == "create" {
                    r.count("sync.rollovers_seen_in_freeze_pass");
                }
            }
            Obs::Mark(text) => {
                let mut w = text.split_whitespace();
                let kind = w.next().unwrap_or("");
                let name = w.next().unwrap_or("").to_string();
                match kind {
                    "scenario-begin" => {
                        scenario = name;
                        touched.clear();
                    }
                    "scenario-end" => scenario = "none".into(),
                    "child-end" => child_end = true,
                    "harness-error" => r.inconclusive(&format!("sync monitor: child reported {text}")),
                    "truncated" => {
                        r.count("sync.truncates_performed");
                        r.count_n("sync.freezer_files_dirty_after_truncate_alone(no_demand)", m.dirty().iter().filter(|d| du::is_freezer_class(d.class)).count() as u64);
                    }
                    "freeze-ret" | "sync-all-ret" => {
                        let ok = kv(&text, "ok") == Some(1);
                        let items = kv(&text, "items").unwrap_or(0);
                        let for_files = kind == "sync-all-ret";
                        r.count(&format!("sync.{}.{name}", if for_files { "sync_all_ret" } else { "freeze_ret" }));
                        if !ok {
                            r.inconclusive(&format!("sync monitor: scenario {name}: the call under observation returned Err ({text})"));
                            continue;
                        }
                        if !for_files {
                            if kv(&text, "expected") != Some(items) {
                                // result size is judged by the freezer level; here it only means the scenario was not the intended one
                                r.count("sync.freeze_result_size_unexpected");
                            }
                            if items == 0 {
                                r.count("sync.freeze_ret_empty_result(no_demand)");
                                continue;
                            }
                            if kv(&text, "stopped") == Some(1) && items < kv(&text, "offered").unwrap_or(0) {
                                r.count("sync.partial_passes_observed");
                            }
                        }
                        r.eval();
                        r.count("sync.marker_events_checked");
                        r.count(&format!("sync.checked.{name}"));
                        for c in &touched {
                            r.distinct_str(&format!("sync|{name}|{c}"));
                        }
                        touched.clear();
                        let own = format!("/{}/ancient/", text.split_whitespace().find_map(|t| t.strip_prefix("dir=")).unwrap_or("?"));
                        let dirty: Vec<du::DirtyFile> = m.dirty().into_iter().filter(|d| du::is_freezer_class(d.class) && d.path.contains(&own)).collect();
                        if dirty.is_empty() {
                            continue;
                        }
                        let (closed, open): (Vec<_>, Vec<_>) = dirty.iter().partition(|d| is_closed_data_file(d, &m));
                        let what = if for_files { "after_sync_all" } else { "when_freeze_returned" };
                        let seed = r.seed;
                        let wit = |ds: &[&du::DirtyFile]| {
                            json!({
                                "seed": seed, "run": run, "child_seed": sub_seed, "scenario": name, "marker": text,
                                "dirty_files": ds.iter().map(|d| d.describe()).collect::<Vec<_>>(),
                                "last_relevant_syscalls": m.excerpt(),
                                "replay": "vfreezer --seed S --tier T only=sync (log: keep_log=1)",
                            })
                        };
                        if !open.is_empty() {
                            let w = wit(&open);
                            r.violation(
                                &format!("durability.freezer_files_dirty_{what}@{name}"),
                                format!(
                                    "{} returned Ok{} while data written to the freezer had not been fsynced: {} (the caller deletes these blocks from the key-value store with a synced write; a power loss now loses them)",
                                    if for_files { "FreezerFiles::sync_all" } else { "Freezer::freeze" },
                                    if for_files { String::new() } else { format!(" with {items} block(s)") },
                                    open.iter().map(|d| d.describe()).collect::<Vec<_>>().join("; ")
                                ),
                                w,
                            );
                        }
                        if !closed.is_empty() {
                            let w = wit(&closed);
                            r.violation(
                                &format!("durability.rolled_over_data_file_dirty_{what}@{name}"),
                                format!(
                                    "{} returned Ok{} while a data file that was rolled over (closed, a newer head file exists) still holds data that was never fsynced: {} (sync_all only fsyncs the current head file and INDEX; the caller deletes these blocks from the key-value store)",
                                    if for_files { "FreezerFiles::sync_all" } else { "Freezer::freeze" },
                                    if for_files { String::new() } else { format!(" with {items} block(s)") },
                                    closed.iter().map(|d| d.describe()).collect::<Vec<_>>().join("; ")
                                ),
                                w,
                            );
                        }
                    }
                    _ => {}
                }
            }
            _ => {}
        }
    }
    for (k, v) in &m.counters {
        r.count_n(&format!("sync.{k}"), *v);
    }
    if m.counters.keys().any(|k| k.starts_with("mmap_shared")) {
        r.inconclusive("sync monitor: a monitored file was mapped shared+writable (outside the model)");
    }
    if !child_end {
        r.inconclusive("sync monitor: the child's end marker is not in the log");
    }
    if r.samples.is_empty() {
        r.sample(json!({"sync_monitor_run": run, "syscalls": t.calls.len(), "excerpt_tail": m.excerpt().into_iter().rev().take(6).collect::<Vec<_>>()}));
    }
}

/// Runs the strace'd children and returns a sub-report (merged by `main`).
pub fn run(args: &Args) -> Value {
    let mut r = Report::new("C09", "fault_enumeration", args, "");
    r.max_samples = 1;
    let known = vbase::KnownFindings::load();
    if let Err(e) = du::strace_usable() {
        r.inconclusive(&format!("sync monitor: {e}"));
        return r.to_json(&known);
    }
    let runs = args.get_u64("sync_runs", args.tier.pick(4, 16));
    let rounds = args.get_u64("sync_rounds", args.tier.pick(3, 6));
    let scratch = Scratch::new("vfreezer-sync");
    let exe = std::env::current_exe().expect("current_exe");
    for run in 0..runs {
        let dir = scratch.join(&format!("run{run}"));
        std::fs::create_dir_all(&dir).expect("scratch");
        let log = scratch.join(&format!("run{run}.strace"));
        let sub_seed = args.seed.wrapping_mul(1000).wrapping_add(run);
        let out = du::strace_command(&log)
            .arg(&exe)
            .arg("sync-child")
            .arg("--seed")
            .arg(sub_seed.to_string())
            .arg(format!("dir={}", dir.display()))
            .arg(format!("mark={}", dir.join("MARK").display()))
            .arg(format!("rounds={rounds}"))
            .env_remove("VERIF_OUT_DIR")
            .env_remove("VFREEZER_CHILD")
            .env_remove("VFREEZER_CRUMBS")
            .output();
        r.count("sync.strace_runs");
        match out {
            Err(e) => r.inconclusive(&format!("sync monitor: strace could not be started: {e}")),
            Ok(o) if !o.status.success() => r.inconclusive(&format!(
                "sync monitor: traced child failed ({}): {}",
                o.status,
                String::from_utf8_lossy(&o.stderr).lines().rev().take(4).collect::<Vec<_>>().join(" | ")
            )),
            Ok(_) => match std::fs::read_to_string(&log) {
                Ok(text) => judge_log(&mut r, &text, run, sub_seed),
                Err(e) => r.inconclusive(&format!("sync monitor: strace log unreadable: {e}")),
            },
        }
        if let Some(keep) = args.get_str("keep_log") {
            let _ = std::fs::copy(&log, format!("{keep}.run{run}.strace"));
        }
        let _ = std::fs::remove_dir_all(&dir);
        let _ = std::fs::remove_file(&log);
    }
    drop(scratch);
    r.to_json(&known)
}

/// Minimum evidence of the sync monitor; called on the merged report.
pub fn requirements(r: &mut Report) {
    let tier = r.tier;
    let q = |a: u64, b: u64| tier.pick(a, b);
    let reqs: Vec<(String, u64)> = vec![
        ("sync.strace_runs".into(), q(2, 8)),
        ("sync.syscalls_parsed".into(), q(500, 5000)),
        ("sync.marker_events_checked".into(), q(40, 400)),
        ("sync.partial_passes_observed".into(), q(4, 30)),
        ("sync.rollovers_seen_in_freeze_pass".into(), q(2, 10)),
        ("sync.truncates_performed".into(), q(4, 30)),
        ("sync.writes.freezer_data".into(), q(100, 1000)),
        ("sync.writes.freezer_index".into(), q(100, 1000)),
        ("sync.syncs.freezer_data".into(), q(40, 400)),
        ("sync.syncs.freezer_index".into(), q(40, 400)),
        ("sync.creates.freezer_data".into(), q(10, 100)),
        ("sync.unlinks.freezer_data".into(), q(2, 10)),
        ("sync.sync_all_ret.files_sync_all".into(), q(6, 60)),
    ];
    for (k, v) in reqs {
        r.require(&k, v);
    }
    for s in SCENARIOS {
        r.require(&format!("sync.checked.{s}"), q(2, 10));
    }
    for a in du::assumptions() {
        r.assume(a);
    }
    r.assume("durability monitor (C09): Freezer::freeze's contract towards Shared::freeze is taken to be: every block in a non-empty Ok result is durable in the freezer files when the call returns; no sync is demanded after append or truncate alone");
}
