//! Per-job (per-history) accumulator; merged into the `vbase::Report` by the main thread in job
//! order so that the result is a deterministic function of (seed, tier).

use serde_json::Value;
use std::collections::BTreeMap;

pub struct Viol {
    pub sig: String,
    pub detail: String,
    pub witness: Value,
    /// smaller = simpler witness (items, bytes); the simplest witness per signature is kept
    pub weight: (u64, u64),
    pub count: u64,
}

#[derive(Default)]
pub struct Stats {
    pub evals: u64,
    pub counters: BTreeMap<&'static str, u64>,
    /// distinct (history, data_cut, index_cut) triples
    pub distinct: u64,
    pub samples: Vec<Value>,
    pub viols: Vec<Viol>,
    pub harness_errors: Vec<String>,
}

impl Stats {
    pub fn eval(&mut self) {
        self.evals += 1;
    }
    pub fn count(&mut self, k: &'static str) {
        *self.counters.entry(k).or_insert(0) += 1;
    }
    pub fn count_n(&mut self, k: &'static str, n: u64) {
        *self.counters.entry(k).or_insert(0) += n;
    }
    pub fn sample(&mut self, v: Value) {
        if self.samples.len() < 2 {
            self.samples.push(v);
        }
    }
    pub fn harness_error(&mut self, s: String) {
        if self.harness_errors.len() < 4 {
            self.harness_errors.push(s);
        }
    }
    pub fn violation(
        &mut self,
        sig: &str,
        detail: String,
        weight: (u64, u64),
        witness: impl FnOnce() -> Value,
    ) {
        if let Some(v) = self.viols.iter_mut().find(|v| v.sig == sig) {
            v.count += 1;
            if weight < v.weight {
                v.weight = weight;
                v.detail = detail;
                v.witness = witness();
            }
            return;
        }
        self.viols.push(Viol {
            sig: sig.to_string(),
            detail,
            witness: witness(),
            weight,
            count: 1,
        });
    }
}
