//! Engine `freezer` — property C09: the freezer never loses or corrupts a frozen block,
//! whatever crash interrupts it.  Runtime monitoring of the real `ckb-freezer` code against the
//! model `Vec<Vec<u8>>`, with crash-state fault enumeration (every data-cut x index-cut pair).
//!
//!   vfreezer [--seed S] [--tier quick|thorough]
//!            [threads=N files_histories=N freezer_histories=N time_cap_s=N]
//!            [only=directed:K|files:K|freezer:K]   re-run one job of the same (seed, tier)
//!            [only=sync | nosync=1 | sync_runs=N sync_rounds=N keep_log=PREFIX]
//!   vfreezer sync-child dir=DIR mark=FILE rounds=N   (the traced child of the sync monitor)

mod blocks;
mod crash;
mod ffwrap;
mod files_engine;
mod freezer_engine;
mod stats;
mod sync_monitor;

use serde_json::json;
use stats::Stats;
use std::sync::atomic::{AtomicUsize, Ordering};
use std::sync::{Arc, Mutex};
use std::time::{Duration, Instant};
use vbase::{Args, Report, Scratch};

const RULE: &str = "after every append/truncate/reopen: number()-1 == |model| and retrieve(i) == model[i] byte for byte, \
retrieve outside 1..n is None (also when random-access reads happen between the writes); for every crash state (head data file(s) and INDEX independently cut to every length \
between synced and final size, new head file missing or empty at a roll-over): reopen is Ok, yields a prefix 1..n of the \
appended items byte for byte with n >= #items whose data and 12-byte index entry lie inside the cuts (>= #synced items), \
and further append/retrieve/truncate/reopen behave per the model on that prefix; same through Freezer with real blocks \
(retrieve == block.data(), tip re-derived: an unlinked block is refused, a linked one accepted); \
syscall level (child under strace, page-cache model per file): whenever Freezer::freeze returned Ok with a non-empty result (full pass, \
pass cut short by the stop flag, pass ended by a missing block, roll-over inside the pass, pass after truncate / re-open) and whenever \
FreezerFiles::sync_all returned Ok, no write/ftruncate/creation of INDEX or a blk file is left without a later fsync of that file";

pub fn panic_msg(p: &Box<dyn std::any::Any + Send>) -> String {
    if let Some(s) = p.downcast_ref::<String>() {
        s.clone()
    } else if let Some(s) = p.downcast_ref::<&str>() {
        s.to_string()
    } else {
        "non-string panic payload".to_string()
    }
}

#[derive(Clone)]
enum Job {
    Directed(usize),
    Files(u64),
    Freezer(u64),
}

/// The code under test may kill the process in ways that cannot be caught in-process (e.g. an
/// allocation of a garbage length read from a damaged index aborts) or hang in its repair loop.
/// The engine therefore runs as a child of a thin supervisor: abnormal death of the child while
/// driving the freezer is a violation (jobs in flight are the witness), a hang is inconclusive.
fn supervise(args: &Args, time_cap: Duration) -> ! {
    use std::io::Read;
    use std::process::{Command, Stdio};
    let exe = std::env::current_exe().expect("current_exe");
    let crumbs = Scratch::new("vfreezer-crumbs");
    let mut child = Command::new(exe)
        .args(std::env::args().skip(1))
        .env("VFREEZER_CHILD", "1")
        .env("VFREEZER_CRUMBS", &crumbs.path)
        .stderr(Stdio::piped())
        .spawn()
        .expect("spawn engine child");
    let pid = child.id();
    let mut stderr = child.stderr.take().expect("stderr");
    let reader = std::thread::spawn(move || {
        let mut s = String::new();
        let _ = stderr.read_to_string(&mut s);
        s
    });
    let deadline = Instant::now() + time_cap + Duration::from_secs(180);
    let status = loop {
        match child.try_wait() {
            Ok(Some(st)) => break Some(st),
            Ok(None) if Instant::now() > deadline => {
                let _ = child.kill();
                let _ = child.wait();
                break None;
            }
            Ok(None) => std::thread::sleep(Duration::from_millis(50)),
            Err(_) => break None,
        }
    };
    let err = reader.join().unwrap_or_default();
    let in_flight: Vec<String> = std::fs::read_dir(&crumbs.path)
        .map(|d| {
            let mut v: Vec<String> = d
                .filter_map(|e| e.ok())
                .filter_map(|e| std::fs::read_to_string(e.path()).ok())
                .filter(|s| !s.is_empty())
                .collect();
            v.sort();
            v
        })
        .unwrap_or_default();
    // the child's scratch directories are not removed when it dies
    if let Ok(d) = std::fs::read_dir("/dev/shm") {
        for e in d.filter_map(|e| e.ok()) {
            if e.file_name()
                .to_string_lossy()
                .starts_with(&format!("ckb-verif-{pid}-"))
            {
                let _ = std::fs::remove_dir_all(e.path());
            }
        }
    }
    if let Some(st) = status {
        if let Some(code @ 0..=2) = st.code() {
            eprint!("{err}");
            drop(crumbs);
            std::process::exit(code);
        }
    }
    let mut report = Report::new("C09", "fault_enumeration", args, RULE);
    let tail: String = err
        .lines()
        .rev()
        .take(8)
        .collect::<Vec<_>>()
        .into_iter()
        .rev()
        .collect::<Vec<_>>()
        .join(" | ");
    match status {
        None => report.inconclusive("watchdog: the engine process did not finish in time (killed)"),
        Some(st) => report.violation(
            "freezer.process_killed_by_code_under_test",
            format!("the process driving the freezer died abnormally ({st}): {tail}"),
            json!({
                "seed": args.seed, "tier": args.tier.as_str(), "exit_status": format!("{st}"), "stderr_tail": tail,
                "jobs_in_flight": in_flight,
                "replay": "vfreezer --seed S --tier T only=<job> inprocess=1",
            }),
        ),
    }
    drop(crumbs);
    std::process::exit(report.finish(None));
}

fn main() {
    let args = Args::parse();
    if args.engine == "sync-child" {
        std::process::exit(sync_monitor::child(&args));
    }
    let tier = args.tier;
    let time_cap = Duration::from_secs(args.get_u64("time_cap_s", tier.pick(75, 14 * 60)));
    if std::env::var("VFREEZER_CHILD").is_err() && args.get_str("inprocess").is_none() {
        supervise(&args, time_cap);
    }
    let crumbs: Option<std::path::PathBuf> = std::env::var("VFREEZER_CRUMBS").ok().map(Into::into);
    let mut report = Report::new("C09", "fault_enumeration", &args, RULE);
    report.max_samples = 8;

    let cores = std::thread::available_parallelism()
        .map(|n| n.get())
        .unwrap_or(4)
        .min(16);
    let threads = args.get_u64("threads", cores as u64).max(1) as usize;
    let n_files = args.get_u64("files_histories", tier.pick(200, 5000));
    let n_frz = args.get_u64("freezer_histories", tier.pick(60, 700));
    let start = Instant::now();

    let fcfg = Arc::new(files_engine::Cfg {
        seed: args.seed,
        max_unsynced: tier.pick(2, 4),
        unsynced_bytes: tier.pick(160, 200),
        crash_phases: tier.pick(1, 2),
        n_ops: tier.pick(28, 40),
    });
    let zcfg = Arc::new(freezer_engine::FCfg {
        seed: args.seed,
        max_unsynced: tier.pick(2, 4),
        extra_cuts: tier.pick(6, 24),
        n_ops: tier.pick(10, 16),
        crash_phases: 1,
    });
    let directed = Arc::new(files_engine::directed_cases());

    let mut jobs: Vec<Job> = (0..directed.len()).map(Job::Directed).collect();
    // interleave so that a time cap cuts both levels proportionally
    let ratio = (n_files / n_frz.max(1)).max(1);
    let (mut a, mut b) = (0u64, 0u64);
    while a < n_files || b < n_frz {
        for _ in 0..ratio {
            if a < n_files {
                jobs.push(Job::Files(a));
                a += 1;
            }
        }
        if b < n_frz {
            jobs.push(Job::Freezer(b));
            b += 1;
        }
    }
    // The syscall-level durability monitor (own strace'd children) runs BEFORE the workers start:
    // a fork+exec while a worker holds a `Freezer` would duplicate its FLOCK descriptor for a
    // moment and make the worker's next `Freezer::open` fail with "would block".
    let only_sync = args.get_str("only") == Some("sync");
    let sync_result = if args.get_str("nosync").is_none() && (only_sync || args.get_str("only").is_none()) {
        Some(sync_monitor::run(&args))
    } else {
        None
    };
    if only_sync {
        jobs.clear();
    }
    // replay of a single job: only=directed:K | files:K | freezer:K
    if let Some(only) = args.get_str("only").filter(|o| *o != "sync") {
        let (kind, k) = only
            .split_once(':')
            .expect("only=<directed|files|freezer>:<index>");
        let k: u64 = k
            .parse()
            .ok()
            .or_else(|| directed.iter().position(|d| d.name == k).map(|p| p as u64))
            .expect("job index");
        jobs = vec![match kind {
            "directed" => Job::Directed(k as usize),
            "files" => Job::Files(k),
            _ => Job::Freezer(k),
        }];
    }
    let jobs = Arc::new(jobs);
    let next = Arc::new(AtomicUsize::new(0));
    let results: Arc<Mutex<Vec<(usize, Stats)>>> = Arc::new(Mutex::new(vec![]));
    let scratch = Scratch::new("vfreezer");
    let confirmed: Arc<Mutex<std::collections::HashSet<String>>> =
        Arc::new(Mutex::new(Default::default()));

    // panics of the code under test are caught and reported as violations; keep stderr quiet
    std::panic::set_hook(Box::new(|_| {}));

    let mut handles = vec![];
    for t in 0..threads {
        let jobs = jobs.clone();
        let next = next.clone();
        let results = results.clone();
        let fcfg = fcfg.clone();
        let zcfg = zcfg.clone();
        let directed = directed.clone();
        let dirs = files_engine::Dirs {
            main: scratch.join(&format!("w{t}/main")),
            crash: scratch.join(&format!("w{t}/crash")),
        };
        let crumb = crumbs.as_ref().map(|c| c.join(format!("w{t}")));
        let confirmed = confirmed.clone();
        handles.push(
            std::thread::Builder::new()
                .name(format!("vfz-{t}"))
                .spawn(move || {
                    std::fs::create_dir_all(&dirs.main).expect("scratch");
                    std::fs::create_dir_all(&dirs.crash).expect("scratch");
                    loop {
                        let i = next.fetch_add(1, Ordering::SeqCst);
                        if i >= jobs.len() {
                            break;
                        }
                        // directed cases always run; the rest stops at the time cap
                        let job = jobs[i].clone();
                        if !matches!(job, Job::Directed(_)) && start.elapsed() > time_cap {
                            continue;
                        }
                        if let Some(c) = &crumb {
                            let label = match &job {
                                Job::Directed(k) => format!("directed:{k}"),
                                Job::Files(k) => format!("files:{k}"),
                                Job::Freezer(k) => format!("freezer:{k}"),
                            };
                            let _ = std::fs::write(c, label);
                        }
                        let run_job = || {
                            let mut st = Stats::default();
                            let r = std::panic::catch_unwind(std::panic::AssertUnwindSafe(
                                || match &job {
                                    Job::Directed(k) => files_engine::run_directed(
                                        &fcfg,
                                        &directed[*k],
                                        &dirs,
                                        &mut st,
                                    ),
                                    Job::Files(k) => {
                                        files_engine::run_random(&fcfg, *k, &dirs, &mut st)
                                    }
                                    Job::Freezer(k) => {
                                        freezer_engine::run_random(&zcfg, *k, &dirs, &mut st)
                                    }
                                },
                            ));
                            if let Err(p) = r {
                                let (lvl, k) = match &job {
                                    Job::Directed(k) => (files_engine::LVL, *k as u64),
                                    Job::Files(k) => (files_engine::LVL, *k),
                                    Job::Freezer(k) => (freezer_engine::LVL, *k),
                                };
                                st.violation(
                                    &format!("{lvl}.history.panic"),
                                    format!(
                                        "panic during a crash-free history: {}",
                                        panic_msg(&p)
                                    ),
                                    (u64::MAX, 0),
                                    || json!({"level": lvl, "job": k}),
                                );
                            }
                            st
                        };
                        let mut st = run_job();
                        // Jobs are deterministic. A violation with a signature that has not been
                        // reproduced yet in this run only counts if it shows up again when the
                        // job is re-run (another process wiping /dev/shm scratch directories
                        // mid-run would otherwise look like data loss).
                        let needs_confirmation = {
                            let c = confirmed.lock().unwrap();
                            st.viols.iter().any(|v| !c.contains(&v.sig))
                        };
                        if needs_confirmation {
                            st.count("jobs_rerun_to_confirm_violation");
                            let again = run_job();
                            let mut c = confirmed.lock().unwrap();
                            let mut kept = vec![];
                            for v in std::mem::take(&mut st.viols) {
                                if c.contains(&v.sig) || again.viols.iter().any(|x| x.sig == v.sig)
                                {
                                    c.insert(v.sig.clone());
                                    kept.push(v);
                                } else {
                                    st.harness_error(format!(
                                        "violation {} did not reproduce when its job was re-run (scratch directory disturbed by another process?)",
                                        v.sig
                                    ));
                                }
                            }
                            st.viols = kept;
                        }
                        st.count("jobs_done");
                        results.lock().unwrap().push((i, st));
                    }
                    if let Some(c) = &crumb {
                        let _ = std::fs::write(c, "");
                    }
                })
                .expect("spawn"),
        );
    }
    for h in handles {
        if h.join().is_err() {
            report.inconclusive("a worker thread died");
        }
    }
    let _ = std::panic::take_hook();

    let mut results = std::mem::take(&mut *results.lock().unwrap());
    results.sort_by_key(|(i, _)| *i);
    let done = results.len();
    // merge: the simplest witness per signature over all jobs (ties: earliest job)
    let mut viols: Vec<stats::Viol> = vec![];
    for (_, st) in results {
        report.evals(st.evals);
        report.add_distinct_count(st.distinct);
        for (k, v) in &st.counters {
            report.count_n(k, *v);
        }
        for s in st.samples {
            report.sample(s);
        }
        for e in &st.harness_errors {
            report.inconclusive(&format!("harness error: {e}"));
        }
        for v in st.viols {
            if let Some(x) = viols.iter_mut().find(|x| x.sig == v.sig) {
                x.count += v.count;
                if v.weight < x.weight {
                    x.weight = v.weight;
                    x.detail = v.detail;
                    x.witness = v.witness;
                }
            } else {
                viols.push(v);
            }
        }
    }
    for v in viols {
        report.violation(&v.sig, v.detail, v.witness);
        if v.count > 1 {
            report.count_n(&format!("violation::{}", v.sig), v.count - 1);
        }
    }

    if let Some(j) = &sync_result {
        report.merge_json(j);
        sync_monitor::requirements(&mut report);
    }

    let skipped = jobs.len() - done;
    report.note("jobs_planned", json!(jobs.len()));
    report.note("jobs_skipped_by_time_cap", json!(skipped));
    report.note("threads", json!(threads));
    report.note(
        "bounds",
        json!({
            "files_histories": n_files, "freezer_histories": n_frz,
            "max_unsynced_appends": fcfg.max_unsynced, "unsynced_bytes_per_crash_phase": fcfg.unsynced_bytes,
            "files_level_cuts": "all data-cut x index-cut pairs",
            "freezer_level_cuts": "all index cuts x data cuts at file/item boundaries +-2 plus seeded interior picks",
        }),
    );
    report.note(
        "distinct_nontrivial_means",
        json!("distinct (history, data_cut, index_cut) crash states reopened and judged"),
    );
    report.assume("a crash leaves every file as a prefix of what was written (append-only files, no torn/garbled bytes)");
    report.assume("data files and INDEX are persisted independently; within the data files a newer file has no bytes while an older one is short");
    report.assume("byte-cut crash states: everything written before the last sync_all is durable, including data files rolled over before it (sync_all fsyncs only the head data file and INDEX; that a rolled-over file is fsynced when it is closed, and that every freeze / sync_all return leaves no unsynced write behind, is judged separately by the syscall-level sync monitor; the directory is never fsynced)");
    report.assume("tmpfs (/dev/shm) file semantics stand in for the production file system");

    // a run that observed too little is inconclusive
    let q = |a: u64, b: u64| if only_sync { 0 } else { tier.pick(a, b) };
    report.require("files.histories", q(100, 1500));
    report.require("files.op.append", q(1000, 20000));
    report.require("files.op.truncate.effective", q(100, 2000));
    report.require("files.op.reopen", q(100, 2000));
    report.require("files.op.retrieve_single_random", q(100, 2000));
    report.require("files.post_crash.with_random_reads", q(5000, 200_000));
    report.require("files.rollovers", q(300, 6000));
    report.require("files.append.zero_length", q(50, 1000));
    report.require("files.append.exactly_full_file", q(20, 400));
    report.require("files.crash_plans_with_rollover", q(30, 600));
    report.require("files.crash_states", q(50_000, 2_000_000));
    report.require("files.reopen_evaluations", q(50_000, 2_000_000));
    report.require("files.crash_class.rollover_head_cut", q(1000, 40_000));
    report.require("files.crash_class.index_ahead", q(1000, 40_000));
    report.require("files.crash_class.data_ahead", q(1000, 40_000));
    report.require("files.crash_class.data_ahead_rollover", q(200, 8000));
    report.require("files.crash_states.partial_index_entry", q(10_000, 400_000));
    report.require("freezer.histories", q(30, 200));
    report.require("freezer.op.freeze_block", q(50, 400));
    report.require("freezer.op.reopen", q(20, 200));
    report.require("freezer.op.truncate.effective", q(10, 100));
    report.require("freezer.tip_checks", q(1000, 20_000));
    report.require("freezer.crash_states", q(5000, 100_000));
    report.require("freezer.crash_plans_with_rollover", q(10, 60));
    report.require("freezer.crash_class.rollover_head_cut", q(100, 2000));

    drop(scratch);
    std::process::exit(report.finish(None));
}
