//! `FreezerFiles` level: random / directed histories against the model `Vec<Vec<u8>>` and
//! exhaustive crash-cut enumeration.

use crate::crash::{self, DataCut, DirLens, Plan};
use crate::ffwrap::Ff;
use crate::stats::Stats;
use serde_json::{Value, json};
use std::collections::HashSet;
use std::path::{Path, PathBuf};
use vbase::Rng;

pub const LVL: &str = "freezer_files";

#[derive(Clone, Debug)]
pub struct Directed {
    pub name: &'static str,
    pub max: u64,
    pub compress: bool,
    pub synced: Vec<usize>,
    pub unsynced: Vec<usize>,
    /// random-access read of this item between the synced and the unsynced appends
    pub read_between: Option<u64>,
}

pub fn directed_cases() -> Vec<Directed> {
    let d = |name, max, compress, synced: &[usize], unsynced: &[usize]| Directed {
        name,
        max,
        compress,
        synced: synced.to_vec(),
        unsynced: unsynced.to_vec(),
        read_between: None,
    };
    vec![
        d("one_full_file_then_1_byte", 40, false, &[40], &[1]),
        d(
            "design_spike_5x40_max100",
            100,
            false,
            &[40, 40, 40, 40],
            &[40],
        ),
        d("two_per_file", 40, false, &[20, 20], &[20, 20]),
        d(
            "exact_fill_zero_len_rollover",
            40,
            false,
            &[10],
            &[30, 0, 1],
        ),
        d("compressed_15s", 50, true, &[15, 15, 15], &[15, 15]),
        d("oversize_first_then_zero_len", 40, false, &[], &[41, 0]),
        d("every_item_rolls", 40, false, &[40, 40], &[40, 40]),
        d("three_files_in_one_burst", 40, false, &[30], &[30, 30, 30]),
        Directed {
            read_between: Some(1),
            ..d("read_first_item_then_append", 100, false, &[7, 7], &[7])
        },
    ]
}

pub struct Cfg {
    pub seed: u64,
    pub max_unsynced: usize,
    /// cap on the sum of raw sizes of the unsynced items of one crash phase (keeps the full
    /// enumeration of all cut pairs affordable)
    pub unsynced_bytes: usize,
    pub crash_phases: usize,
    pub n_ops: usize,
}

pub struct Dirs {
    pub main: PathBuf,
    pub crash: PathBuf,
}

fn disk_size(item: &[u8], compress: bool) -> usize {
    if compress {
        snap::raw::Encoder::new()
            .compress_vec(item)
            .map(|v| v.len())
            .unwrap_or(usize::MAX)
    } else {
        item.len()
    }
}

fn fill(rng: &mut Rng, seq: u64, len: usize) -> Vec<u8> {
    let mut v = match rng.below(4) {
        0 => vec![(seq as u8).wrapping_mul(37).wrapping_add(1); len],
        1 => (0..len)
            .map(|i| (i as u8).wrapping_add(seq as u8))
            .collect(),
        _ => rng.bytes(len),
    };
    if len >= 2 {
        v[0] = seq as u8;
        v[1] = (seq >> 8) as u8 ^ 0x5a;
    }
    v
}

/// An item whose on-disk size is exactly `target` (if one of at most 200 raw bytes exists).
fn item_with_disk_size(rng: &mut Rng, target: usize, compress: bool) -> Option<Vec<u8>> {
    if !compress {
        return if target <= 200 {
            Some(rng.bytes(target))
        } else {
            None
        };
    }
    if target == 1 {
        return Some(vec![]);
    }
    for over in 2..=4usize {
        if target >= over && target - over <= 200 {
            let v = rng.bytes(target - over);
            if disk_size(&v, true) == target {
                return Some(v);
            }
        }
    }
    None
}

/// What a model comparison found.
pub struct Diff {
    pub symptom: &'static str,
    pub detail: String,
}

/// number(), every item byte for byte, nothing beyond the range.
pub fn compare(ff: &mut Ff, model: &[Vec<u8>]) -> Result<(), Diff> {
    let n = ff.number();
    if n != model.len() as u64 + 1 {
        return Err(Diff {
            symptom: "number_mismatch",
            detail: format!("number()={} but the model has {} items", n, model.len()),
        });
    }
    for (i, want) in model.iter().enumerate() {
        let i = i as u64 + 1;
        match ff.retrieve(i) {
            Ok(Some(got)) if &got == want => {}
            Ok(Some(got)) => {
                return Err(Diff {
                    symptom: "item_corrupt",
                    detail: format!(
                        "retrieve({i}) returned {} bytes {}.. expected {} bytes {}..",
                        got.len(),
                        vbase::hex(&got[..got.len().min(12)]),
                        want.len(),
                        vbase::hex(&want[..want.len().min(12)])
                    ),
                });
            }
            Ok(None) => {
                return Err(Diff {
                    symptom: "item_missing",
                    detail: format!("retrieve({i}) = None"),
                });
            }
            Err(e) => {
                return Err(Diff {
                    symptom: "retrieve_error",
                    detail: format!("retrieve({i}) = Err({e})"),
                });
            }
        }
    }
    let len = model.len() as u64;
    for beyond in [0, len + 1, len + 2, len + 1000, u64::MAX] {
        match ff.retrieve(beyond) {
            Ok(None) => {}
            Ok(Some(v)) => {
                return Err(Diff {
                    symptom: "beyond_range_not_none",
                    detail: format!(
                        "retrieve({beyond}) returned {} bytes, {} items exist",
                        v.len(),
                        len
                    ),
                });
            }
            Err(e) => {
                return Err(Diff {
                    symptom: "beyond_range_not_none",
                    detail: format!("retrieve({beyond}) = Err({e}), {} items exist", len),
                });
            }
        }
    }
    Ok(())
}

/// Cheap comparison used between the follow-up writes on a crash state: number(), the two
/// newest items, one seeded older item, nothing beyond the range.  (The full comparison runs
/// right after the reopen, after the second reopen and at the end.)
pub fn compare_light(ff: &mut Ff, model: &[Vec<u8>], pick: u64) -> Result<(), Diff> {
    let n = ff.number();
    let len = model.len() as u64;
    if n != len + 1 {
        return Err(Diff {
            symptom: "number_mismatch",
            detail: format!("number()={} but the model has {} items", n, len),
        });
    }
    let mut idx = vec![];
    if len >= 1 {
        idx.push(pick % len + 1);
    }
    if len >= 2 {
        idx.push(len - 1);
    }
    if len >= 1 {
        idx.push(len);
    }
    for i in idx {
        read_one(ff, model, i)?;
    }
    match ff.retrieve(len + 1) {
        Ok(None) => Ok(()),
        Ok(Some(v)) => Err(Diff {
            symptom: "beyond_range_not_none",
            detail: format!(
                "retrieve({}) returned {} bytes, {} items exist",
                len + 1,
                v.len(),
                len
            ),
        }),
        Err(e) => Err(Diff {
            symptom: "beyond_range_not_none",
            detail: format!("retrieve({}) = Err({e}), {} items exist", len + 1, len),
        }),
    }
}

/// One random-access read, compared with the model.
pub fn read_one(ff: &mut Ff, model: &[Vec<u8>], i: u64) -> Result<(), Diff> {
    match ff.retrieve(i) {
        Ok(Some(got)) if got == model[i as usize - 1] => Ok(()),
        Ok(Some(got)) => Err(Diff {
            symptom: "item_corrupt",
            detail: format!(
                "retrieve({i}) returned {} bytes, expected {}",
                got.len(),
                model[i as usize - 1].len()
            ),
        }),
        Ok(None) => Err(Diff {
            symptom: "item_missing",
            detail: format!("retrieve({i}) = None"),
        }),
        Err(e) => Err(Diff {
            symptom: "retrieve_error",
            detail: format!("retrieve({i}) = Err({e})"),
        }),
    }
}

pub const RR: &str = "random_reads_between_writes";

struct Hist<'a> {
    /// finish every model comparison with a random-access read of an arbitrary item
    random_reads: bool,
    poke: u64,
    cfg: &'a Cfg,
    job: String,
    dirs: &'a Dirs,
    max: u64,
    compress: bool,
    limit: Option<usize>,
    model: Vec<Vec<u8>>,
    ops: Vec<String>,
    st: &'a mut Stats,
    seq: u64,
    dead: bool,
}

impl<'a> Hist<'a> {
    fn ctx(&self) -> Value {
        json!({
            "level": LVL, "job": self.job, "seed": self.cfg.seed,
            "max_file_size": self.max, "compression": self.compress, "open_files_limit": self.limit,
            "random_reads_between_writes": self.random_reads,
            "item_sizes": self.model.iter().map(|v| v.len()).collect::<Vec<_>>(),
            "ops": self.ops,
        })
    }
    fn weight(&self) -> (u64, u64) {
        (
            self.model.len() as u64,
            self.model.iter().map(|v| v.len() as u64).sum(),
        )
    }
    fn open(&self) -> std::io::Result<Ff> {
        Ff::open(&self.dirs.main, self.max, self.compress, self.limit)
    }
    fn fail(&mut self, op: &str, d: Diff) {
        let (sig, detail) = if self.random_reads {
            (
                format!("{LVL}.history.diverged@{RR}"),
                format!("{op}: {}: {}", d.symptom, d.detail),
            )
        } else {
            (format!("{LVL}.{op}.{}", d.symptom), d.detail)
        };
        let ctx = self.ctx();
        let w = self.weight();
        self.st.violation(&sig, detail, w, || ctx);
        self.dead = true;
    }
    fn check(&mut self, ff: &mut Ff, op: &'static str) {
        self.st.eval();
        if let Err(d) = compare(ff, &self.model) {
            return self.fail(op, d);
        }
        // leave the instance the way a real reader would: the last thing before the next
        // operation is usually a read of some arbitrary item, not of the newest one
        self.poke = self
            .poke
            .wrapping_mul(6364136223846793005)
            .wrapping_add(1442695040888963407);
        if self.random_reads && !self.model.is_empty() && (self.poke >> 33) % 4 != 0 {
            let i = (self.poke >> 35) % self.model.len() as u64;
            self.st.count("files.op.retrieve_single_random");
            self.ops.push(format!("retrieve({})", i + 1));
            if let Err(d) = read_one(ff, &self.model, i + 1) {
                self.fail(op, d);
            }
        }
    }

    fn gen_item(&mut self, rng: &mut Rng, cap: usize) -> Vec<u8> {
        self.seq += 1;
        let lens = crash::read_lens(&self.dirs.main).unwrap_or_default();
        let (_, head_len) = crash::highest_data_file(&lens);
        let remaining = self.max.saturating_sub(head_len) as usize;
        let cap = cap.min(200);
        let mut item = match rng.below(10) {
            0 => vec![],
            1 if remaining > 0 => {
                self.st.count("files.gen.exact_fill_attempt");
                let l = rng.usize_below(25);
                match item_with_disk_size(rng, remaining, self.compress) {
                    Some(v) => v,
                    None => fill(rng, self.seq, l),
                }
            }
            2 => {
                let l = rng.usize_below(25);
                match item_with_disk_size(rng, remaining + 1, self.compress) {
                    Some(v) => v,
                    None => fill(rng, self.seq, l),
                }
            }
            3 if self.max < 200 => {
                let l = rng.range(self.max + 1, 200) as usize;
                rng.bytes(l)
            }
            4 | 5 => {
                let l = rng.range(1, 24) as usize;
                fill(rng, self.seq, l)
            }
            6 | 7 => {
                let l = rng.range(0, 80) as usize;
                fill(rng, self.seq, l)
            }
            _ => {
                let l = rng.range(0, 200) as usize;
                fill(rng, self.seq, l)
            }
        };
        if item.len() > cap {
            item.truncate(cap);
        }
        item
    }

    /// One append on the live instance, with model comparison and roll-over accounting.
    fn append(&mut self, ff: &mut Ff, item: Vec<u8>, kind: &'static str) -> Option<DirLens> {
        let before = crash::read_lens(&self.dirs.main).unwrap_or_default();
        let number = self.model.len() as u64 + 1;
        self.ops.push(format!("append#{number}({}B)", item.len()));
        self.st.count(kind);
        if item.is_empty() {
            self.st.count("files.append.zero_length");
        }
        if let Err(e) = ff.append(number, &item) {
            self.fail(
                "append",
                Diff {
                    symptom: "error",
                    detail: format!("append({number}, {} bytes) = Err({e})", item.len()),
                },
            );
            return None;
        }
        self.model.push(item);
        let after = crash::read_lens(&self.dirs.main).unwrap_or_default();
        let (hb, _) = crash::highest_data_file(&before);
        let (ha, la) = crash::highest_data_file(&after);
        if ha > hb {
            self.st.count("files.rollovers");
        }
        if la == self.max {
            self.st.count("files.append.exactly_full_file");
        }
        self.check(ff, "append");
        Some(after)
    }

    fn crash_phase(&mut self, ff: &mut Ff, rng: &mut Rng, sizes: Option<&[usize]>) {
        if let Err(e) = ff.sync_all() {
            self.fail(
                "sync_all",
                Diff {
                    symptom: "error",
                    detail: format!("{e}"),
                },
            );
            return;
        }
        self.ops.push("sync_all".into());
        let base = match crash::read_image(&self.dirs.main) {
            Ok(b) => b,
            Err(e) => return self.st.harness_error(format!("read base image: {e}")),
        };
        let m0 = self.model.len();
        let mut snaps = vec![crash::image_lens(&base)];
        let u = match sizes {
            Some(s) => s.len(),
            None => rng.range(1, self.cfg.max_unsynced as u64) as usize,
        };
        let mut budget = self.cfg.unsynced_bytes;
        for k in 0..u {
            let item = match sizes {
                Some(s) => {
                    self.seq += 1;
                    fill(rng, self.seq, s[k])
                }
                None => self.gen_item(rng, budget),
            };
            budget = budget.saturating_sub(item.len());
            match self.append(ff, item, "files.op.append_unsynced") {
                Some(l) => snaps.push(l),
                None => return,
            }
            if self.dead {
                return;
            }
        }
        let fin = match crash::read_image(&self.dirs.main) {
            Ok(b) => b,
            Err(e) => return self.st.harness_error(format!("read final image: {e}")),
        };
        let plan = match Plan::build(base, fin, &snaps, m0) {
            Ok(p) => p,
            Err(e) => {
                return self
                    .st
                    .harness_error(format!("{LVL} job {}: crash plan: {e}", self.job));
            }
        };
        self.st.count("files.crash_plans");
        if plan.rollovers() > 0 {
            self.st.count("files.crash_plans_with_rollover");
        }
        if plan.rollovers() > 1 {
            self.st.count("files.crash_plans_with_2plus_rollovers");
        }
        self.enumerate(&plan, rng.next_u64());
    }

    fn enumerate(&mut self, plan: &Plan, salt: u64) {
        let cuts = plan.all_data_cuts();
        let mut seen: HashSet<(u32, u64, u64)> = HashSet::new();
        let mut sampled = false;
        for dc in &cuts {
            for ic in plan.i0..=plan.i_fin {
                if !seen.insert((dc.file, dc.len, ic)) {
                    continue;
                }
                let class = plan.class(*dc, ic);
                self.st.count("files.crash_states");
                self.st.count(class_counter(class));
                if ic % crash::ENTRY != 0 {
                    self.st.count("files.crash_states.partial_index_entry");
                }
                let sub = salt ^ vbase::fnv1a(format!("{}:{}:{}", dc.file, dc.len, ic).as_bytes());
                let r = std::panic::catch_unwind(std::panic::AssertUnwindSafe(|| {
                    eval_state(self, plan, *dc, ic, class, sub)
                }));
                if let Err(p) = r {
                    let msg = crate::panic_msg(&p);
                    let w = self.crash_witness(plan, *dc, ic, class, None);
                    let wt = self.weight();
                    self.st.violation(
                        &format!("{LVL}.crash_state.panic@{class}"),
                        format!("panic while reopening / using a crash state: {msg}"),
                        wt,
                        || w,
                    );
                }
                if !sampled && class == "rollover_head_cut" {
                    sampled = true;
                    let w = self.crash_witness(plan, *dc, ic, class, None);
                    self.st.sample(w);
                }
            }
        }
        self.st.distinct += seen.len() as u64;
    }

    fn crash_witness(
        &self,
        plan: &Plan,
        dc: DataCut,
        ic: u64,
        class: &str,
        n: Option<u64>,
    ) -> Value {
        let (k_idx, k_data) = plan.written(dc, ic);
        json!({
            "history": self.ctx(),
            "synced_items": plan.m0,
            "unsynced_items": plan.u,
            "unsynced_item_sizes": self.model[plan.m0..].iter().map(|v| v.len()).collect::<Vec<_>>(),
            "unsynced_item_extents": plan.extents.iter().map(|e| json!({"file": crash::data_name(e.file), "start": e.start, "end": e.end})).collect::<Vec<_>>(),
            "synced_lengths": crash::image_lens(&plan.base),
            "final_lengths": crash::image_lens(&plan.fin),
            "crash_state": {
                "data_cut": {"file": crash::data_name(dc.file), "len": dc.len, "newer_files": "absent"},
                "index_cut": ic,
                "directory": plan.state_lens(dc, ic),
                "class": class,
                "complete_unsynced_index_entries": k_idx,
                "unsynced_items_with_complete_data": k_data,
            },
            "expected_min_items": plan.lower_bound(dc, ic),
            "actual_items": n,
        })
    }
}

fn class_counter(class: &str) -> &'static str {
    match class {
        "rollover_head_cut" => "files.crash_class.rollover_head_cut",
        "empty_item_heads_new_file" => "files.crash_class.empty_item_heads_new_file",
        "index_ahead" => "files.crash_class.index_ahead",
        "data_ahead_rollover" => "files.crash_class.data_ahead_rollover",
        "data_ahead" => "files.crash_class.data_ahead",
        _ => "files.crash_class.clean",
    }
}

/// The C09 oracle on one crash state.
fn eval_state(h: &mut Hist, plan: &Plan, dc: DataCut, ic: u64, class: &'static str, sub: u64) {
    let dir: &Path = &h.dirs.crash;
    if let Err(e) = crash::clear_dir(dir).and_then(|_| plan.materialize(dir, dc, ic)) {
        return h.st.harness_error(format!("materialize: {e}"));
    }
    h.st.eval();
    h.st.count("files.reopen_evaluations");
    let lower = plan.lower_bound(dc, ic);
    let wt = h.weight();
    let mut ff = match Ff::open(dir, h.max, h.compress, None) {
        Ok(f) => f,
        Err(e) => {
            let w = h.crash_witness(plan, dc, ic, class, None);
            return h.st.violation(
                &format!("{LVL}.reopen.unreadable_prefix@{class}"),
                format!("reopen of a crash state failed: {e}"),
                wt,
                || w,
            );
        }
    };
    let number = ff.number();
    let n = number.saturating_sub(1);
    if number < 1 || n > h.model.len() as u64 {
        let w = h.crash_witness(plan, dc, ic, class, Some(n));
        return h.st.violation(
            &format!("{LVL}.reopen.unreadable_prefix@{class}"),
            format!(
                "number()={number} after reopen, only {} items were ever appended",
                h.model.len()
            ),
            wt,
            || w,
        );
    }
    if (n as usize) < lower {
        let w = h.crash_witness(plan, dc, ic, class, Some(n));
        return h.st.violation(
            &format!("{LVL}.reopen.lost_fully_written_items@{class}"),
            format!(
                "reopen reports {n} items; {lower} items had data and index entry fully inside the cuts ({} of them synced)",
                plan.m0
            ),
            wt,
            || w,
        );
    }
    if n as usize > lower {
        h.st.count("files.reopen.more_than_lower_bound");
    }
    let model: Vec<Vec<u8>> = h.model[..n as usize].to_vec();
    if let Err(d) = compare(&mut ff, &model) {
        let w = h.crash_witness(plan, dc, ic, class, Some(n));
        return h.st.violation(
            &format!("{LVL}.reopen.unreadable_prefix@{class}"),
            format!("after reopen with {n} items: {}: {}", d.symptom, d.detail),
            wt,
            || w,
        );
    }

    // subsequent appends / retrievals / truncations / reopen on that prefix; a quarter of the
    // crash states with random-access reads between the writes
    let pokes = Rng::new(sub ^ 0x9e37).chance(1, 4);
    if pokes {
        h.st.count("files.post_crash.with_random_reads");
    }
    let Some((mut d, mut steps)) = follow_up(h, ff, n as usize, sub, pokes) else {
        return;
    };
    let mut label = class;
    if pokes {
        // attribute: does the same follow-up (same writes) also diverge without the reads?
        let again = crash::clear_dir(dir)
            .and_then(|_| plan.materialize(dir, dc, ic))
            .and_then(|_| Ff::open(dir, h.max, h.compress, None));
        match again {
            Ok(ff2) => match follow_up(h, ff2, n as usize, sub, false) {
                Some((d2, s2)) => {
                    d = d2;
                    steps = s2;
                }
                None => label = RR,
            },
            Err(e) => {
                return h
                    .st
                    .harness_error(format!("re-materialize for attribution: {e}"));
            }
        }
    }
    let mut w = h.crash_witness(plan, dc, ic, class, Some(n));
    w["post_crash_steps"] = json!(steps);
    h.st.violation(
        &format!("{LVL}.post_crash.diverged@{label}"),
        format!("reopen gave a correct prefix of {n} items, then: {d}"),
        wt,
        || w,
    );
}

/// Follow-up operations on a reopened crash state (`ff` holds exactly `h.model[..n]`).
/// Returns the divergence from the model, if any, and the steps taken.
fn follow_up(
    h: &mut Hist,
    mut ff: Ff,
    n: usize,
    sub: u64,
    pokes: bool,
) -> Option<(String, Vec<String>)> {
    let dir: &Path = &h.dirs.crash;
    let mut model: Vec<Vec<u8>> = h.model[..n].to_vec();
    let mut rng = Rng::new(sub);
    let mut prng = Rng::new(sub ^ 0x706f6b65);
    let mut steps: Vec<String> = vec![];
    macro_rules! chk {
        ($what:expr, $full:expr) => {
            h.st.eval();
            let pick = prng.next_u64();
            let r = if $full {
                compare(&mut ff, &model)
            } else {
                compare_light(&mut ff, &model, pick)
            };
            if let Err(d) = r {
                return Some((
                    format!("after {}: {}: {}", $what, d.symptom, d.detail),
                    steps,
                ));
            }
            if pokes && !model.is_empty() && prng.chance(3, 4) {
                let i = prng.range(1, model.len() as u64);
                steps.push(format!("retrieve({i})"));
                if let Err(d) = read_one(&mut ff, &model, i) {
                    return Some((
                        format!("after {}: {}: {}", $what, d.symptom, d.detail),
                        steps,
                    ));
                }
            }
        };
    }
    let n_app = rng.range(1, 2);
    for _ in 0..n_app {
        let len = match rng.below(5) {
            0 => 0,
            1 => h.max as usize,
            2 => rng.range(1, 8) as usize,
            _ => rng.range(0, 60) as usize,
        };
        let item = rng.bytes(len.min(200));
        let num = model.len() as u64 + 1;
        steps.push(format!("append#{num}({}B)", item.len()));
        h.st.count("files.post_crash.append");
        if let Err(e) = ff.append(num, &item) {
            return Some((format!("append({num}) = Err({e})"), steps));
        }
        model.push(item);
        chk!("append", false);
    }
    if rng.chance(1, 3) && model.len() >= 2 {
        let t = rng.range(1, model.len() as u64 - 1);
        steps.push(format!("truncate({t})"));
        h.st.count("files.post_crash.truncate");
        if let Err(e) = ff.truncate(t) {
            return Some((format!("truncate({t}) = Err({e})"), steps));
        }
        model.truncate(t as usize);
        chk!("truncate", false);
    }
    drop(ff);
    steps.push("reopen".into());
    h.st.count("files.post_crash.reopen");
    ff = match Ff::open(dir, h.max, h.compress, None) {
        Ok(f) => f,
        Err(e) => return Some((format!("second reopen = Err({e})"), steps)),
    };
    chk!("reopen", true);
    let l = rng.range(0, 40) as usize;
    let item = rng.bytes(l);
    let num = model.len() as u64 + 1;
    steps.push(format!("append#{num}({}B)", item.len()));
    h.st.count("files.post_crash.append");
    if let Err(e) = ff.append(num, &item) {
        return Some((format!("append({num}) = Err({e})"), steps));
    }
    model.push(item);
    chk!("append", true);
    None
}

pub fn run_directed(cfg: &Cfg, case: &Directed, dirs: &Dirs, st: &mut Stats) {
    let mut rng = Rng::new(cfg.seed ^ vbase::fnv1a(case.name.as_bytes()));
    let _ = crash::clear_dir(&dirs.main);
    let mut h = Hist {
        random_reads: false,
        poke: cfg.seed ^ 0x51ed,
        cfg,
        job: format!("directed:{}", case.name),
        dirs,
        max: case.max,
        compress: case.compress,
        limit: None,
        model: vec![],
        ops: vec![],
        st,
        seq: 0,
        dead: false,
    };
    h.st.count("files.histories");
    h.st.count("files.histories.directed");
    let mut ff = match h.open() {
        Ok(f) => f,
        Err(e) => {
            return h.fail(
                "open",
                Diff {
                    symptom: "error",
                    detail: format!("{e}"),
                },
            );
        }
    };
    for s in &case.synced {
        h.seq += 1;
        let item = fill(&mut rng, h.seq, *s);
        h.append(&mut ff, item, "files.op.append");
        if h.dead {
            return;
        }
    }
    if let Some(i) = case.read_between {
        h.random_reads = true;
        h.ops.push(format!("retrieve({i})"));
        if let Err(d) = read_one(&mut ff, &h.model, i) {
            return h.fail("retrieve", d);
        }
    }
    h.crash_phase(&mut ff, &mut rng, Some(&case.unsynced));
}

pub fn run_random(cfg: &Cfg, idx: u64, dirs: &Dirs, st: &mut Stats) {
    let mut rng = Rng::new(
        cfg.seed.wrapping_mul(0x9E37_79B9_7F4A_7C15)
            ^ vbase::fnv1a(format!("files:{idx}").as_bytes()),
    );
    let _ = crash::clear_dir(&dirs.main);
    let max = if rng.bool() {
        rng.range(40, 100)
    } else {
        rng.range(40, 300)
    };
    let compress = rng.bool();
    // a few histories run with a tiny fd cache; they get no crash phase (truncate then leaves
    // unreferenced files behind, which the crash model below does not describe)
    let limit = if rng.chance(1, 8) {
        Some(rng.range(2, 3) as usize)
    } else {
        None
    };
    let random_reads = rng.chance(1, 3);
    let mut h = Hist {
        random_reads,
        poke: cfg.seed ^ 0x51ed,
        cfg,
        job: format!("files:{idx}"),
        dirs,
        max,
        compress,
        limit,
        model: vec![],
        ops: vec![],
        st,
        seq: 0,
        dead: false,
    };
    h.st.count("files.histories");
    if compress {
        h.st.count("files.histories.compressed");
    }
    if limit.is_some() {
        h.st.count("files.histories.small_fd_cache");
    }
    if random_reads {
        h.st.count("files.histories.random_reads_between_writes");
    }
    let mut ff = match h.open() {
        Ok(f) => f,
        Err(e) => {
            return h.fail(
                "open",
                Diff {
                    symptom: "error",
                    detail: format!("{e}"),
                },
            );
        }
    };
    h.check(&mut ff, "open");
    // crash_phases = 2 means: every third history gets a second crash phase
    let mut phases_left = if limit.is_some() {
        0
    } else if cfg.crash_phases > 1 && idx % 3 != 0 {
        1
    } else {
        cfg.crash_phases
    };
    // place the crash phases at seeded positions
    let mut crash_at: Vec<usize> = (0..phases_left)
        .map(|_| rng.range(2, cfg.n_ops as u64 - 1) as usize)
        .collect();
    crash_at.sort();
    for step in 0..cfg.n_ops {
        if h.dead {
            return;
        }
        if phases_left > 0 && crash_at.contains(&step) {
            phases_left -= 1;
            h.crash_phase(&mut ff, &mut rng, None);
            continue;
        }
        if h.model.len() >= 40 {
            // keep histories small: cut back
            let t = rng.range(1, 10);
            h.ops.push(format!("truncate({t})"));
            h.st.count("files.op.truncate");
            if let Err(e) = ff.truncate(t) {
                return h.fail(
                    "truncate",
                    Diff {
                        symptom: "error",
                        detail: format!("{e}"),
                    },
                );
            }
            h.model.truncate(t as usize);
            h.check(&mut ff, "truncate");
            continue;
        }
        match rng.below(100) {
            0..=54 => {
                let item = h.gen_item(&mut rng, 200);
                h.append(&mut ff, item, "files.op.append");
            }
            55..=66 => {
                // truncate: mostly effective, sometimes out of range (must be a no-op)
                let len = h.model.len() as u64;
                let t = if rng.chance(1, 5) {
                    len + rng.below(3)
                } else if len > 0 {
                    rng.range(0, len)
                } else {
                    0
                };
                h.ops.push(format!("truncate({t})"));
                h.st.count("files.op.truncate");
                if let Err(e) = ff.truncate(t) {
                    return h.fail(
                        "truncate",
                        Diff {
                            symptom: "error",
                            detail: format!("truncate({t}) = Err({e})"),
                        },
                    );
                }
                if t >= 1 && t < len {
                    h.model.truncate(t as usize);
                    h.st.count("files.op.truncate.effective");
                }
                h.check(&mut ff, "truncate");
            }
            67..=78 => {
                drop(ff);
                h.ops.push("reopen".into());
                h.st.count("files.op.reopen");
                ff = match h.open() {
                    Ok(f) => f,
                    Err(e) => {
                        return h.fail(
                            "reopen",
                            Diff {
                                symptom: "error",
                                detail: format!("{e}"),
                            },
                        );
                    }
                };
                h.check(&mut ff, "reopen");
            }
            79..=86 => {
                h.ops.push("sync_all".into());
                h.st.count("files.op.sync_all");
                if let Err(e) = ff.sync_all() {
                    return h.fail(
                        "sync_all",
                        Diff {
                            symptom: "error",
                            detail: format!("{e}"),
                        },
                    );
                }
                h.check(&mut ff, "sync_all");
            }
            87..=91 => {
                // append with a wrong number must be refused and change nothing
                let len = h.model.len() as u64;
                let wrong = if rng.bool() {
                    len + 2 + rng.below(3)
                } else {
                    rng.range(0, len)
                };
                h.ops.push(format!("append_wrong_number({wrong})"));
                h.st.count("files.op.append_wrong_number");
                if ff.append(wrong, b"xx").is_ok() {
                    return h.fail(
                        "append_wrong_number",
                        Diff {
                            symptom: "accepted",
                            detail: format!(
                                "append({wrong}, ..) accepted while number() = {}",
                                len + 1
                            ),
                        },
                    );
                }
                h.check(&mut ff, "append_wrong_number");
            }
            _ => {
                h.st.count("files.op.retrieve");
                h.ops.push("retrieve_all".into());
                h.check(&mut ff, "retrieve");
            }
        }
    }
    if !h.dead && h.st.samples.is_empty() {
        let c = h.ctx();
        h.st.sample(c);
    }
}
