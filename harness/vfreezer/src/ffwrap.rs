//! `FreezerFilesBuilder::build` returns `FreezerFiles`, a public type of a private module: it can
//! be used but not named outside ckb-freezer.  The value is therefore captured by a boxed
//! closure; everything the harness does with it goes through the real public methods
//! (`build` + `preopen` exactly like `FreezerFiles::open`, then `number`, `append`,
//! `retrieve`, `truncate`, `sync_all`).

use ckb_freezer::FreezerFilesBuilder;
use std::io;
use std::path::Path;

enum Cmd<'a> {
    Number,
    Append(u64, &'a [u8]),
    Retrieve(u64),
    Truncate(u64),
    Sync,
}

enum Resp {
    Num(u64),
    Unit(io::Result<()>),
    Item(io::Result<Option<Vec<u8>>>),
}

pub struct Ff {
    f: Box<dyn for<'a> FnMut(Cmd<'a>) -> Resp>,
}

impl Ff {
    pub fn open(
        path: &Path,
        max_file_size: u64,
        compress: bool,
        limit: Option<usize>,
    ) -> io::Result<Ff> {
        let mut b = FreezerFilesBuilder::new(path.to_path_buf())
            .max_file_size(max_file_size)
            .enable_compression(compress);
        if let Some(l) = limit {
            b = b.open_files_limit(l);
        }
        let mut ff = b.build()?;
        ff.preopen()?;
        Ok(Ff {
            f: Box::new(move |c| match c {
                Cmd::Number => Resp::Num(ff.number()),
                Cmd::Append(n, d) => Resp::Unit(ff.append(n, d)),
                Cmd::Retrieve(i) => Resp::Item(ff.retrieve(i)),
                Cmd::Truncate(i) => Resp::Unit(ff.truncate(i)),
                Cmd::Sync => Resp::Unit(ff.sync_all()),
            }),
        })
    }

    pub fn number(&mut self) -> u64 {
        match (self.f)(Cmd::Number) {
            Resp::Num(n) => n,
            _ => unreachable!(),
        }
    }
    pub fn append(&mut self, number: u64, data: &[u8]) -> io::Result<()> {
        match (self.f)(Cmd::Append(number, data)) {
            Resp::Unit(r) => r,
            _ => unreachable!(),
        }
    }
    pub fn retrieve(&mut self, item: u64) -> io::Result<Option<Vec<u8>>> {
        match (self.f)(Cmd::Retrieve(item)) {
            Resp::Item(r) => r,
            _ => unreachable!(),
        }
    }
    pub fn truncate(&mut self, item: u64) -> io::Result<()> {
        match (self.f)(Cmd::Truncate(item)) {
            Resp::Unit(r) => r,
            _ => unreachable!(),
        }
    }
    pub fn sync_all(&mut self) -> io::Result<()> {
        match (self.f)(Cmd::Sync) {
            Resp::Unit(r) => r,
            _ => unreachable!(),
        }
    }
}
