//! Syscall-level durability-order monitor: an offline checker over a recorded `strace` log.
//!
//! What process-death fault injection cannot see: whether data handed to `write()` was also
//! handed to `fsync()` before something else that depends on it became durable. A harness that
//! cuts files itself decides what "was synced" (it takes "the call returned" for "synced"), so a
//! dropped or re-ordered fsync is invisible to it. Here the real code runs as a child under
//!
//!   strace -f -y -s 200 --seccomp-bpf -o LOG -e trace=<TRACE_SET> <child ...>
//!
//! (`-y` prints the path behind every file descriptor), the log is parsed, a small page-cache
//! model is kept per file, and the engine evaluates ordering rules at marker events (lines
//! `VERIF-MARK <name> ...` the child writes to a dedicated marker file, so that they appear in
//! the log in program order of the thread that writes them) and at sync events.
//!
//! Model (kept deliberately simple; the assumptions are listed by `assumptions()`):
//! * a file becomes dirty by a successful write / pwrite / writev / ftruncate / fallocate /
//!   open(O_TRUNC) / creation (open(O_CREAT) of a path neither pre-existing nor seen before);
//!   it becomes clean by an fsync / fdatasync of that file which STARTED after the last
//!   modification started (and, for a modification that overlapped other events in the log,
//!   after it finished); `sync_file_range` never cleans (it is not a durability barrier);
//!   `sync` / `syncfs` clean everything;
//! * log order: strace handles the syscall-entry stop before the kernel runs the call and the
//!   exit stop after it, so if X finishes before Y starts in the log, X really ran before Y;
//! * files are identified by the path strace prints; rename moves the state, unlink drops it.

use std::collections::{BTreeMap, HashMap, HashSet, VecDeque};
use std::io::Write;
use std::path::Path;
use std::process::Command;

pub const TRACE_SET: &str = "open,openat,creat,write,pwrite64,writev,pwritev,pwritev2,ftruncate,truncate,fallocate,fsync,fdatasync,sync_file_range,sync,syncfs,rename,renameat,renameat2,unlink,unlinkat";
pub const MARK: &str = "VERIF-MARK ";
pub const EXCERPT_LINES: usize = 40;

pub fn assumptions() -> Vec<&'static str> {
    vec![
        "durability monitor: a write()/ftruncate() is durable only after a later fsync()/fdatasync() of the same file returned 0; fsync and fdatasync are treated alike; sync_file_range is not a barrier",
        "durability monitor: fsync of a newly created file also makes its directory entry durable (true for ext4/xfs/btrfs in practice, not promised by POSIX; the code under test never fsyncs a directory), and rename/unlink are not checked for durability",
        "durability monitor: files are modified only through the traced write-family syscalls (a writable shared mapping of a monitored file makes the run inconclusive); O_SYNC/O_DSYNC opens are counted but not modelled",
        "durability monitor: the order of lines in the strace log is a sound happened-before approximation (a call that finished in the log before another started really ran before it)",
        "durability monitor: the run is on tmpfs where fsync is a no-op; only the ORDER of the calls the code issues is judged, not what a device does with them",
    ]
}

/// `strace ... -o <log>`; the caller appends the program and its arguments.
pub fn strace_command(log: &Path) -> Command {
    let mut c = Command::new("strace");
    c.arg("-f")
        .arg("-y")
        .arg("-s")
        .arg("200")
        .arg("--seccomp-bpf")
        .arg("-o")
        .arg(log)
        .arg("-e")
        .arg(format!("trace={TRACE_SET}"));
    c
}

/// Can strace attach to a child here (ptrace permitted, binary present)?
pub fn strace_usable() -> Result<(), String> {
    let out = strace_command(Path::new("/dev/null"))
        .arg("/bin/true")
        .output()
        .map_err(|e| format!("strace cannot be started: {e}"))?;
    if out.status.success() {
        Ok(())
    } else {
        Err(format!(
            "strace probe failed ({}): {}",
            out.status,
            String::from_utf8_lossy(&out.stderr)
                .chars()
                .take(300)
                .collect::<String>()
        ))
    }
}

/// The child side: one `write()` per marker line on a dedicated file descriptor.
pub struct Marker {
    f: Option<std::fs::File>,
}

impl Marker {
    pub fn open(path: Option<&str>) -> Marker {
        Marker {
            f: path.and_then(|p| {
                std::fs::OpenOptions::new()
                    .create(true)
                    .append(true)
                    .open(p)
                    .ok()
            }),
        }
    }
    /// `text` must stay within [A-Za-z0-9 _=.:,-] (it is read back from strace's quoting).
    pub fn mark(&self, text: &str) {
        if let Some(mut f) = self.f.as_ref() {
            let _ = f.write_all(format!("{MARK}{text}\n").as_bytes());
        }
    }
}

#[derive(Clone, Debug)]
pub struct Syscall {
    pub pid: u32,
    pub name: String,
    /// the whole call text, joined over `<unfinished ...>` / `<... resumed>`
    pub text: String,
    /// `None` while unfinished (or `?`)
    pub ret: Option<i64>,
    /// path behind the returned descriptor (open family)
    pub ret_path: Option<String>,
    pub start_line: usize,
    pub end_line: usize,
}

impl Syscall {
    /// other events lie between the entry and the exit of this call in the log
    pub fn split(&self) -> bool {
        self.start_line != self.end_line
    }
}

#[derive(Clone, Copy, Debug, PartialEq, Eq)]
pub enum Phase {
    Start,
    Finish,
}

#[derive(Default)]
pub struct Trace {
    pub calls: Vec<Syscall>,
    pub timeline: Vec<(Phase, usize)>,
    pub lines: u64,
    pub unparsed: u64,
    pub unparsed_samples: Vec<String>,
    pub never_resumed: u64,
    /// `+++ exited with N +++` / `+++ killed by SIG +++` per pid
    pub exits: Vec<(u32, String)>,
}

fn leading_int(s: &str) -> Option<i64> {
    let s = s.trim_start();
    let end = s
        .char_indices()
        .find(|(i, c)| !(c.is_ascii_digit() || (*i == 0 && *c == '-')))
        .map(|(i, _)| i)
        .unwrap_or(s.len());
    s[..end].parse().ok()
}

/// `N</path>` or `N</path>(deleted)` at the start of `s` -> (path, deleted)
fn fd_path(s: &str) -> Option<(String, bool)> {
    let s = s.trim_start();
    let lt = s.find('<')?;
    if lt == 0 || !s[..lt].bytes().all(|b| b.is_ascii_digit()) {
        return None;
    }
    let gt = s[lt..].find('>')? + lt;
    let path = s[lt + 1..gt].to_string();
    let deleted = s[gt + 1..].starts_with("(deleted)");
    Some((path, deleted))
}

fn finish_fields(text: &str) -> (Option<i64>, Option<String>) {
    match text.rfind(" = ") {
        Some(p) => {
            let r = &text[p + 3..];
            (leading_int(r), fd_path(r).map(|(p, _)| p))
        }
        None => (None, None),
    }
}

pub fn parse(log: &str) -> Trace {
    let mut t = Trace::default();
    let mut pending: HashMap<u32, usize> = HashMap::new();
    for (ln, line) in log.lines().enumerate() {
        t.lines += 1;
        let line = line.trim_end();
        let (pid, rest) = match line.split_once(char::is_whitespace) {
            Some((p, r)) if p.parse::<u32>().is_ok() => (p.parse::<u32>().unwrap(), r.trim_start()),
            _ => {
                t.unparsed += 1;
                if t.unparsed_samples.len() < 5 {
                    t.unparsed_samples.push(line.chars().take(160).collect());
                }
                continue;
            }
        };
        if rest.starts_with("+++") {
            t.exits.push((pid, rest.trim_matches('+').trim().to_string()));
            continue;
        }
        if rest.starts_with("---") {
            continue;
        }
        if let Some(r) = rest.strip_prefix("<... ") {
            // `<... write resumed>) = 12`
            let Some(p) = r.find(" resumed>") else {
                t.unparsed += 1;
                continue;
            };
            let Some(idx) = pending.remove(&pid) else {
                // resumed without a start: the call was entered before tracing began
                continue;
            };
            let tail = &r[p + " resumed>".len()..];
            let c = &mut t.calls[idx];
            c.text.push_str(tail);
            let (ret, rp) = finish_fields(&c.text);
            c.ret = ret;
            c.ret_path = rp;
            c.end_line = ln;
            t.timeline.push((Phase::Finish, idx));
            continue;
        }
        let Some(paren) = rest.find('(') else {
            t.unparsed += 1;
            if t.unparsed_samples.len() < 5 {
                t.unparsed_samples.push(line.chars().take(160).collect());
            }
            continue;
        };
        let name = &rest[..paren];
        if name.is_empty() || !name.bytes().all(|b| b.is_ascii_alphanumeric() || b == b'_') {
            t.unparsed += 1;
            if t.unparsed_samples.len() < 5 {
                t.unparsed_samples.push(line.chars().take(160).collect());
            }
            continue;
        }
        let idx = t.calls.len();
        if let Some(body) = rest.strip_suffix("<unfinished ...>") {
            t.calls.push(Syscall {
                pid,
                name: name.to_string(),
                text: body.trim_end().to_string(),
                ret: None,
                ret_path: None,
                start_line: ln,
                end_line: usize::MAX,
            });
            pending.insert(pid, idx);
            t.timeline.push((Phase::Start, idx));
        } else {
            let (ret, rp) = finish_fields(rest);
            t.calls.push(Syscall {
                pid,
                name: name.to_string(),
                text: rest.to_string(),
                ret,
                ret_path: rp,
                start_line: ln,
                end_line: ln,
            });
            t.timeline.push((Phase::Start, idx));
            t.timeline.push((Phase::Finish, idx));
        }
    }
    t.never_resumed = pending.len() as u64;
    t
}

#[derive(Clone, Debug, Default)]
pub struct FileSt {
    pub class: &'static str,
    mgen: u64,
    synced: u64,
    pub writes_since_sync: u64,
    pub truncates_since_sync: u64,
    pub created_unsynced: bool,
    pub bytes_since_sync: u64,
}

impl FileSt {
    pub fn dirty(&self) -> bool {
        self.synced < self.mgen
    }
}

#[derive(Clone, Debug)]
pub struct DirtyFile {
    pub path: String,
    pub class: &'static str,
    pub writes_since_sync: u64,
    pub truncates_since_sync: u64,
    pub created_unsynced: bool,
    pub bytes_since_sync: u64,
}

impl DirtyFile {
    pub fn describe(&self) -> String {
        format!(
            "{} [{}]: {} write(s) / {} byte(s) / {} truncate(s) since its last fsync{}",
            self.path,
            self.class,
            self.writes_since_sync,
            self.bytes_since_sync,
            self.truncates_since_sync,
            if self.created_unsynced { ", created and never fsynced" } else { "" }
        )
    }
}

/// What a step of the model tells the rule layer.
#[derive(Clone, Debug)]
pub enum Obs {
    /// a marker line is about to be written (everything its thread did before is in the model)
    Mark(String),
    /// an fsync/fdatasync of a monitored file is about to be issued
    SyncStart { path: String, class: &'static str },
    /// it returned 0
    SyncDone { path: String, class: &'static str },
    /// a successful modification of a monitored file was issued
    /// `kind`: "write", "truncate" or "create"
    Modified { path: String, class: &'static str, kind: &'static str },
}

pub struct Model<'a> {
    classify: &'a dyn Fn(&str) -> Option<&'static str>,
    pub files: BTreeMap<String, FileSt>,
    known: HashSet<String>,
    ring: VecDeque<String>,
    pub counters: BTreeMap<String, u64>,
    pending_sync: HashMap<u32, (String, u64)>,
}

const WRITE_CALLS: [&str; 5] = ["write", "pwrite64", "writev", "pwritev", "pwritev2"];

impl<'a> Model<'a> {
    /// `preexisting`: files that existed before the traced process started (an `O_CREAT` open
    /// of any other path not seen before counts as a creation).
    pub fn new(classify: &'a dyn Fn(&str) -> Option<&'static str>, preexisting: &[String]) -> Model<'a> {
        Model {
            classify,
            files: BTreeMap::new(),
            known: preexisting.iter().cloned().collect(),
            ring: VecDeque::new(),
            counters: BTreeMap::new(),
            pending_sync: HashMap::new(),
        }
    }

    fn count(&mut self, k: String) {
        *self.counters.entry(k).or_insert(0) += 1;
    }

    fn note(&mut self, c: &Syscall, phase: Phase) {
        let tag = match (phase, c.split()) {
            (Phase::Start, true) => " <started>",
            (Phase::Finish, true) => " <finished>",
            _ => "",
        };
        let mut s: String = format!("{} {}", c.pid, c.text).chars().take(230).collect();
        s.push_str(tag);
        if self.ring.len() == EXCERPT_LINES {
            self.ring.pop_front();
        }
        self.ring.push_back(s);
    }

    /// the last relevant syscalls (monitored files and markers), oldest first
    pub fn excerpt(&self) -> Vec<String> {
        self.ring.iter().cloned().collect()
    }

    pub fn dirty(&self) -> Vec<DirtyFile> {
        self.files
            .iter()
            .filter(|(_, s)| s.dirty())
            .map(|(p, s)| DirtyFile {
                path: p.clone(),
                class: s.class,
                writes_since_sync: s.writes_since_sync,
                truncates_since_sync: s.truncates_since_sync,
                created_unsynced: s.created_unsynced,
                bytes_since_sync: s.bytes_since_sync,
            })
            .collect()
    }

    fn modify(&mut self, path: &str, class: &'static str, kind: &str, bytes: u64) {
        let st = self.files.entry(path.to_string()).or_default();
        st.class = class;
        st.mgen += 1;
        match kind {
            "write" => {
                st.writes_since_sync += 1;
                st.bytes_since_sync += bytes;
            }
            "create" => st.created_unsynced = true,
            "again" => {}
            _ => st.truncates_since_sync += 1,
        }
    }

    pub fn step(&mut self, phase: Phase, c: &Syscall) -> Option<Obs> {
        let name = c.name.as_str();
        let args = &c.text[c.text.find('(').map(|p| p + 1).unwrap_or(0)..];
        let failed = matches!(c.ret, Some(r) if r < 0);
        // ---- write family, ftruncate, fallocate: first argument is the descriptor
        if WRITE_CALLS.contains(&name) || name == "ftruncate" || name == "fallocate" {
            let (path, deleted) = fd_path(args)?;
            if phase == Phase::Start && WRITE_CALLS.contains(&name) {
                let lead = format!(", \"{MARK}");
                if let Some(p) = args.find(&lead) {
                    let m = &args[p + lead.len()..];
                    let end = m.find(['\\', '"']).unwrap_or(m.len());
                    let text = m[..end].to_string();
                    self.note(c, phase);
                    self.count("markers".into());
                    return Some(Obs::Mark(text));
                }
            }
            if deleted {
                return None;
            }
            if name == "fallocate" && args.contains("FALLOC_FL_KEEP_SIZE") {
                // pre-allocation: neither content nor size changes
                return None;
            }
            self.known.insert(path.clone());
            let class = (self.classify)(&path)?;
            let kind = if WRITE_CALLS.contains(&name) { "write" } else { "truncate" };
            match phase {
                Phase::Start => {
                    if failed {
                        return None;
                    }
                    self.note(c, phase);
                    let bytes = if kind == "write" { c.ret.unwrap_or(0).max(0) as u64 } else { 0 };
                    self.modify(&path, class, kind, bytes);
                    self.count(format!("{}s.{class}", if kind == "write" { "write" } else { "truncate" }));
                    Some(Obs::Modified { path, class, kind })
                }
                Phase::Finish => {
                    if c.split() && !failed {
                        // an fsync that started while this call was in flight does not cover it
                        self.note(c, phase);
                        self.modify(&path, class, "again", 0);
                    }
                    None
                }
            }
        } else if name == "fsync" || name == "fdatasync" {
            let (path, deleted) = fd_path(args)?;
            if deleted {
                return None;
            }
            let class = (self.classify)(&path)?;
            match phase {
                Phase::Start => {
                    self.note(c, phase);
                    let g = self.files.get(&path).map(|s| s.mgen).unwrap_or(0);
                    self.pending_sync.insert(c.pid, (path.clone(), g));
                    Some(Obs::SyncStart { path, class })
                }
                Phase::Finish => {
                    if c.split() {
                        self.note(c, phase);
                    }
                    let (p, g) = self.pending_sync.remove(&c.pid)?;
                    if c.ret != Some(0) {
                        self.count(format!("failed_syncs.{class}"));
                        return None;
                    }
                    self.count(format!("syncs.{class}"));
                    if let Some(st) = self.files.get_mut(&p) {
                        st.synced = st.synced.max(g);
                        if !st.dirty() {
                            st.writes_since_sync = 0;
                            st.truncates_since_sync = 0;
                            st.bytes_since_sync = 0;
                            st.created_unsynced = false;
                        }
                    }
                    Some(Obs::SyncDone { path: p, class })
                }
            }
        } else if name == "sync_file_range" {
            if phase == Phase::Finish {
                if let Some((path, _)) = fd_path(args) {
                    if let Some(class) = (self.classify)(&path) {
                        self.count(format!("sync_file_range_ignored.{class}"));
                    }
                }
            }
            None
        } else if name == "sync" || name == "syncfs" {
            if phase == Phase::Finish && !failed {
                self.count("global_syncs".into());
                for st in self.files.values_mut() {
                    st.synced = st.mgen;
                    st.writes_since_sync = 0;
                    st.truncates_since_sync = 0;
                    st.bytes_since_sync = 0;
                    st.created_unsynced = false;
                }
            }
            None
        } else if name == "open" || name == "openat" || name == "creat" {
            if phase != Phase::Finish || failed {
                return None;
            }
            let path = c.ret_path.clone()?;
            let class = (self.classify)(&path);
            let creat = name == "creat" || args.contains("O_CREAT");
            let trunc = name == "creat" || args.contains("O_TRUNC");
            let fresh = !self.known.contains(&path);
            self.known.insert(path.clone());
            let class = class?;
            if args.contains("O_SYNC") || args.contains("O_DSYNC") {
                self.count(format!("opens_o_sync.{class}"));
            }
            if creat && fresh {
                self.note(c, phase);
                self.modify(&path, class, "create", 0);
                self.count(format!("creates.{class}"));
                return Some(Obs::Modified { path, class, kind: "create" });
            }
            if trunc {
                self.note(c, phase);
                self.modify(&path, class, "truncate", 0);
                self.count(format!("truncates.{class}"));
                return Some(Obs::Modified { path, class, kind: "truncate" });
            }
            None
        } else if name == "truncate" {
            if phase != Phase::Finish || failed {
                return None;
            }
            let path = quoted(args, 0)?;
            let class = (self.classify)(&path)?;
            self.note(c, phase);
            self.modify(&path, class, "truncate", 0);
            self.count(format!("truncates.{class}"));
            Some(Obs::Modified { path, class, kind: "truncate" })
        } else if name == "unlink" || name == "unlinkat" {
            if phase != Phase::Finish || failed {
                return None;
            }
            let path = quoted(args, 0)?;
            self.known.remove(&path);
            if let Some(class) = (self.classify)(&path) {
                self.note(c, phase);
                self.count(format!("unlinks.{class}"));
                self.files.remove(&path);
            }
            None
        } else if name == "rename" || name == "renameat" || name == "renameat2" {
            if phase != Phase::Finish || failed {
                return None;
            }
            let from = quoted(args, 0)?;
            let to = quoted(args, 1)?;
            self.known.remove(&from);
            self.known.insert(to.clone());
            let cf = (self.classify)(&from);
            let ct = (self.classify)(&to);
            if cf.is_some() || ct.is_some() {
                self.note(c, phase);
                self.count(format!("renames.{}", ct.or(cf).unwrap()));
            }
            let st = self.files.remove(&from);
            match (st, ct) {
                (Some(mut st), Some(class)) => {
                    st.class = class;
                    self.files.insert(to, st);
                }
                _ => {
                    self.files.remove(&to);
                }
            }
            None
        } else {
            None
        }
    }
}

/// the n-th double-quoted argument of a call text (strace escapes `"` inside as `\"`)
fn quoted(args: &str, n: usize) -> Option<String> {
    let b = args.as_bytes();
    let mut i = 0;
    let mut k = 0;
    while i < b.len() {
        if b[i] == b'"' {
            let start = i + 1;
            let mut j = start;
            while j < b.len() && b[j] != b'"' {
                if b[j] == b'\\' {
                    j += 1;
                }
                j += 1;
            }
            if k == n {
                return Some(args.get(start..j.min(b.len()))?.to_string());
            }
            k += 1;
            i = j + 1;
        } else {
            i += 1;
        }
    }
    None
}

/// Layout of a node directory: `<root>/ancient/{INDEX,blkNNNNNN}` (freezer) and `<root>/db/*`
/// (RocksDB). Returns the file class, `None` for paths that are not monitored.
pub fn classify_node_path(path: &str) -> Option<&'static str> {
    let (dir, base) = path.rsplit_once('/')?;
    if dir.ends_with("/ancient") {
        if base == "INDEX" {
            return Some("freezer_index");
        }
        if base.starts_with("blk") {
            return Some("freezer_data");
        }
        return None;
    }
    if dir.ends_with("/db") {
        if base.ends_with(".log") {
            return Some("kv_wal");
        }
        if base.ends_with(".sst") {
            return Some("kv_sst");
        }
        if base.starts_with("MANIFEST") {
            return Some("kv_manifest");
        }
        if base == "LOG" || base.starts_with("LOG.old") || base == "LOCK" {
            return None;
        }
        return Some("kv_other");
    }
    None
}

pub fn is_freezer_class(class: &str) -> bool {
    class.starts_with("freezer_")
}

pub fn is_kv_class(class: &str) -> bool {
    class.starts_with("kv_")
}

/// All regular files below `root` (absolute paths), for `Model::new(.., preexisting)`.
pub fn list_files(root: &Path) -> Vec<String> {
    let mut out = vec![];
    let mut stack = vec![root.to_path_buf()];
    while let Some(d) = stack.pop() {
        if let Ok(rd) = std::fs::read_dir(&d) {
            for e in rd.flatten() {
                let p = e.path();
                if p.is_dir() {
                    stack.push(p);
                } else {
                    out.push(p.display().to_string());
                }
            }
        }
    }
    out
}

#[cfg(test)]
mod tests {
    use super::*;

    const LOG: &str = r#"1535  openat(AT_FDCWD</t>, "/t/MARK", O_WRONLY|O_CREAT|O_APPEND|O_CLOEXEC, 0777) = 3</t/MARK>
1535  openat(AT_FDCWD</t>, "/t/ancient/INDEX", O_RDWR|O_CREAT|O_CLOEXEC, 0644) = 4</t/ancient/INDEX>
1535  write(3</t/MARK>, "VERIF-MARK begin 1\n", 19) = 19
1703  write(4</t/ancient/INDEX>, "xxxxxxxxxxxx\"\n\\", 15 <unfinished ...>
1535  ftruncate(4</t/ancient/INDEX>, 5) = 0
1535  fsync(4</t/ancient/INDEX> <unfinished ...>
1703  <... write resumed>)              = 15
1535  <... fsync resumed>)              = 0
1535  write(3</t/MARK>, "VERIF-MARK after-overlapped-sync\n", 19) = 19
1535  fsync(4</t/ancient/INDEX>) = 0
1535  write(3</t/MARK>, "VERIF-MARK after-second-sync\n", 19) = 19
1535  pwrite64(5</t/ancient/INDEX>, "abc", 3, 100) = 3
1535  rename("/t/ancient/INDEX", "/t/ancient/blk000001") = 0
1535  write(3</t/MARK>, "VERIF-MARK renamed\n", 19) = 19
1535  fdatasync(5</t/ancient/blk000001>) = 0
1535  write(3</t/MARK>, "VERIF-MARK end\n", 19) = 19
1535  write(4</t/ancient/blk000001>, "q", 1) = -1 ENOSPC (No space left on device)
1535  unlink("/t/ancient/blk000001") = 0
1535  write(4</t/ancient/blk000001>(deleted), "zz", 2) = 2
1535  +++ exited with 0 +++
"#;

    #[test]
    fn model_follows_the_log() {
        let t = parse(LOG);
        assert_eq!(t.unparsed, 0);
        assert_eq!(t.never_resumed, 0);
        assert_eq!(t.exits.len(), 1);
        let cl = |p: &str| classify_node_path(p);
        let mut m = Model::new(&cl, &[]);
        let mut seen = vec![];
        for (ph, i) in &t.timeline {
            if let Some(Obs::Mark(name)) = m.step(*ph, &t.calls[*i]) {
                let d = m.dirty();
                seen.push((name, d.len(), d.first().map(|x| x.path.clone())));
            }
        }
        assert_eq!(
            seen,
            vec![
                ("begin 1".to_string(), 1, Some("/t/ancient/INDEX".to_string())), // created, not synced
                ("after-overlapped-sync".to_string(), 1, Some("/t/ancient/INDEX".to_string())),
                ("after-second-sync".to_string(), 0, None),
                ("renamed".to_string(), 1, Some("/t/ancient/blk000001".to_string())),
                ("end".to_string(), 0, None),
            ]
        );
        assert!(m.files.is_empty());
    }
}
