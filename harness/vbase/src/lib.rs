//! Shared, dependency-light machinery for every verification engine:
//! deterministic PRNG, command-line parsing, verdict discipline, evidence files.
//!
//! Verdicts are three-valued:
//!   held          -> exit 0
//!   violated      -> prints `VIOLATION property=<id> replay=<path>`, exit 1
//!   inconclusive  -> prints `INCONCLUSIVE property=<id> reason=...`, exit 2 (never a VIOLATION)
//! Known findings (listed in /verif/known_findings.json by exact signature) print
//! `KNOWN-FINDING: property=<id> <signature> ...` and do not fail the run.

use serde_json::{Value, json};
use std::collections::{BTreeMap, BTreeSet};
use std::path::{Path, PathBuf};
use std::time::Instant;

pub mod durability;
pub mod rng;
pub use rng::Rng;

/// Root of the verification tree (evidence/, artifacts/, known_findings.json). `VERIF_ROOT`
/// overrides it for scratch runs against modified copies of the repository.
pub fn verif_root() -> PathBuf {
    PathBuf::from(std::env::var("VERIF_ROOT").unwrap_or_else(|_| "/verif".to_string()))
}

/// Parsed common command line: `<engine> [--seed S] [--tier quick|thorough] [--props C01,C02]
/// [--replay FILE] [--shard i/n] [key=value ...]`.
#[derive(Clone, Debug)]
pub struct Args {
    pub engine: String,
    pub seed: u64,
    pub tier: Tier,
    pub props: Vec<String>,
    pub replay: Option<PathBuf>,
    pub extra: BTreeMap<String, String>,
}

#[derive(Clone, Copy, Debug, PartialEq, Eq)]
pub enum Tier {
    Quick,
    Thorough,
}

impl Tier {
    pub fn as_str(&self) -> &'static str {
        match self {
            Tier::Quick => "quick",
            Tier::Thorough => "thorough",
        }
    }
    pub fn pick<T>(&self, quick: T, thorough: T) -> T {
        match self {
            Tier::Quick => quick,
            Tier::Thorough => thorough,
        }
    }
}

impl Args {
    pub fn parse() -> Args {
        let argv: Vec<String> = std::env::args().skip(1).collect();
        Self::parse_from(&argv)
    }

    pub fn parse_from(argv: &[String]) -> Args {
        let mut engine = String::new();
        let mut seed = std::env::var("VERIF_SEED")
            .ok()
            .and_then(|s| s.parse::<u64>().ok())
            .unwrap_or(1);
        let mut tier = match std::env::var("VERIF_TIER").as_deref() {
            Ok("thorough") => Tier::Thorough,
            _ => Tier::Quick,
        };
        let mut props = vec![];
        let mut replay = None;
        let mut extra = BTreeMap::new();
        let mut i = 0;
        while i < argv.len() {
            let a = &argv[i];
            match a.as_str() {
                "--seed" => {
                    i += 1;
                    seed = argv[i].parse().expect("--seed N");
                }
                "--tier" => {
                    i += 1;
                    tier = match argv[i].as_str() {
                        "thorough" => Tier::Thorough,
                        _ => Tier::Quick,
                    };
                }
                "--props" => {
                    i += 1;
                    props = argv[i].split(',').map(|s| s.to_string()).collect();
                }
                "--replay" => {
                    i += 1;
                    replay = Some(PathBuf::from(&argv[i]));
                }
                _ => {
                    if let Some((k, v)) = a.split_once('=') {
                        extra.insert(k.trim_start_matches("--").to_string(), v.to_string());
                    } else if engine.is_empty() {
                        engine = a.clone();
                    } else {
                        extra.insert(a.trim_start_matches("--").to_string(), "1".to_string());
                    }
                }
            }
            i += 1;
        }
        Args {
            engine,
            seed,
            tier,
            props,
            replay,
            extra,
        }
    }

    pub fn get_u64(&self, key: &str, default: u64) -> u64 {
        self.extra
            .get(key)
            .and_then(|v| v.parse().ok())
            .unwrap_or(default)
    }
    pub fn get_str(&self, key: &str) -> Option<&str> {
        self.extra.get(key).map(|s| s.as_str())
    }
    pub fn wants(&self, prop: &str) -> bool {
        self.props.is_empty() || self.props.iter().any(|p| p == prop)
    }
}

/// One violation found by an oracle.
#[derive(Clone, Debug)]
pub struct Violation {
    /// Stable, specific identification of *what* fails (used to match known findings).
    pub signature: String,
    /// Human readable description.
    pub detail: String,
    /// Witness (seed, parameters, history tail...) written to the replay file.
    pub witness: Value,
}

/// Per-property accumulator of what the monitors actually observed.
pub struct Report {
    pub property: String,
    pub level: String,
    pub tier: Tier,
    pub seed: u64,
    pub rule: String,
    pub evaluations: u64,
    distinct: BTreeSet<u64>,
    distinct_extra: u64,
    pub samples: Vec<Value>,
    pub max_samples: usize,
    pub counters: BTreeMap<String, u64>,
    pub notes: BTreeMap<String, Value>,
    pub assumptions: Vec<String>,
    pub violations: Vec<Violation>,
    pub inconclusive: Vec<String>,
    pub exhaustive: Option<bool>,
    start: Instant,
}

impl Report {
    pub fn new(property: &str, level: &str, args: &Args, rule: &str) -> Report {
        Report {
            property: property.to_string(),
            level: level.to_string(),
            tier: args.tier,
            seed: args.seed,
            rule: rule.to_string(),
            evaluations: 0,
            distinct: BTreeSet::new(),
            distinct_extra: 0,
            samples: vec![],
            max_samples: 6,
            counters: BTreeMap::new(),
            notes: BTreeMap::new(),
            assumptions: vec![],
            violations: vec![],
            inconclusive: vec![],
            exhaustive: None,
            start: Instant::now(),
        }
    }

    /// Count one oracle evaluation.
    pub fn eval(&mut self) {
        self.evaluations += 1;
    }
    pub fn evals(&mut self, n: u64) {
        self.evaluations += n;
    }
    /// Record a non-trivial case by a hash of its distinguishing features.
    pub fn distinct(&mut self, key: u64) {
        self.distinct.insert(key);
    }
    pub fn distinct_str(&mut self, key: &str) {
        self.distinct.insert(fnv1a(key.as_bytes()));
    }
    /// Merge a count of distinct cases measured elsewhere (e.g. by a shard).
    pub fn add_distinct_count(&mut self, n: u64) {
        self.distinct_extra += n;
    }
    pub fn distinct_count(&self) -> u64 {
        self.distinct.len() as u64 + self.distinct_extra
    }
    pub fn count(&mut self, key: &str) {
        *self.counters.entry(key.to_string()).or_insert(0) += 1;
    }
    pub fn count_n(&mut self, key: &str, n: u64) {
        *self.counters.entry(key.to_string()).or_insert(0) += n;
    }
    pub fn counter(&self, key: &str) -> u64 {
        self.counters.get(key).copied().unwrap_or(0)
    }
    pub fn sample(&mut self, v: Value) {
        if self.samples.len() < self.max_samples {
            self.samples.push(v);
        }
    }
    pub fn note(&mut self, key: &str, v: Value) {
        self.notes.insert(key.to_string(), v);
    }
    pub fn assume(&mut self, s: &str) {
        if !self.assumptions.iter().any(|a| a == s) {
            self.assumptions.push(s.to_string());
        }
    }
    pub fn violation(&mut self, signature: &str, detail: String, witness: Value) {
        // keep the first witness per signature, count the rest
        self.count(&format!("violation::{signature}"));
        if self.violations.iter().any(|v| v.signature == signature) {
            return;
        }
        self.violations.push(Violation {
            signature: signature.to_string(),
            detail,
            witness,
        });
    }
    /// number of distinct violation signatures recorded so far
    pub fn violations_len(&self) -> usize {
        self.violations.len()
    }

    pub fn inconclusive(&mut self, reason: &str) {
        if !self.inconclusive.iter().any(|r| r == reason) {
            self.inconclusive.push(reason.to_string());
        }
    }
    /// Require that a counter reached a minimum; otherwise the run is inconclusive.
    pub fn require(&mut self, counter: &str, min: u64) {
        let have = self.counter(counter);
        if have < min {
            self.inconclusive(&format!(
                "observed too little: {counter}={have} < required {min}"
            ));
        }
    }

    /// Merge another report for the same property (shards).
    pub fn merge_json(&mut self, other: &Value) {
        let cov = &other["coverage"];
        self.evaluations += cov["evaluations"].as_u64().unwrap_or(0);
        self.distinct_extra += cov["distinct_nontrivial"].as_u64().unwrap_or(0);
        if let Some(c) = cov["counters"].as_object() {
            for (k, v) in c {
                self.count_n(k, v.as_u64().unwrap_or(0));
            }
        }
        if let Some(s) = cov["samples"].as_array() {
            for v in s {
                self.sample(v.clone());
            }
        }
        if let Some(vs) = other["violation_list"].as_array() {
            for v in vs {
                let sig = v["signature"].as_str().unwrap_or("?").to_string();
                if !self.violations.iter().any(|x| x.signature == sig) {
                    self.violations.push(Violation {
                        signature: sig,
                        detail: v["detail"].as_str().unwrap_or("").to_string(),
                        witness: v["witness"].clone(),
                    });
                }
            }
        }
        if let Some(vs) = other["inconclusive"].as_array() {
            for v in vs {
                if let Some(s) = v.as_str() {
                    self.inconclusive(s);
                }
            }
        }
    }

    pub fn to_json(&self, known: &KnownFindings) -> Value {
        let (new_v, known_v): (Vec<&Violation>, Vec<&Violation>) = self
            .violations
            .iter()
            .partition(|v| !known.is_known(&self.property, &v.signature));
        let mut coverage = serde_json::Map::new();
        coverage.insert("evaluations".into(), json!(self.evaluations));
        coverage.insert("distinct_nontrivial".into(), json!(self.distinct_count()));
        coverage.insert("rule".into(), json!(self.rule));
        coverage.insert("samples".into(), json!(self.samples));
        coverage.insert("counters".into(), json!(self.counters));
        if let Some(e) = self.exhaustive {
            coverage.insert("exhaustive".into(), json!(e));
        }
        for (k, v) in &self.notes {
            coverage.insert(k.clone(), v.clone());
        }
        json!({
            "property_id": self.property,
            "tier": self.tier.as_str(),
            "seed": self.seed,
            "level": self.level,
            "coverage": Value::Object(coverage),
            "assumptions": self.assumptions,
            "wall_s": self.start.elapsed().as_secs_f64(),
            "violations": new_v.len(),
            "known_findings_observed": known_v.iter().map(|v| v.signature.clone()).collect::<Vec<_>>(),
            "violation_list": self.violations.iter().map(|v| json!({
                "signature": v.signature, "detail": v.detail, "witness": v.witness,
                "occurrences": self.counter(&format!("violation::{}", v.signature)),
                "replay": replay_path(&self.property, &v.signature, self.seed).display().to_string()})).collect::<Vec<_>>(),
            "inconclusive": self.inconclusive,
            "verdict": if !new_v.is_empty() { "violated" } else if !self.inconclusive.is_empty() { "inconclusive" } else { "held" },
        })
    }

    /// Write the evidence file (or a shard file when `out` is given), print verdict lines,
    /// return the process exit code.
    pub fn finish(&self, out: Option<&Path>) -> i32 {
        let known = KnownFindings::load();
        let j = self.to_json(&known);
        // the check driver collects shards from VERIF_OUT_DIR and prints the verdict itself
        let env_out = std::env::var("VERIF_OUT_DIR")
            .ok()
            .map(|d| PathBuf::from(d).join(format!("{}.json", self.property)));
        let out: Option<&Path> = match (&out, &env_out) {
            (Some(p), _) => Some(*p),
            (None, Some(p)) => Some(p.as_path()),
            _ => None,
        };
        let path = match out {
            Some(p) => p.to_path_buf(),
            None => verif_root()
                .join("evidence")
                .join(format!("{}.json", self.property)),
        };
        if let Some(parent) = path.parent() {
            let _ = std::fs::create_dir_all(parent);
        }
        std::fs::write(&path, serde_json::to_string_pretty(&j).unwrap()).expect("write evidence");
        let is_shard = out.is_some();
        let mut code = 0;
        for v in &self.violations {
            if known.is_known(&self.property, &v.signature) {
                if !is_shard {
                    println!(
                        "KNOWN-FINDING: property={} {} ({} occurrence(s))",
                        self.property,
                        v.signature,
                        self.counter(&format!("violation::{}", v.signature))
                    );
                }
            } else {
                let rp = write_replay(&self.property, &v.signature, self.seed, self.tier, v);
                if !is_shard {
                    println!("VIOLATION property={} replay={}", self.property, rp.display());
                    println!("  signature: {}", v.signature);
                    println!("  detail: {}", v.detail);
                }
                code = 1;
            }
        }
        if code == 0 && !self.inconclusive.is_empty() {
            if !is_shard {
                for r in &self.inconclusive {
                    println!("INCONCLUSIVE property={} reason={}", self.property, r);
                }
            }
            code = 2;
        }
        if !is_shard {
            println!(
                "[{}] {} evaluations={} distinct_nontrivial={} wall={:.1}s verdict={}",
                self.property,
                self.tier.as_str(),
                self.evaluations,
                self.distinct_count(),
                self.start.elapsed().as_secs_f64(),
                j["verdict"].as_str().unwrap()
            );
        }
        code
    }
}

pub fn replay_path(prop: &str, signature: &str, seed: u64) -> PathBuf {
    let dir = verif_root().join("artifacts").join(prop);
    let name: String = signature
        .chars()
        .map(|c| if c.is_ascii_alphanumeric() { c } else { '_' })
        .take(80)
        .collect();
    dir.join(format!("{name}-seed{seed}.json"))
}

pub fn write_replay(prop: &str, signature: &str, seed: u64, tier: Tier, v: &Violation) -> PathBuf {
    let path = replay_path(prop, signature, seed);
    if let Some(dir) = path.parent() {
        let _ = std::fs::create_dir_all(dir);
    }
    let j = json!({
        "property": prop, "signature": signature, "seed": seed, "tier": tier.as_str(),
        "detail": v.detail, "witness": v.witness,
    });
    let _ = std::fs::write(&path, serde_json::to_string_pretty(&j).unwrap());
    path
}

/// /verif/known_findings.json: {"findings":[{"property":"C10","signature":"...","description":"..."}],
/// "fixed":[...]}. Never written at run time.
pub struct KnownFindings {
    entries: Vec<(String, String)>,
}

impl KnownFindings {
    pub fn load() -> KnownFindings {
        let path = verif_root().join("known_findings.json");
        let mut entries = vec![];
        if let Ok(s) = std::fs::read_to_string(path) {
            if let Ok(v) = serde_json::from_str::<Value>(&s) {
                if let Some(a) = v["findings"].as_array() {
                    for f in a {
                        if let (Some(p), Some(sig)) =
                            (f["property"].as_str(), f["signature"].as_str())
                        {
                            entries.push((p.to_string(), sig.to_string()));
                        }
                    }
                }
            }
        }
        KnownFindings { entries }
    }
    pub fn is_known(&self, prop: &str, signature: &str) -> bool {
        self.entries
            .iter()
            .any(|(p, s)| p == prop && s == signature)
    }
}

pub fn fnv1a(bytes: &[u8]) -> u64 {
    let mut h: u64 = 0xcbf29ce484222325;
    for b in bytes {
        h ^= *b as u64;
        h = h.wrapping_mul(0x100000001b3);
    }
    h
}

pub fn hex(bytes: &[u8]) -> String {
    let mut s = String::with_capacity(bytes.len() * 2);
    for b in bytes {
        s.push_str(&format!("{b:02x}"));
    }
    s
}

/// Scratch directory in RAM, removed on drop.
pub struct Scratch {
    pub path: PathBuf,
}

impl Scratch {
    pub fn new(tag: &str) -> Scratch {
        // children of a parent engine put their scratch inside the parent's (which removes it)
        let base = if let Ok(b) = std::env::var("VERIF_SCRATCH_BASE") {
            PathBuf::from(b)
        } else if Path::new("/dev/shm").is_dir() {
            PathBuf::from("/dev/shm")
        } else {
            std::env::temp_dir()
        };
        static N: std::sync::atomic::AtomicU64 = std::sync::atomic::AtomicU64::new(0);
        let n = N.fetch_add(1, std::sync::atomic::Ordering::SeqCst);
        let path = base.join(format!("ckb-verif-{}-{}-{}", std::process::id(), tag, n));
        let _ = std::fs::remove_dir_all(&path);
        std::fs::create_dir_all(&path).expect("create scratch");
        Scratch { path }
    }
    pub fn join(&self, p: &str) -> PathBuf {
        self.path.join(p)
    }
}

impl Drop for Scratch {
    fn drop(&mut self) {
        let _ = std::fs::remove_dir_all(&self.path);
    }
}
