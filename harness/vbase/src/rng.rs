//! Small deterministic PRNG (xoshiro256** seeded by splitmix64) so every engine is a
//! deterministic function of (seed, tier) without external crates.

#[derive(Clone, Debug)]
pub struct Rng {
    s: [u64; 4],
}

fn splitmix(x: &mut u64) -> u64 {
    *x = x.wrapping_add(0x9E3779B97F4A7C15);
    let mut z = *x;
    z = (z ^ (z >> 30)).wrapping_mul(0xBF58476D1CE4E5B9);
    z = (z ^ (z >> 27)).wrapping_mul(0x94D049BB133111EB);
    z ^ (z >> 31)
}

impl Rng {
    pub fn new(seed: u64) -> Rng {
        let mut x = seed ^ 0xA5A5_5A5A_DEAD_BEEF;
        let s = [
            splitmix(&mut x),
            splitmix(&mut x),
            splitmix(&mut x),
            splitmix(&mut x),
        ];
        Rng { s }
    }

    /// Derive an independent stream (for shards / sub-cases).
    pub fn fork(&mut self, tag: u64) -> Rng {
        Rng::new(self.next_u64() ^ tag.wrapping_mul(0x9E3779B97F4A7C15))
    }

    pub fn next_u64(&mut self) -> u64 {
        let result = self.s[1].wrapping_mul(5).rotate_left(7).wrapping_mul(9);
        let t = self.s[1] << 17;
        self.s[2] ^= self.s[0];
        self.s[3] ^= self.s[1];
        self.s[1] ^= self.s[2];
        self.s[0] ^= self.s[3];
        self.s[2] ^= t;
        self.s[3] = self.s[3].rotate_left(45);
        result
    }

    pub fn next_u32(&mut self) -> u32 {
        (self.next_u64() >> 32) as u32
    }

    /// Uniform in [0, n) (n > 0).
    pub fn below(&mut self, n: u64) -> u64 {
        assert!(n > 0);
        // multiply-shift; bias negligible for our sizes
        ((self.next_u64() as u128 * n as u128) >> 64) as u64
    }

    pub fn usize_below(&mut self, n: usize) -> usize {
        self.below(n as u64) as usize
    }

    /// Uniform in [lo, hi] inclusive.
    pub fn range(&mut self, lo: u64, hi: u64) -> u64 {
        assert!(lo <= hi);
        if lo == 0 && hi == u64::MAX {
            return self.next_u64();
        }
        lo + self.below(hi - lo + 1)
    }

    pub fn chance(&mut self, num: u64, den: u64) -> bool {
        self.below(den) < num
    }

    pub fn bool(&mut self) -> bool {
        self.next_u64() & 1 == 1
    }

    pub fn pick<'a, T>(&mut self, xs: &'a [T]) -> &'a T {
        &xs[self.usize_below(xs.len())]
    }

    pub fn shuffle<T>(&mut self, xs: &mut [T]) {
        for i in (1..xs.len()).rev() {
            let j = self.usize_below(i + 1);
            xs.swap(i, j);
        }
    }

    pub fn bytes(&mut self, n: usize) -> Vec<u8> {
        let mut v = Vec::with_capacity(n);
        while v.len() < n {
            let x = self.next_u64().to_le_bytes();
            let take = (n - v.len()).min(8);
            v.extend_from_slice(&x[..take]);
        }
        v
    }

    /// Boundary-biased u64: small values, powers of two +-1, extremes, or uniform.
    pub fn biased_u64(&mut self) -> u64 {
        match self.below(8) {
            0 => self.below(4),
            1 => u64::MAX - self.below(4),
            2 => {
                let p = 1u64 << self.below(64);
                match self.below(3) {
                    0 => p.wrapping_sub(1),
                    1 => p,
                    _ => p.wrapping_add(1),
                }
            }
            3 => self.below(1 << 16),
            4 => self.below(1 << 32),
            _ => self.next_u64(),
        }
    }
}
