//! Decode hostile inputs and walk accessors / hashes under Miri. A panic is caught and counted
//! (panics are judged by the vcodec engine); what this target looks for is Undefined Behaviour,
//! which Miri reports by aborting the interpreter with a non-zero status.

use ckb_gen_types::{packed, prelude::*};
use std::fmt::{Display, Write};

#[path = "../../../harness/vcodec/src/types.rs"]
#[allow(dead_code)]
mod types;

const DEFAULT_CORPUS: &str = include_str!("../default_corpus.txt");

struct Sink(u64);
impl Write for Sink {
    fn write_str(&mut self, s: &str) -> std::fmt::Result {
        for b in s.bytes() {
            self.0 = self.0.wrapping_mul(31).wrapping_add(b as u64);
        }
        Ok(())
    }
}

fn unhex(s: &str) -> Vec<u8> {
    let b = s.as_bytes();
    if s == "-" {
        return vec![];
    }
    (0..b.len() / 2)
        .map(|i| {
            let n = |c: u8| match c {
                b'0'..=b'9' => c - b'0',
                b'a'..=b'f' => c - b'a' + 10,
                _ => 0,
            };
            n(b[2 * i]) << 4 | n(b[2 * i + 1])
        })
        .collect()
}

#[derive(Default)]
struct Tally {
    inputs: u64,
    accepted_strict: u64,
    accepted_compat: u64,
    steps: u64,
    panics: u64,
}

fn step<T>(t: &mut Tally, f: impl FnOnce() -> T) -> Option<T> {
    t.steps += 1;
    match std::panic::catch_unwind(std::panic::AssertUnwindSafe(f)) {
        Ok(v) => Some(v),
        Err(_) => {
            t.panics += 1;
            None
        }
    }
}

fn generic<'r, E, R>(bytes: &'r [u8], t: &mut Tally) -> (bool, bool)
where
    E: Entity + Display,
    R: Reader<'r, Entity = E> + Display,
{
    let strict = step(t, || R::verify(bytes, false).is_ok()).unwrap_or(false);
    let compat = step(t, || R::verify(bytes, true).is_ok()).unwrap_or(false);
    if strict || compat {
        let r = R::new_unchecked(bytes);
        step(t, || {
            let mut s = Sink(0);
            let _ = write!(s, "{r}");
            s.0
        });
        if let Some(e) = step(t, || r.to_entity()) {
            step(t, || {
                let mut s = Sink(0);
                let _ = write!(s, "{e} {e:?}");
                s.0
            });
            step(t, || e.clone().as_builder().build().as_slice().len());
            step(t, || E::from_compatible_slice(e.as_slice()).is_ok());
        }
    }
    (strict, compat)
}

macro_rules! dispatch {
    ($($E:ident $R:ident,)*) => {
        fn run_generic(ty: &str, bytes: &[u8], t: &mut Tally) -> (bool, bool) {
            match ty {
                $(stringify!($E) => generic::<packed::$E, packed::$R<'_>>(bytes, t),)*
                _ => (false, false),
            }
        }
    };
}
for_all_types!(dispatch);

macro_rules! union_arm {
    ($t:ident, $bytes:ident, $R:ident) => {{
        let r = packed::$R::new_unchecked($bytes);
        if let Some((name, slice)) = step($t, || {
            let u = r.to_enum();
            (u.item_name().to_string(), u.as_slice())
        }) {
            special(&name, slice, $t, true);
        }
    }};
}

fn special(ty: &str, bytes: &[u8], t: &mut Tally, nested: bool) {
    if nested {
        run_generic(ty, bytes, t);
    }
    match ty {
        "SyncMessage" => union_arm!(t, bytes, SyncMessageReader),
        "RelayMessage" => union_arm!(t, bytes, RelayMessageReader),
        "LightClientMessage" => union_arm!(t, bytes, LightClientMessageReader),
        "BlockFilterMessage" => union_arm!(t, bytes, BlockFilterMessageReader),
        "Transaction" => {
            let r = packed::TransactionReader::new_unchecked(bytes);
            step(t, || (r.calc_tx_hash(), r.calc_witness_hash(), r.serialized_size_in_block()));
            step(t, || r.to_entity().is_cellbase());
            step(t, || r.to_entity().proposal_short_id());
        }
        "Header" => {
            let r = packed::HeaderReader::new_unchecked(bytes);
            step(t, || (r.calc_pow_hash(), r.calc_header_hash()));
        }
        "UncleBlock" => {
            let r = packed::UncleBlockReader::new_unchecked(bytes);
            step(t, || (r.calc_header_hash(), r.calc_proposals_hash()));
        }
        "Block" | "BlockV1" => {
            let r = packed::BlockReader::new_unchecked(bytes);
            step(t, || (r.calc_header_hash(), r.calc_proposals_hash(), r.calc_uncles_hash()));
            step(t, || (r.calc_tx_hashes().len(), r.calc_tx_witness_hashes().len()));
            step(t, || r.serialized_size_without_uncle_proposals());
            if r.count_extra_fields() <= 1 {
                step(t, || r.calc_extension_hash());
            }
            step(t, || r.to_entity().as_uncle());
        }
        "SendBlock" => {
            let r = packed::SendBlockReader::new_unchecked(bytes);
            step(t, || r.check_data());
            special("Block", r.block().as_slice(), t, false);
        }
        "CompactBlock" | "CompactBlockV1" => {
            let r = packed::CompactBlockReader::new_unchecked(bytes);
            step(t, || r.calc_header_hash());
            step(t, || r.to_entity().txs_len());
            if r.count_extra_fields() <= 1 {
                step(t, || r.to_entity().extension().map(|e| e.len()));
            }
        }
        "BlockTransactions" => {
            let r = packed::BlockTransactionsReader::new_unchecked(bytes);
            step(t, || r.check_data());
        }
        "RelayTransactions" => {
            let r = packed::RelayTransactionsReader::new_unchecked(bytes);
            step(t, || r.check_data());
        }
        "Script" => {
            let r = packed::ScriptReader::new_unchecked(bytes);
            step(t, || r.calc_script_hash());
            step(t, || packed::Script::from_witness(r.to_entity().into_witness()).is_some());
        }
        "CellOutput" => {
            let r = packed::CellOutputReader::new_unchecked(bytes);
            step(t, || r.calc_lock_hash());
        }
        "Bytes" => {
            let r = packed::BytesReader::new_unchecked(bytes);
            step(t, || (r.calc_raw_data_hash(), packed::CellOutput::calc_data_hash(r.raw_data())));
            step(t, || {
                let v: Vec<u8> = r.unpack();
                v.len()
            });
        }
        "ProposalShortIdVec" => {
            let r = packed::ProposalShortIdVecReader::new_unchecked(bytes);
            step(t, || r.calc_proposals_hash());
        }
        "UncleBlockVec" => {
            let r = packed::UncleBlockVecReader::new_unchecked(bytes);
            step(t, || r.calc_uncles_hash());
        }
        "Alert" => {
            let r = packed::AlertReader::new_unchecked(bytes);
            step(t, || r.calc_alert_hash());
        }
        "HeaderDigest" => {
            let r = packed::HeaderDigestReader::new_unchecked(bytes);
            step(t, || r.calc_mmr_hash());
        }
        "Uint32" => {
            let r = packed::Uint32Reader::new_unchecked(bytes);
            step(t, || {
                let v: u32 = r.unpack();
                v
            });
        }
        "Uint64" => {
            let r = packed::Uint64Reader::new_unchecked(bytes);
            step(t, || {
                let v: u64 = r.unpack();
                v
            });
        }
        "Uint128" => {
            let r = packed::Uint128Reader::new_unchecked(bytes);
            step(t, || {
                let v: u128 = r.unpack();
                v
            });
        }
        "Bool" => {
            let r = packed::BoolReader::new_unchecked(bytes);
            step(t, || {
                let v: bool = r.unpack();
                v
            });
        }
        _ => {}
    }
}

fn main() {
    std::panic::set_hook(Box::new(|_| {}));
    // Configuration comes from the ARGUMENTS (cargo-miri replays the environment captured when
    // the crate was compiled, so environment variables are not a reliable channel).
    let argv: Vec<String> = std::env::args().skip(1).collect();
    let corpus = match argv.first() {
        Some(p) => std::fs::read_to_string(p).expect("read corpus"),
        None => DEFAULT_CORPUS.to_string(),
    };
    let max: usize = argv.get(1).and_then(|s| s.parse().ok()).unwrap_or(usize::MAX);
    let mut t = Tally::default();
    for line in corpus.lines().take(max) {
        let mut it = line.split_whitespace();
        let (Some(ty), Some(hx)) = (it.next(), it.next()) else { continue };
        if ty.starts_with('#') {
            continue;
        }
        let bytes = unhex(hx);
        t.inputs += 1;
        // lets the engine attribute an interpreter abort (UB report) to the input
        eprintln!("MIRI-AT {} {ty} {hx}", t.inputs);
        let (s, c) = run_generic(ty, &bytes, &mut t);
        t.accepted_strict += s as u64;
        t.accepted_compat += (c && !s) as u64;
        if s || c {
            special(ty, &bytes, &mut t, false);
        }
    }
    println!(
        "MIRI-CODEC inputs={} accepted_strict={} accepted_compat_only={} steps={} panics_caught={}",
        t.inputs, t.accepted_strict, t.accepted_compat, t.steps, t.panics
    );
}
