//! Miri driver for property C07: exercises the 256-bit integer type behind all consensus
//! arithmetic (numext-fixed-uint, through the operations ckb-rational / difficulty.rs / ckb-pow
//! use), ckb-rational itself and eaglesong on boundary inputs.  Asserts nothing but the absence of
//! undefined behaviour; arithmetic-overflow panics of the checked U256 type are defined
//! behaviour and only counted.
//!
//! usage: miri-arith <stage>...     (each stage is meant to be run in its own Miri process, because
//! Miri stops at the first undefined behaviour)
//! stages: eaglesong u256-add u256-sub u256-bitops u256-mul u256-div u256-gcd u256-shift u256-cmp
//!         u256-from-be u256-conv-be u256-conv-le u256-fmt rational-muldiv rational-addsub compact
use ckb_rational::RationalU256;
use numext_fixed_uint::U256;
use std::panic::{AssertUnwindSafe, catch_unwind};

pub const STAGES: &[&str] = &[
    "eaglesong", "u256-add", "u256-sub", "u256-bitops", "u256-mul", "u256-div", "u256-gcd", "u256-shift",
    "u256-cmp", "u256-from-be", "u256-conv-be", "u256-conv-le", "u256-fmt", "rational-muldiv", "rational-addsub", "compact",
];

/// boundary values built without addition/subtraction (those are stages of their own)
fn boundary_values() -> Vec<U256> {
    let one = U256::one();
    let mut v = vec![
        U256::zero(),
        one.clone(),
        U256::from(2u64),
        U256::from(3u64),
        U256::from(40u64),
        U256::from(41u64),
        U256::from(1800u64),
        U256::from(14400u64),
        U256::from(u64::MAX),
        U256::from(u128::MAX),
    ];
    for s in [63u32, 64, 65, 127, 128, 129, 191, 200, 254, 255] {
        v.push(one.clone() << s);
        v.push(U256::max_value() >> (255 - s));
    }
    v.push(U256::max_value());
    v
}

struct Ctr {
    ops: u64,
    panics: u64,
}

impl Ctr {
    fn run(&mut self, f: impl FnOnce()) {
        self.ops += 1;
        if catch_unwind(AssertUnwindSafe(f)).is_err() {
            self.panics += 1;
        }
    }
}

fn pairs(c: &mut Ctr, mut f: impl FnMut(&U256, &U256)) {
    let vals = boundary_values();
    for (i, a) in vals.iter().enumerate() {
        for (j, b) in vals.iter().enumerate() {
            if (i * 31 + j) % 4 != 0 {
                continue; // a few hundred interpreted operations per stage
            }
            c.run(|| f(a, b));
        }
    }
}

fn rationals() -> Vec<RationalU256> {
    // new_raw: no gcd, no arithmetic while constructing
    let vals = boundary_values();
    let mut rats = vec![RationalU256::zero(), RationalU256::one()];
    for (i, n) in vals.iter().enumerate() {
        let d = &vals[(i * 7 + 3) % vals.len()];
        if !d.is_zero() {
            rats.push(RationalU256::new_raw(n.clone(), d.clone()));
        }
    }
    rats
}

fn stage(name: &str, c: &mut Ctr) {
    match name {
        "eaglesong" => {
            for len in [0usize, 1, 31, 32, 33, 47, 48, 49, 63, 64, 65, 100] {
                for fill in [0x00u8, 0xff, 0xa5] {
                    let mut input = vec![fill; len];
                    if len > 0 {
                        input[len - 1] ^= len as u8;
                    }
                    let mut out = [0u8; 32];
                    eaglesong::eaglesong(&input, &mut out);
                    let mut b = eaglesong::EagleSongBuilder::new();
                    let (x, y) = input.split_at(len / 2);
                    b.update(x);
                    b.update(y);
                    let out2 = b.finalize();
                    assert_eq!(out, out2, "one-shot and incremental eaglesong differ");
                    c.ops += 2;
                }
            }
        }
        "u256-add" => pairs(c, |a, b| {
            let _ = a.overflowing_add(b);
        }),
        "u256-sub" => pairs(c, |a, b| {
            let _ = a.overflowing_sub(b);
        }),
        "u256-bitops" => pairs(c, |a, b| {
            let _ = a | b;
            let _ = a & b;
            let _ = a ^ b;
            let _ = !a;
        }),
        "u256-mul" => pairs(c, |a, b| {
            let _ = a.overflowing_mul(b);
        }),
        "u256-div" => pairs(c, |a, b| {
            if !b.is_zero() {
                let _ = a / b;
                let _ = a % b;
            }
        }),
        "u256-gcd" => pairs(c, |a, b| {
            let _ = a.gcd(b);
        }),
        "u256-shift" => {
            for a in boundary_values() {
                for s in [0u32, 1, 8, 63, 64, 65, 128, 255] {
                    c.run(|| {
                        let _ = a.clone() << s;
                        let _ = a.clone() >> s;
                    });
                }
            }
        }
        "u256-cmp" => pairs(c, |a, b| {
            let _ = a.cmp(b);
            let _ = a == b;
            let _ = a.leading_zeros();
            let _ = a.is_zero();
        }),
        "u256-from-be" => {
            // the conversion the PoW engines apply to the 32-byte hash
            for k in 0u8..32 {
                c.run(|| {
                    let mut buf = [0u8; 32];
                    buf[k as usize] = 0x80 | k;
                    buf[31 - k as usize] ^= 0xff;
                    let a = U256::from_big_endian(&buf).unwrap();
                    let b = U256::from_big_endian(&buf[..(k as usize + 1)]).unwrap();
                    let _ = a.cmp(&b);
                });
            }
        }
        "u256-conv-be" => {
            for a in boundary_values() {
                c.run(|| {
                    let mut buf = [0u8; 32];
                    a.into_big_endian(&mut buf).unwrap();
                    let back = U256::from_big_endian(&buf).unwrap();
                    assert_eq!(back, a);
                });
            }
        }
        "u256-conv-le" => {
            for a in boundary_values() {
                c.run(|| {
                    let mut buf = [0u8; 32];
                    a.into_little_endian(&mut buf).unwrap();
                    let back = U256::from_little_endian(&buf).unwrap();
                    assert_eq!(back, a);
                });
            }
        }
        "u256-fmt" => {
            for a in boundary_values() {
                c.run(|| {
                    let s = format!("{a:x}");
                    let _ = format!("{a} {a:#x}");
                    if !a.is_zero() {
                        let back = U256::from_hex_str(&s).unwrap();
                        assert_eq!(back, a);
                    }
                });
            }
        }
        "rational-muldiv" => {
            let rats = rationals();
            let mut step = 0usize;
            for a in rats.iter() {
                for b in rats.iter() {
                    step += 1;
                    if step % 5 != 0 {
                        continue;
                    }
                    c.run(|| {
                        let _ = a * b;
                    });
                    c.run(|| {
                        if !b.is_zero() {
                            let _ = a / b;
                        }
                    });
                    c.run(|| {
                        let _ = a.cmp(b);
                    });
                    c.run(|| {
                        let _ = a.clone().into_u256();
                    });
                }
            }
        }
        "rational-addsub" => {
            let rats = rationals();
            let small: Vec<U256> = boundary_values().into_iter().filter(|x| x.leading_zeros() >= 130).collect();
            let mut step = 0usize;
            for a in rats.iter() {
                for b in rats.iter() {
                    step += 1;
                    if step % 7 != 0 {
                        continue;
                    }
                    c.run(|| {
                        let _ = a + b;
                    });
                    c.run(|| {
                        let _ = a.clone().saturating_sub(b.clone());
                    });
                    c.run(|| {
                        if a >= b {
                            let _ = a - b;
                        }
                    });
                }
                for u in small.iter().step_by(3) {
                    c.run(|| {
                        let _ = a + u;
                    });
                    c.run(|| {
                        let _ = a.clone().saturating_sub_u256(u.clone());
                    });
                }
            }
        }
        "compact" => {
            #[cfg(feature = "types")]
            {
                use ckb_types::utilities::{
                    compact_to_difficulty, compact_to_target, difficulty_to_compact, target_to_compact,
                };
                for e in 0u32..=255 {
                    for m in [0u32, 1, 0xff, 0x8000, 0x01_0000, 0x7f_ffff, 0x80_0000, 0xff_ffff] {
                        if e > 40 && e % 16 != 0 {
                            continue;
                        }
                        let cmp = (e << 24) | m;
                        c.run(|| {
                            let (t, of) = compact_to_target(cmp);
                            if !of {
                                let _ = target_to_compact(t);
                            }
                            let d = compact_to_difficulty(cmp);
                            if !d.is_zero() {
                                let _ = difficulty_to_compact(d);
                            }
                        });
                    }
                }
            }
            #[cfg(not(feature = "types"))]
            {
                println!("MIRI_SKIPPED=compact (built without feature `types`)");
            }
        }
        other => {
            eprintln!("unknown stage {other}; stages: {STAGES:?}");
            std::process::exit(64);
        }
    }
}

fn main() {
    let stages: Vec<String> = std::env::args().skip(1).collect();
    if stages.is_empty() {
        eprintln!("usage: miri-arith <stage>...   stages: {STAGES:?}");
        std::process::exit(64);
    }
    std::panic::set_hook(Box::new(|_| {}));
    let mut c = Ctr { ops: 0, panics: 0 };
    for s in &stages {
        stage(s, &mut c);
    }
    println!("MIRI_OVERFLOW_PANICS={}", c.panics);
    println!("MIRI_OPS={}", c.ops);
}
