"""Schema-driven value generator, mutators, case-file writer and hash verifier for the
independent molecule oracle (molecule.py). python3 stdlib only.

Case file (one case per line, space separated):
    <id> <Type> <kind> <strict> <compat> <base> <hex>
  strict / compat : verdict of the independent validator ("1"/"0"; "-" = not labelled)
  base            : id of the case this one was mutated from ("-" = none)
  kind            : valid | field | swap | dup | drop | extra | flip | header | trunc | extend |
                    random | tx_nonwit | tx_wit | blk_reorder | blk_txcontent | blk_txwit |
                    blk_proposals | blk_uncles | blk_ext | blk_addext | ...
"""
import json
import random
import struct
import sys

import molecule as m

U32 = m.U32


class Budget:
    __slots__ = ("n",)

    def __init__(self, n):
        self.n = n


_MIN = {}


def min_size(t):
    r = _MIN.get(t.name)
    if r is not None:
        return r
    k = t.kind
    if t.size is not None:
        r = t.size
    elif k in ("fixvec", "dynvec"):
        r = 4
    elif k == "option":
        r = 0
    elif k == "union":
        r = 4 + min(min_size(x) for x in t.items.values())
    elif k == "table":
        r = 4 + sum(4 + min_size(ft) for _, ft in t.fields)
    else:
        raise AssertionError(k)
    _MIN[t.name] = r
    return r


# --------------------------------------------------------------------------------------------
# random values
# --------------------------------------------------------------------------------------------
def gen_fixed_bytes(n, rng):
    r = rng.random()
    if r < 0.12:
        return bytes(n)
    if r < 0.24:
        return b"\xff" * n
    if r < 0.50:
        # small / boundary little-endian integers
        bits = 8 * n
        k = rng.randrange(0, bits + 1)
        v = rng.choice((1, 2, 255, 256, (1 << k) - 1 if k else 0, (1 << k) % (1 << bits),
                        (1 << bits) - 2, rng.randrange(0, 1 << min(bits, 16))))
        return (v % (1 << bits)).to_bytes(n, "little")
    return rng.randbytes(n)


def vec_len(rng, cap):
    r = rng.random()
    if r < 0.22:
        n = 0
    elif r < 0.45:
        n = 1
    elif r < 0.80:
        n = rng.randint(2, 4)
    elif r < 0.95:
        n = rng.randint(5, 20)
    else:
        n = rng.randint(21, 400)
    return max(0, min(n, cap))


ASCII = b"abcdefghijklmnopqrstuvwxyz0123456789 .-_/:"


def ascii_bytes(rng, n):
    return bytes(rng.choice(ASCII) for _ in range(n))


def _byte_field(parent, fname, rng):
    if parent == "Script" and fname == "hash_type":
        if rng.random() < 0.85:
            return rng.choice((0, 1, 2, 4, 4, 6, 254, 2 * rng.randrange(0, 128)))
        return rng.choice((3, 5, 255, 129, rng.randrange(0, 256)))
    if parent == "CellDep" and fname == "dep_type":
        if rng.random() < 0.85:
            return rng.randrange(0, 2)
        return rng.choice((2, 255, rng.randrange(0, 256)))
    return rng.choice((0, 1, 2, 4, 127, 128, 255, rng.randrange(0, 256)))


def gen_value(t, rng, bud, parent=None, fname=None):
    k = t.kind
    if k == "byte":
        bud.n -= 1
        return _byte_field(parent, fname, rng)
    if k == "array":
        bud.n -= t.size
        if t.item.kind == "byte":
            if t.name == "Bool" and rng.random() < 0.85:
                return bytes((rng.randrange(2),))
            return gen_fixed_bytes(t.count, rng)
        return [gen_value(t.item, rng, bud) for _ in range(t.count)]
    if k == "struct":
        v = [gen_value(ft, rng, bud, t.name, fn) for fn, ft in t.fields]
        if t.name == "RawHeader" and rng.random() < 0.7:
            _plausible_raw_header(t, v, rng)
        if t.name == "HeaderDigest" and rng.random() < 0.5:
            _plausible_digest(t, v, rng)
        return v
    if k == "fixvec":
        cap = max(0, bud.n // t.item.size)
        n = vec_len(rng, cap)
        if t.item.kind == "byte":
            if rng.random() < 0.04:
                n = min(cap, rng.randint(400, 70000))
            bud.n -= 4 + n
            if parent in ("RawAlert", "Identify") and rng.random() < 0.8:
                return ascii_bytes(rng, n)
            r = rng.random()
            if r < 0.1:
                return bytes(n)
            if r < 0.2:
                return bytes((rng.randrange(256),)) * n
            return rng.randbytes(n)
        bud.n -= 4
        return [gen_value(t.item, rng, bud) for _ in range(n)]
    if k == "dynvec":
        ms = 4 + min_size(t.item)
        n = vec_len(rng, max(0, bud.n // ms))
        bud.n -= 4 + 4 * n
        return [gen_value(t.item, rng, bud) for _ in range(n)]
    if k == "option":
        if rng.random() < 0.35 or bud.n < min_size(t.item):
            return None
        return gen_value(t.item, rng, bud, parent, fname)
    if k == "union":
        iid = rng.choice(list(t.items))
        bud.n -= 4
        return (iid, gen_value(t.items[iid], rng, bud))
    if k == "table":
        bud.n -= 4 + 4 * len(t.fields)
        v = [gen_value(ft, rng, bud, t.name, fn) for fn, ft in t.fields]
        if t.name == "RawTransaction" and rng.random() < 0.8:
            # the node's structural rule (check_data): outputs and outputs_data pair up
            outs, data = v[4], v[5]
            while len(data) > len(outs):
                data.pop()
            while len(data) < len(outs):
                data.append(rng.randbytes(rng.choice((0, 0, 1, 8, 33))))
        return v
    raise AssertionError(k)


def _plausible_raw_header(t, v, rng):
    names = [fn for fn, _ in t.fields]
    ct = names.index("compact_target")
    ep = names.index("epoch")
    v[ct] = rng.choice((0x1e083126, 0x20010000, 0x1a08a97e, 0x207fffff,
                        rng.randrange(1, 1 << 32))).to_bytes(4, "little")
    length = rng.choice((1, 2, 1000, 1800, 0xffff, rng.randrange(1, 1 << 16)))
    index = rng.choice((0, length - 1, rng.randrange(0, length)))
    number = rng.choice((0, 1, (1 << 24) - 1, rng.randrange(0, 1 << 24)))
    v[ep] = ((length << 40) | (index << 24) | number).to_bytes(8, "little")


def _plausible_digest(t, v, rng):
    """A digest that passes the cheap consistency checks (same epoch, same target, start <= end),
    so that the arithmetic behind them is reached, with boundary block numbers."""
    names = [fn for fn, _ in t.fields]
    ix = names.index
    ep = gen_fixed_bytes(8, rng)
    v[ix("start_epoch")] = ep
    v[ix("end_epoch")] = ep if rng.random() < 0.8 else gen_fixed_bytes(8, rng)
    ct = rng.choice((0x1e083126, 0x20010000, 0x1a08a97e, 0x207fffff, 0x03000001, 0x01010000,
                     rng.randrange(0, 1 << 32))).to_bytes(4, "little")
    v[ix("start_compact_target")] = ct
    v[ix("end_compact_target")] = ct
    a = rng.choice((0, 1, rng.randrange(0, 1 << 64)))
    b = rng.choice(((1 << 64) - 1, (1 << 64) - 2, a, a + 1, rng.randrange(0, 1 << 64))) % (1 << 64)
    a, b = min(a, b), max(a, b)
    v[ix("start_number")] = a.to_bytes(8, "little")
    v[ix("end_number")] = b.to_bytes(8, "little")


# --------------------------------------------------------------------------------------------
# tree navigation
# --------------------------------------------------------------------------------------------
def walk(t, v, path, out):
    """Collect (path, type) for every node of the value tree (root included)."""
    out.append((path, t))
    k = t.kind
    if k == "array" and t.item.kind != "byte":
        for i, x in enumerate(v):
            walk(t.item, x, path + (i,), out)
    elif k == "struct":
        for i, (_, ft) in enumerate(t.fields):
            walk(ft, v[i], path + (i,), out)
    elif k in ("fixvec", "dynvec"):
        if t.item.kind != "byte":
            for i, x in enumerate(v):
                walk(t.item, x, path + (i,), out)
    elif k == "table":
        for i, (_, ft) in enumerate(t.fields):
            walk(ft, v[i], path + (i,), out)
    elif k == "option":
        if v is not None:
            walk(t.item, v, path + (0,), out)
    elif k == "union":
        walk(t.items[v[0]], v[1], path + (1,), out)
    return out


def child_type(t, v, i):
    k = t.kind
    if k in ("array", "fixvec", "dynvec", "option"):
        return t.item
    if k in ("struct", "table"):
        return t.fields[i][1]
    if k == "union":
        return t.items[v[0]]
    raise AssertionError(k)


def replace(t, v, path, fn):
    """New value where the node at `path` is fn(type, old)."""
    if not path:
        return fn(t, v)
    i = path[0]
    k = t.kind
    if k == "option":
        return replace(t.item, v, path[1:], fn)
    if k == "union":
        return (v[0], replace(t.items[v[0]], v[1], path[1:], fn))
    ct = child_type(t, v, i)
    nv = list(v)
    nv[i] = replace(ct, v[i], path[1:], fn)
    return nv


def get(t, v, path):
    for i in path:
        k = t.kind
        if k == "option":
            t = t.item
        elif k == "union":
            t, v = t.items[v[0]], v[1]
        else:
            t, v = child_type(t, v, i), v[i]
    return t, v


def field_index(t, name):
    for i, (fn, _) in enumerate(t.fields):
        if fn == name:
            return i
    raise KeyError(name)


# --------------------------------------------------------------------------------------------
# value-level mutations (result is still canonical/valid unless noted)
# --------------------------------------------------------------------------------------------
def mut_field(t, v, rng, under=None, not_root=True):
    """Regenerate one node (optionally restricted to paths starting with `under`)."""
    nodes = walk(t, v, (), [])
    cands = [(p, nt) for p, nt in nodes
             if (not not_root or p) and (under is None or p[:len(under)] == under)]
    if not cands:
        return None
    old = m.encode(t, v)
    for _ in range(12):
        p, nt = rng.choice(cands)
        nv = replace(t, v, p, lambda tt, _o: gen_value(tt, rng, Budget(rng.choice((40, 300)))))
        if m.encode(t, nv) != old:
            return nv
    return None


def _vec_nodes(t, v, under=None, min_len=0):
    out = []
    for p, nt in walk(t, v, (), []):
        if nt.kind in ("fixvec", "dynvec") and nt.item.kind != "byte":
            if under is not None and p[:len(under)] != under:
                continue
            if len(get(t, v, p)[1]) >= min_len:
                out.append((p, nt))
    return out


def mut_swap(t, v, rng, under=None):
    cands = _vec_nodes(t, v, under, 2)
    rng.shuffle(cands)
    for p, nt in cands:
        items = get(t, v, p)[1]
        enc = [m.encode(nt.item, x) for x in items]
        pairs = [(i, j) for i in range(len(items)) for j in range(i + 1, len(items))
                 if enc[i] != enc[j]]
        if not pairs:
            continue
        i, j = rng.choice(pairs[:200])

        def f(_t, old):
            nv = list(old)
            nv[i], nv[j] = nv[j], nv[i]
            return nv
        return replace(t, v, p, f)
    return None


def mut_dup(t, v, rng, under=None):
    cands = _vec_nodes(t, v, under, 1)
    if not cands:
        return None
    p, nt = rng.choice(cands)
    items = get(t, v, p)[1]
    i = rng.randrange(len(items))

    def f(_t, old):
        nv = list(old)
        nv.insert(rng.randrange(len(nv) + 1), old[i])
        return nv
    return replace(t, v, p, f)


def mut_drop(t, v, rng, under=None):
    cands = _vec_nodes(t, v, under, 1)
    if not cands:
        return None
    p, nt = rng.choice(cands)
    items = get(t, v, p)[1]
    i = rng.randrange(len(items))

    def f(_t, old):
        nv = list(old)
        del nv[i]
        return nv
    return replace(t, v, p, f)


def mut_extra(t, v, rng, junk=False):
    """Append extra (opaque) fields to a random table node: compatible-valid, strict-invalid."""
    tabs = [(p, nt) for p, nt in walk(t, v, (), []) if nt.kind == "table"]
    if not tabs:
        return None
    p, nt = rng.choice(tabs) if rng.random() < 0.6 else tabs[0]

    def extra():
        r = rng.random()
        if r < 0.3:
            return b""
        if r < 0.6:
            d = rng.randbytes(rng.choice((0, 1, 5, 32)))
            return U32.pack(len(d)) + d  # a valid Bytes
        return rng.randbytes(rng.choice((1, 2, 3, 4, 7, 16)))

    def f(_t, old):
        return list(old) + [extra() for _ in range(rng.choice((1, 1, 1, 2, 3)))]
    return replace(t, v, p, f)


# --------------------------------------------------------------------------------------------
# byte-level mutations (may break validity)
# --------------------------------------------------------------------------------------------
def mut_flip(b, rng):
    if not b:
        return None
    b = bytearray(b)
    for _ in range(rng.choice((1, 1, 1, 2, 4))):
        i = rng.randrange(len(b))
        r = rng.random()
        if r < 0.5:
            b[i] ^= 1 << rng.randrange(8)
        elif r < 0.8:
            b[i] = rng.randrange(256)
        else:
            b[i] = rng.choice((0, 255, 0x80, 4))
    return bytes(b)


def mut_header(t, b, rng):
    pos = m.header_positions(t, b)
    if not pos:
        return None
    p = rng.choice(pos)
    old = U32.unpack_from(b, p)[0]
    n = len(b)
    new = rng.choice((0, 1, 3, 4, 8, 0xFFFFFFFF, 0x7FFFFFFF, 0x80000000, old + 1, old - 1,
                      old + 4, old - 4, n, n + 1, n - 1, old ^ (1 << rng.randrange(32)),
                      old * 2, 0xFFFFFFFC)) & 0xFFFFFFFF
    if new == old:
        new = (old + 1) & 0xFFFFFFFF
    return b[:p] + U32.pack(new) + b[p + 4:]


def mut_trunc(b, rng):
    if not b:
        return None
    k = rng.choice((1, 1, 2, 3, 4, rng.randrange(1, len(b) + 1)))
    return b[:max(0, len(b) - k)]


def mut_extend(b, rng):
    k = rng.choice((1, 1, 2, 3, 4, 8, rng.randrange(1, 64)))
    return b + (rng.randbytes(k) if rng.random() < 0.6 else bytes(k))


def mut_fix_total(b, rng):
    """After a length-changing mutation, patch the leading total-size so that deeper checks are
    reached."""
    if len(b) < 4:
        return None
    return U32.pack(len(b)) + b[4:]


def random_bytes_case(t, rng):
    r = rng.random()
    if r < 0.3:
        return rng.randbytes(rng.choice((0, 1, 3, 4, 5, 8, 12, 16, 36, 64)))
    n = rng.choice((4, 8, 12, 16, 20, 24, 32, 44, 64, 100, 208, 300))
    body = bytearray(rng.randbytes(n))
    # plausible leading header
    if r < 0.6:
        body[0:4] = U32.pack(n)
    elif r < 0.8 and n >= 8:
        body[0:4] = U32.pack(n)
        k = rng.choice((1, 2, 3, 4, 5, 6))
        for i in range(k):
            if 4 + 4 * i + 4 <= n:
                body[4 + 4 * i:8 + 4 * i] = U32.pack(min(n, 4 * (k + 1) + rng.choice((0, 0, 4, 8)) * i))
    else:
        body[0:4] = U32.pack(rng.choice((0, 1, 2, 3, 8, (n - 4) // 4, 0xFFFFFFFF)))
    return bytes(body)


# --------------------------------------------------------------------------------------------
# case writer
# --------------------------------------------------------------------------------------------
class Writer:
    def __init__(self, f, types, label):
        self.f = f
        self.types = types
        self.label = label
        self.n = 0
        self.kinds = {}

    def put(self, tname, kind, b, base="-"):
        t = self.types[tname]
        if self.label:
            s = "1" if m.valid(t, b) else "0"
            c = "1" if m.valid(t, b, compat=True) else "0"
        else:
            s = c = "-"
        cid = self.n
        self.n += 1
        self.kinds[kind] = self.kinds.get(kind, 0) + 1
        self.f.write("%d %s %s %s %s %s %s\n" % (cid, tname, kind, s, c, base, b.hex() or "-"))
        return cid


def pick_budget(rng, big):
    r = rng.random()
    if r < 0.45:
        return rng.randint(16, 300)
    if r < 0.85:
        return rng.randint(300, 3000)
    if r < 0.985:
        return min(big, rng.randint(3000, 30000))
    return rng.randint(min(30000, big), big)


def emit_valid(w, tname, rng, big):
    t = w.types[tname]
    bud = pick_budget(rng, big)
    if tname in BULKY:
        bud = min(big, bud * 10)
    v = gen_value(t, rng, Budget(bud))
    b = m.encode(t, v)
    # oracle self-consistency (a failure here is a bug of the oracle, never of the code under test)
    if not m.valid(t, b) or not m.valid(t, b, compat=True):
        raise RuntimeError("oracle: generated value not valid for %s" % tname)
    if len(b) < 20000:
        if m.decode(t, b) != v or m.encode(t, m.decode(t, b)) != b:
            raise RuntimeError("oracle: decode/encode not inverse for %s" % tname)
    cid = w.put(tname, "valid", b)
    return t, v, b, cid


VALUE_MUTS = (("field", mut_field), ("swap", mut_swap), ("dup", mut_dup), ("drop", mut_drop))


def emit_generic_mutants(w, tname, t, v, b, cid, rng, n_mut, hostile):
    for _ in range(n_mut):
        r = rng.random()
        nb = None
        kind = None
        if r < 0.22:
            kind, fn = rng.choice(VALUE_MUTS)
            nv = fn(t, v, rng)
            if nv is not None:
                nb = m.encode(t, nv)
        elif r < 0.34:
            kind = "extra"
            nv = mut_extra(t, v, rng)
            if nv is not None:
                nb = m.encode(t, nv)
                if hostile and rng.random() < 0.5:
                    x = mut_flip(nb, rng) if rng.random() < 0.5 else mut_header(t, b, rng)
                    if x is not None:
                        kind, nb = "extra+", x
        elif r < 0.56:
            kind, nb = "flip", mut_flip(b, rng)
        elif r < 0.80:
            kind, nb = "header", mut_header(t, b, rng)
        elif r < 0.90:
            kind, nb = "trunc", mut_trunc(b, rng)
            if nb is not None and rng.random() < 0.5:
                x = mut_fix_total(nb, rng)
                if x is not None:
                    kind, nb = "trunc+fix", x
        else:
            kind, nb = "extend", mut_extend(b, rng)
            if rng.random() < 0.5:
                x = mut_fix_total(nb, rng)
                if x is not None:
                    kind, nb = "extend+fix", x
        if nb is None or nb == b:
            continue
        if hostile and rng.random() < 0.25:
            # stack a second byte-level mutation
            x = rng.choice((mut_flip, mut_trunc, mut_extend))(nb, rng)
            if x is not None:
                nb = x
                kind += "+2"
        w.put(tname, kind, nb, cid)


def emit_tx_hash_mutants(w, t, v, cid, rng):
    """Transaction: non-witness mutations and witness-only mutations (hash relation checks)."""
    for kind, under in (("tx_nonwit", (0,)), ("tx_wit", (1,))):
        for fn in (mut_field, rng.choice((mut_swap, mut_dup, mut_drop))):
            if fn is mut_field:
                nv = mut_field(t, v, rng, under=under, not_root=True)
            else:
                nv = fn(t, v, rng, under=under)
            if nv is None:
                continue
            w.put(t.name, kind, m.encode(t, nv), cid)


def emit_block_hash_mutants(w, types, t, v, cid, rng):
    """Block / BlockV1: transactions root, proposals hash, extra hash binding mutations."""
    tname = t.name
    I_UNCLES, I_TXS, I_PROPS = 1, 2, 3
    txs = v[I_TXS]
    txt = types["Transaction"]
    enc = [m.encode(txt, x) for x in txs]
    # reorder two different transactions
    pairs = [(i, j) for i in range(len(txs)) for j in range(i + 1, len(txs)) if enc[i] != enc[j]]
    if pairs:
        i, j = rng.choice(pairs)
        nv = list(v)
        nt = list(txs)
        nt[i], nt[j] = nt[j], nt[i]
        nv[I_TXS] = nt
        w.put(tname, "blk_reorder", m.encode(t, nv), cid)
    if txs:
        i = rng.randrange(len(txs))
        for kind, under in (("blk_txcontent", (I_TXS, i, 0)), ("blk_txwit", (I_TXS, i, 1))):
            nv = mut_field(t, v, rng, under=under)
            if nv is not None:
                w.put(tname, kind, m.encode(t, nv), cid)
    # add / drop a transaction
    nv = (mut_dup if rng.random() < 0.5 else mut_drop)(t, v, rng, under=(I_TXS,))
    if nv is not None and len(nv[I_TXS]) != len(txs):
        w.put(tname, "blk_txcount", m.encode(t, nv), cid)
    # proposals: content, order, count
    for fn in (mut_field, mut_swap, rng.choice((mut_dup, mut_drop))):
        nv = fn(t, v, rng, under=(I_PROPS,)) if fn is not mut_field else \
            mut_field(t, v, rng, under=(I_PROPS,), not_root=True)
        if nv is not None and m.encode(types["ProposalShortIdVec"], nv[I_PROPS]) != \
                m.encode(types["ProposalShortIdVec"], v[I_PROPS]):
            w.put(tname, "blk_proposals", m.encode(t, nv), cid)
    # uncles: header content of one uncle, order, count (uncle proposals are bound by the
    # uncle's own header, not by the uncles hash)
    uncles = v[I_UNCLES]
    if uncles:
        i = rng.randrange(len(uncles))
        nv = mut_field(t, v, rng, under=(I_UNCLES, i, 0))
        if nv is not None:
            w.put(tname, "blk_uncles", m.encode(t, nv), cid)
    ut = types["UncleBlock"]
    hdrs = [m.encode(ut.fields[0][1], u[0]) for u in uncles]
    pairs = [(i, j) for i in range(len(uncles)) for j in range(i + 1, len(uncles))
             if hdrs[i] != hdrs[j]]
    if pairs:
        i, j = rng.choice(pairs)
        nv = list(v)
        nu = list(uncles)
        nu[i], nu[j] = nu[j], nu[i]
        nv[I_UNCLES] = nu
        w.put(tname, "blk_uncles", m.encode(t, nv), cid)
    nv = list(v)
    nu = list(uncles)
    if nu and rng.random() < 0.5:
        del nu[rng.randrange(len(nu))]
    else:
        nu.insert(rng.randrange(len(nu) + 1), gen_value(ut, rng, Budget(300)))
    nv[I_UNCLES] = nu
    w.put(tname, "blk_uncles", m.encode(t, nv), cid)
    # extension: content (BlockV1), presence (Block <-> BlockV1)
    if tname == "BlockV1":
        ext = v[4]
        ne = ext
        while ne == ext:
            ne = rng.randbytes(rng.choice((0, 1, 32, 33, 96)))
        nv = list(v)
        nv[4] = ne
        w.put("BlockV1", "blk_ext", m.encode(t, nv), cid)
        w.put("Block", "blk_dropext", m.encode(types["Block"], v[:4]), cid)
    else:
        ne = rng.randbytes(rng.choice((0, 1, 32, 96)))
        w.put("BlockV1", "blk_addext", m.encode(types["BlockV1"], list(v[:4]) + [ne]), cid)


# type weights: consensus / message roots get more cases than leaf helper types
HEAVY = ("Block", "BlockV1", "Transaction", "Header", "UncleBlock", "CompactBlock",
         "CompactBlockV1", "SyncMessage", "RelayMessage", "LightClientMessage",
         "BlockFilterMessage", "Script", "CellOutput", "RawTransaction", "SendBlock",
         "BlockTransactions", "RelayTransactions", "SendLastStateProof", "SendBlocksProofV1",
         "SendTransactionsProofV1", "Alert", "DiscoveryMessage", "IdentifyMessage",
         "HolePunchingMessage", "PingMessage", "Time", "Identify", "InIBD", "WitnessArgs",
         "CellbaseWitness")


BULKY = ("Block", "BlockV1", "SendBlock", "SyncMessage", "RelayMessage", "CompactBlock",
         "CompactBlockV1", "BlockTransactions", "LightClientMessage", "TransactionVec",
         "UncleBlockVec", "FilteredBlock", "SendTransactionsProofV1", "SendTransactionsProof")


def type_schedule(types, rng, count):
    """Every type gets a share; heavy types get 4x. Returns a list of type names whose valid
    values sum up to ~count cases together with their mutants."""
    names = list(types)
    weights = [4 if n in HEAVY else 1 for n in names]
    return names, weights


def cmd_gen(types, opts):
    mode = opts.get("mode", "codec")
    seed = int(opts.get("seed", "1"))
    count = int(opts.get("count", "1000"))
    big = int(opts.get("big", "60000"))
    out = opts["out"]
    hostile = mode == "hostile"
    rng = random.Random((seed * 1000003) ^ (0x5eed if hostile else 0xc0dec))
    names, weights = type_schedule(types, rng, count)
    only = opts.get("only")
    if only:
        keep = set(only.split(","))
        pairs = [(n, w) for n, w in zip(names, weights) if n in keep]
        names = [n for n, _ in pairs]
        weights = [w for _, w in pairs]
    with open(out, "w") as f:
        w = Writer(f, types, label=not hostile)
        # first pass guarantees every type appears at least once per file
        order = list(names)
        rng.shuffle(order)
        qi = 0
        while w.n < count:
            if qi < len(order):
                tname = order[qi]
                qi += 1
            else:
                tname = rng.choices(names, weights)[0]
            t, v, b, cid = emit_valid(w, tname, rng, big)
            n_mut = rng.choice((1, 2, 3, 4)) if not hostile else rng.choice((3, 5, 8))
            emit_generic_mutants(w, tname, t, v, b, cid, rng, n_mut, hostile)
            if tname == "Transaction":
                emit_tx_hash_mutants(w, t, v, cid, rng)
            elif tname in ("Block", "BlockV1"):
                emit_block_hash_mutants(w, types, t, v, cid, rng)
            if hostile or rng.random() < 0.15:
                for _ in range(rng.choice((1, 2)) if not hostile else rng.choice((1, 2, 4))):
                    w.put(tname, "random", random_bytes_case(t, rng))
        f.write("# end %d\n" % w.n)
    sys.stdout.write(json.dumps({"cases": w.n, "kinds": w.kinds, "types": len(names)}) + "\n")
    return 0


# --------------------------------------------------------------------------------------------
# hash verification: recompute every hash the Rust side printed
# --------------------------------------------------------------------------------------------
def cmd_verify(types, opts):
    cases = {}
    with open(opts["cases"]) as f:
        for line in f:
            if line.startswith("#"):
                continue
            p = line.split()
            cases[p[0]] = (p[1], p[6])
    checked = 0
    records = 0
    by_key = {}
    problems = 0
    out = sys.stdout
    with open(opts["hashes"]) as f:
        for line in f:
            line = line.strip()
            if not line:
                continue
            rec = json.loads(line)
            records += 1
            if "id" in rec:
                tname, hx = cases[str(rec["id"])]
            else:
                tname, hx = rec["type"], rec["hex"]
            b = bytes.fromhex(hx) if hx != "-" else b""
            t = types[tname]
            # Block records may carry an extension as an extra field (BlockV1 as_v0)
            ok = m.valid(t, b) or (tname == "Block" and m.valid(types["BlockV1"], b))
            # records of values only the compatible reader accepts (trailing fields of a later schema)
            if not ok and "(compatible)" in rec.get("src", ""):
                ok = m.valid(t, b, compat=True)
            if not ok:
                out.write(json.dumps({"error": "oracle got hashes for a value it rejects",
                                      "type": tname, "hex": hx[:200]}) + "\n")
                problems += 1
                continue
            exp = m.expected_hashes(tname, b)
            got = rec["h"]
            for k, gv in got.items():
                if k not in exp:
                    out.write(json.dumps({"error": "unknown hash key", "type": tname, "key": k}) + "\n")
                    problems += 1
                    continue
                checked += 1
                by_key[tname + "." + k] = by_key.get(tname + "." + k, 0) + 1
                if exp[k].hex() != gv:
                    out.write(json.dumps({"mismatch": "%s.%s" % (tname, k), "type": tname,
                                          "src": rec.get("src", "packed"),
                                          "expected": exp[k].hex()[:128], "actual": gv[:128],
                                          "hex": hx if len(hx) < 4000 else hx[:4000] + "...",
                                          "id": rec.get("id")}) + "\n")
            for k in exp:
                if k not in got:
                    out.write(json.dumps({"error": "hash not reported by rust", "type": tname,
                                          "key": k}) + "\n")
                    problems += 1
    out.write(json.dumps({"summary": {"records": records, "checked": checked,
                                      "problems": problems, "by_key": by_key}}) + "\n")
    return 0
