#!/usr/bin/env python3
"""Offline checker for C06 (rewards, fee split, DAO field, conservation of capacity).

Input : JSONL written by /verif/harness/vecon (one `params` record, then one `block` record
        per block the builder node accepted -- parents always before children, forks
        included --, and `judge` records naming the tips whose chain was B's main chain).
Output: one JSON summary on stdout:
        {"checked": {rule: n}, "counts": {...}, "mismatch_counts": {rule: n},
         "mismatches": [{rule, block, hash, expected, actual, detail}], "assumptions": [...]}

Everything is recomputed with exact Python integers from the rules of
  RFC-0015 (crypto-economics: primary/secondary issuance, state rent via secondary issuance),
  RFC-0019/0020 (two-step confirmation: proposal window w_close..w_far, proposer/committer
                 split of the fee, reward finalised w_far+1 blocks later),
  RFC-0023 (NervosDAO: dao field C/AR/S/U recurrence, withdraw = counted*AR_w/AR_d + occupied),
  RFC-0002 (cell occupied capacity).
No code is shared with the Rust calculators.  Every block is judged in the context of its
own ancestors (each block has exactly one ancestor path, so each block is judged once even
when many forks exist).
"""
import json
import sys

SHANNON = 10 ** 8
GENESIS_AR = 10 ** 16
MAX_LISTED_PER_RULE = 5

P = None  # params record
blocks = {}  # hash -> record (with computed '_' fields)
checked = {}
counts = {}
mismatch_counts = {}
mismatches = []
assumptions = [
    "secondary miner share of block t = floor(g2(t) * U(t-1) / C(t-1)) with U, C read from the header of t's parent "
    "(RFC-0023: S_i = S_{i-1} - I_i + s_i - floor(s_i*U_{i-1}/C_{i-1}); the part not added to S is the miner's)",
    "the first `remainder` blocks of an epoch carry one extra shannon of primary reward and the first "
    "`secondary_epoch_reward mod length` blocks one extra shannon of secondary issuance (RFC-0015 does not say which "
    "blocks get the remainder; taken from the EpochExt documentation)",
    "a finalised reward smaller than the occupied capacity of its own output cell (8 + lock bytes) is not paid: the "
    "cellbase then has no output (not in the RFCs; taken from RewardVerifier)",
    "proposer share = floor(fee*4/10) goes to the earliest main-chain block (own proposals or its uncles') inside "
    "[commit - w_far, commit - w_close]; committer share = fee - proposer share",
    "the occupied capacity of a withdrawing cell is computed on the spent (phase-1) cell: same lock/type/data sizes as "
    "the deposit cell by the dao script's rules",
]


def chk(rule, n=1):
    checked[rule] = checked.get(rule, 0) + n


def cnt(key, n=1):
    counts[key] = counts.get(key, 0) + n


def mismatch(rule, rec, expected, actual, detail=""):
    mismatch_counts[rule] = mismatch_counts.get(rule, 0) + 1
    listed = sum(1 for m in mismatches if m["rule"] == rule)
    if listed < MAX_LISTED_PER_RULE:
        mismatches.append({
            "rule": rule, "block": rec["number"], "hash": rec["hash"],
            "expected": expected, "actual": actual, "detail": detail,
        })


def le64(hexstr, i):
    return int.from_bytes(bytes.fromhex(hexstr)[8 * i:8 * i + 8], "little")


def dao_fields(hexstr):
    # RFC-0023: the 32-byte dao field is C | AR | S | U, four little-endian u64
    return le64(hexstr, 0), le64(hexstr, 1), le64(hexstr, 2), le64(hexstr, 3)


def occupied(lock_args_len, type_args_len, data_len):
    # RFC-0002: capacity (8) + lock (code_hash 32 + hash_type 1 + args) + optional type + data, in bytes = CKB
    n = 8 + 32 + 1 + lock_args_len + data_len
    if type_args_len is not None:
        n += 32 + 1 + type_args_len
    return n * SHANNON


def script_args_len(script_hex):
    # molecule table Script{code_hash, hash_type, args}: u32 total, 3 x u32 offsets, fields
    b = bytes.fromhex(script_hex)
    off2 = int.from_bytes(b[12:16], "little")
    return int.from_bytes(b[off2:off2 + 4], "little")


def primary_of(rec):
    e = rec["epoch_ext"]
    return e["base_reward"] + (1 if rec["number"] - e["start"] < e["remainder"] else 0)


def g2_of(rec):
    e = rec["epoch_ext"]
    # the genesis block was built with the chain spec's value; later blocks use the consensus value in force
    s = P["genesis_secondary_epoch_reward"] if rec["number"] == 0 else P["secondary_epoch_reward"]
    return s // e["length"] + (1 if rec["number"] - e["start"] < s % e["length"] else 0)


def ancestor(rec, number):
    """Block at `number` on the chain of `rec` (number <= rec.number)."""
    d = rec["number"] - number
    anc = rec["_anc"]
    if d < len(anc):
        return blocks[anc[d]]
    cur = blocks[anc[-1]]
    while cur["number"] > number:
        cur = blocks[cur["parent"]]
    return cur


def input_occupied(i):
    if i.get("satoshi"):
        r = P["satoshi"]["ratio"]
        return i["capacity"] * r[0] // r[1]
    return occupied(i["lock_args_len"], i["type_args_len"], i["data_len"])


def is_withdrawing_input(i):
    # RFC-0023: a NervosDAO cell whose 8-byte data is a non-zero block number is in the withdrawing state
    return i.get("dao") and i["data_len"] == 8 and int.from_bytes(bytes.fromhex(i["data"]), "little") > 0


def withdraw_index(witness_hex):
    """input_type of a molecule WitnessArgs{lock, input_type, output_type} as u64 (None if absent)."""
    b = bytes.fromhex(witness_hex)
    if len(b) < 16:
        return None
    o1 = int.from_bytes(b[8:12], "little")
    o2 = int.from_bytes(b[12:16], "little")
    f = b[o1:o2]
    if len(f) != 12:
        return None
    return int.from_bytes(f[4:12], "little")


def tx_economics(rec, ti, tx):
    """(sum of input capacities, maximum withdraw, sum of outputs, occupied in, occupied out) of a committed tx."""
    in_cap = 0
    max_w = 0
    occ_in = 0
    for ii, i in enumerate(tx["inputs"]):
        if i.get("unknown"):
            mismatch("model.unknown_input", rec, "spent cell known to the model", "unknown", "tx %s input %d" % (tx["hash"], ii))
            continue
        in_cap += i["capacity"]
        occ_in += input_occupied(i)
        if is_withdrawing_input(i):
            occ = occupied(i["lock_args_len"], i["type_args_len"], i["data_len"])
            wd = blocks.get(i["created_hash"])
            idx = withdraw_index(tx["witnesses"][ii]) if ii < len(tx["witnesses"]) else None
            dep = None
            if idx is not None and idx < len(tx["header_deps"]):
                dep = blocks.get(tx["header_deps"][idx]["hash"])
            if wd is None or dep is None:
                mismatch("withdraw.headers_unresolved", rec, "deposit and withdraw headers", "missing", "tx %s" % tx["hash"])
                max_w += i["capacity"]
                continue
            stored = int.from_bytes(bytes.fromhex(i["data"]), "little")
            chk("withdraw.deposit_header")
            if dep["number"] != stored or not any(h["hash"] == wd["hash"] for h in tx["header_deps"]):
                mismatch("withdraw.wrong_headers", rec, stored, dep["number"], "tx %s" % tx["hash"])
            ar_d = dep["_dao"][1]
            ar_w = wd["_dao"][1]
            m = occ + (i["capacity"] - occ) * ar_w // ar_d
            max_w += m
            cnt("dao_interest_paid_shannons", m - i["capacity"])
            # lock period: since must be an absolute epoch >= deposit epoch + k*180
            chk("withdraw.since")
            de, we = dep["epoch"], wd["epoch"]
            deposited = we["number"] - de["number"]
            if we["index"] * de["length"] > de["index"] * we["length"]:
                deposited += 1
            period = P["dao_lock_period_epochs"]
            lock_epochs = max(period, -(-deposited // period) * period)
            since = i["since"]
            s_flag, s_len, s_idx, s_num = since >> 56, (since >> 40) & 0xFFFF, (since >> 24) & 0xFFFF, since & 0xFFFFFF
            need_num = de["number"] + lock_epochs
            ok = s_flag == 0x20 and (s_num > need_num or (s_num == need_num and s_idx * de["length"] >= de["index"] * s_len))
            be = rec["epoch"]
            ok = ok and (be["number"] > s_num or (be["number"] == s_num and be["index"] * s_len >= s_idx * be["length"]))
            if not ok:
                mismatch("withdraw.lock_period_not_respected", rec, "epoch >= %d+%d" % (de["number"], lock_epochs), hex(since), "tx %s" % tx["hash"])
            if lock_epochs > period:
                cnt("dao_phase2_second_period")
        else:
            max_w += i["capacity"]
    out_cap = sum(o["capacity"] for o in tx["outputs"])
    occ_out = sum(occupied(o["lock_args_len"], o["type_args_len"], o["data_len"]) for o in tx["outputs"])
    return in_cap, max_w, out_cap, occ_in, occ_out


def union_proposals(rec):
    s = set(rec["proposals"])
    for u in rec["uncles"]:
        s.update(u["proposals"])
    return s


def check_genesis(rec):
    rec["_anc"] = [rec["hash"]]
    rec["_dao"] = dao_fields(rec["dao"])
    rec["_P"] = set()
    rec["_fees"] = []
    rec["_earliest"] = []
    rec["_skipped"] = 0
    rec["_cb_delta"] = 0
    rec["_primary"] = primary_of(rec)
    rec["_g2"] = g2_of(rec)
    rec["_miner2"] = 0
    C, AR, S, U = rec["_dao"]
    ge = P["genesis_epoch"]
    chk("epoch.primary_reward")
    if ge["base_reward"] * ge["length"] + ge["remainder"] != P["initial_primary_epoch_reward"]:
        mismatch("epoch.primary_reward_mismatch", rec, P["initial_primary_epoch_reward"], ge["base_reward"] * ge["length"] + ge["remainder"], "genesis epoch")
    # RFC-0023 genesis: C_0 = capacity of all genesis cells + p_0 + s_0, AR_0 = 10^16, S_0 = s_0, U_0 = occupied
    chk("dao.genesis")
    exp = (rec["live_capacity"] + rec["_primary"] + rec["_g2"], GENESIS_AR, rec["_g2"], rec["live_occupied"])
    for name, e, a in zip("C AR S U".split(), exp, rec["_dao"]):
        if e != a:
            mismatch("dao.genesis_%s_mismatch" % name, rec, e, a, "genesis dao field")
    chk("cellbase.no_target")
    cnt("blocks_judged")


def check_block(rec):
    n = rec["number"]
    parent = blocks.get(rec["parent"])
    if parent is None:
        raise SystemExit("block %s: parent not seen" % rec["hash"])
    w_close, w_far = P["w_close"], P["w_far"]
    delay = w_far + 1  # RFC-0020: the reward of block i is issued by block i + w_far + 1
    keep = 2 * w_far + 4
    rec["_anc"] = ([rec["hash"]] + parent["_anc"])[:keep]
    rec["_dao"] = dao_fields(rec["dao"])
    rec["_P"] = union_proposals(rec)
    cnt("blocks_judged")
    if any(u["proposals"] for u in rec["uncles"]):
        cnt("blocks_with_uncle_proposals")
    if rec["uncles"]:
        cnt("blocks_with_uncles")

    # ---- epoch bookkeeping -----------------------------------------------------------
    e, pe = rec["epoch_ext"], parent["epoch_ext"]
    chk("epoch.sequence")
    if n < pe["start"] + pe["length"]:
        if e != pe:
            mismatch("epoch.changed_inside_epoch", rec, pe, e)
    else:
        cnt("epochs_crossed")
        if e["number"] != pe["number"] + 1 or e["start"] != pe["start"] + pe["length"]:
            mismatch("epoch.bad_successor", rec, {"number": pe["number"] + 1, "start": pe["start"] + pe["length"]}, e)
        # RFC-0015: the primary epoch reward halves every `halving_interval` epochs
        chk("epoch.primary_reward")
        halvings = e["number"] // P["halving_interval"]
        want = P["initial_primary_epoch_reward"] >> halvings if halvings < 64 else 0
        got = e["base_reward"] * e["length"] + e["remainder"]
        if want != got or e["remainder"] >= e["length"]:
            mismatch("epoch.primary_reward_mismatch", rec, want, got, "epoch %d, %d halvings" % (e["number"], halvings))
        if e["number"] % P["halving_interval"] == 0:
            cnt("halvings_seen")
    he = rec["epoch"]
    if (he["number"], he["index"], he["length"]) != (e["number"], n - e["start"], e["length"]):
        mismatch("epoch.header_fraction_mismatch", rec, [e["number"], n - e["start"], e["length"]], he)
    primary = primary_of(rec)
    g2 = g2_of(rec)
    rec["_primary"], rec["_g2"] = primary, g2
    if n - e["start"] < e["remainder"]:
        cnt("blocks_with_remainder_reward")

    # ---- fees of the committed transactions, occupied capacity deltas, DAO interest -----
    pC, pAR, pS, pU = parent["_dao"]
    fees = []
    occ_in_total = 0
    occ_out_total = 0
    interest = 0
    for ti, tx in enumerate(rec["txs"]):
        in_cap, max_w, out_cap, occ_in, occ_out = tx_economics(rec, ti, tx)
        occ_in_total += occ_in
        occ_out_total += occ_out
        interest += max_w - in_cap
        fee = max_w - out_cap
        has_withdraw = any(is_withdrawing_input(i) for i in tx["inputs"] if not i.get("unknown"))
        if has_withdraw:
            cnt("dao_phase2_committed")
            chk("withdraw.at_most_maximum")
            if out_cap > max_w:
                mismatch("withdraw.exceeds_maximum", rec, max_w, out_cap, "tx %s" % tx["hash"])
            if tx.get("asked_max"):
                cnt("dao_phase2_asked_max")
                chk("withdraw.exact_maximum")
                if out_cap != max_w:
                    mismatch("withdraw.interest_mismatch", rec, max_w, out_cap, "generator asked for the maximum, tx %s" % tx["hash"])
        elif any(i.get("dao") for i in tx["inputs"] if not i.get("unknown")):
            cnt("dao_phase1_committed")
        elif any(o["dao"] for o in tx["outputs"]):
            cnt("dao_deposits_committed")
        if fee < 0:
            mismatch("tx.negative_fee", rec, ">= 0", fee, "tx %s" % tx["hash"])
            fee = 0
        fees.append(fee)
        if fee > 0:
            cnt("fees_nonzero")
    rec["_fees"] = fees
    stored = rec.get("txs_fees")
    chk("ext.txs_fees")
    if stored is None:
        mismatch("ext.txs_fees_missing", rec, fees, None)
    elif stored != fees:
        dao_tx = any(any(is_withdrawing_input(i) for i in tx["inputs"] if not i.get("unknown")) and a != b
                     for tx, a, b in zip(rec["txs"], fees, stored)) if len(stored) == len(fees) else False
        mismatch("withdraw.interest_mismatch" if dao_tx else "ext.txs_fees_mismatch", rec, fees, stored,
                 "BlockExt.txs_fees vs fees recomputed from the model's spent cells")

    # ---- earliest in-window proposer of every committed transaction (RFC-0020) ----------
    earliest = []
    for ti, tx in enumerate(rec["txs"]):
        first = None
        proposers = 0
        for b in range(max(1, n - w_far), n - w_close + 1):
            blk = ancestor(rec, b)
            if tx["id"] in blk["_P"]:
                proposers += 1
                if first is None:
                    first = b
        chk("commit.in_window")
        if first is None:
            mismatch("commit.not_proposed_in_window", rec, "proposed in [%d,%d]" % (n - w_far, n - w_close), "not found", "tx %s" % tx["hash"])
        else:
            cnt("commit_offset.w%d_%d.%d" % (w_close, w_far, n - first))
            pb = ancestor(rec, first)
            if pb["cellbase"]["witness_lock"] != rec["cellbase"]["witness_lock"]:
                cnt("fees_paid_proposer_ne_committer_miner")
            if tx["id"] not in pb["proposals"]:
                cnt("fees_first_proposed_in_uncle")
            if proposers > 1:
                cnt("reproposals_in_window")
                cnt("reproposals_not_paid", proposers - 1)
        earliest.append(first)
    rec["_earliest"] = earliest

    # ---- (1) cellbase: reward of the block finalised here --------------------------------
    outs = rec["cellbase"]["outputs"]
    actual = sum(o["capacity"] for o in outs)
    rec["_skipped"] = parent["_skipped"]
    rec["_cb_delta"] = parent["_cb_delta"]
    rn, rd = P["proposer_ratio"]
    if n <= delay:
        chk("cellbase.no_target")
        if outs:
            mismatch("cellbase.output_without_target", rec, [], outs, "blocks 1..w_far+1 finalise nothing")
    else:
        t = n - delay
        T = ancestor(rec, t)
        tp = ancestor(rec, t - 1)
        tC, _, _, tU = tp["_dao"]
        secondary = T["_g2"] * tU // tC
        committer = sum(f - f * rn // rd for f in T["_fees"])
        proposer = 0
        proposer_nodedup = 0
        proposer_not_last = 0
        n_prop = 0
        for c in range(t + w_close, t + w_far + 1):
            cb = ancestor(rec, c)
            for tx, f, first in zip(cb["txs"], cb["_fees"], cb["_earliest"]):
                if tx["id"] in T["_P"]:
                    share = f * rn // rd
                    proposer_nodedup += share
                    if first == t:
                        proposer += share
                        n_prop += 1
                        if c != t + w_far:
                            proposer_not_last += share
        expected = T["_primary"] + secondary + committer + proposer
        lock = T["cellbase"]["witness_lock"]
        min_cap = (8 + 32 + 1 + script_args_len(lock)) * SHANNON if lock else 0
        chk("cellbase.amount")
        if committer or proposer:
            cnt("cellbase_with_fee_shares")
        if n_prop:
            cnt("cellbase_with_proposer_share")
        ctx = "target #%d: primary %d + secondary %d (g2 %d, U %d, C %d of #%d) + committer %d + proposer %d" % (
            t, T["_primary"], secondary, T["_g2"], tU, tC, t - 1, committer, proposer)
        if expected < min_cap:
            cnt("cellbase_insufficient_reward")
            rec["_skipped"] += expected
            if outs:
                mismatch("cellbase.output_despite_insufficient_reward", rec, [], outs, ctx)
        else:
            cnt("cellbase_paid_reward")
            if actual != expected or len(outs) != 1:
                base = T["_primary"] + secondary + committer
                if t == 1 and proposer_not_last > 0 and actual == expected - proposer_not_last:
                    rule = "cellbase.amount_mismatch@target_block_1_proposer_share_dropped"
                elif actual == base + proposer_nodedup and len(outs) == 1:
                    rule = "proposer_share.paid_twice"
                elif len(outs) != 1:
                    rule = "cellbase.output_count"
                else:
                    rule = "cellbase.amount_mismatch"
                mismatch(rule, rec, expected, actual, ctx)
                # reported once here; the conservation identity below is judged modulo this deviation
                rec["_cb_delta"] += actual - expected
            chk("cellbase.lock")
            if outs and outs[0]["lock"] != lock:
                mismatch("cellbase.lock_mismatch", rec, lock, outs[0]["lock"], "lock of the finalised block's cellbase witness")

    # ---- (2) dao field recurrence (RFC-0023) ---------------------------------------------
    C, AR, S, U = rec["_dao"]
    miner2 = g2 * pU // pC
    rec["_miner2"] = miner2
    cb_occ = sum(occupied(o["lock_args_len"], o["type_args_len"], o["data_len"]) for o in outs)
    exp_C = pC + primary + g2
    exp_AR = pAR + pAR * g2 // pC
    exp_S = pS - interest + (g2 - miner2)
    exp_U = pU + occ_out_total + cb_occ - occ_in_total
    chk("dao.recurrence")
    for name, ex, ac in (("C", exp_C, C), ("AR", exp_AR, AR), ("S", exp_S, S), ("U", exp_U, U)):
        if ex != ac:
            mismatch("dao.%s_mismatch" % name, rec, ex, ac, "from parent dao C=%d AR=%d S=%d U=%d, primary %d g2 %d interest %d occ +%d -%d" % (
                pC, pAR, pS, pU, primary, g2, interest, occ_out_total + cb_occ, occ_in_total))

    # ---- (3) U == occupied capacity of the model's live cells ----------------------------
    chk("dao.U_vs_live_cells")
    if U != rec["live_occupied"]:
        mismatch("dao.U_vs_live_cells", rec, rec["live_occupied"], U, "%d live cells" % rec["live_cells"])

    # ---- (5) conservation -----------------------------------------------------------------
    # Capacity enters the live set only through cellbase outputs and DAO interest; fees leave it
    # when a tx is committed and come back through later cellbases.  Summing the recurrences:
    #   live(T) = C_T - S_T - p_0 - sum_{T-delay < i <= T, i >= 1}(p_i + m_i)      (not yet finalised)
    #             - fee shares not yet paid out - rewards too small to be paid
    #             (+ deviations of earlier cellbases already reported as cellbase mismatches)
    chk("conservation.step")
    step = parent["live_capacity"] + actual + interest - sum(fees)
    if step != rec["live_capacity"]:
        mismatch("conservation.step_mismatch", rec, step, rec["live_capacity"], "live(parent) + cellbase + interest - fees")
    unfinal = 0
    pending = 0
    lo = max(1, n - delay + 1)
    for i in range(lo, n + 1):
        b = ancestor(rec, i)
        unfinal += b["_primary"] + b["_miner2"]
        for f, first in zip(b["_fees"], b["_earliest"]):
            share = f * rn // rd
            pending += f - share
            if first is not None and first >= lo:
                pending += share
    p0 = P["_p0"]
    exp_live = C - S - p0 - unfinal - pending - rec["_skipped"] + rec["_cb_delta"]
    chk("conservation.capacity")
    if exp_live != rec["live_capacity"]:
        mismatch("conservation.capacity_mismatch", rec, exp_live, rec["live_capacity"],
                 "C %d - S %d - p0 %d - unfinalised %d - pending fee shares %d - unpaid small rewards %d + reported cellbase deviations %d" % (C, S, p0, unfinal, pending, rec["_skipped"], rec["_cb_delta"]))


def main():
    global P
    if len(sys.argv) != 2:
        raise SystemExit("usage: econ.py history.jsonl")
    chains = 0
    sample = None
    with open(sys.argv[1]) as f:
        for line in f:
            line = line.strip()
            if not line:
                continue
            rec = json.loads(line)
            t = rec.get("t")
            if t == "params":
                P = rec
                if P["finalization_delay"] != P["w_far"] + 1:
                    mismatches.append({"rule": "params.finalization_delay", "block": 0, "hash": "", "expected": P["w_far"] + 1,
                                       "actual": P["finalization_delay"], "detail": "RFC-0020: w_far + 1"})
                ge = P["genesis_epoch"]
                P["_p0"] = ge["base_reward"] + (1 if ge["remainder"] > 0 else 0)
            elif t == "block":
                if rec["hash"] in blocks:
                    continue
                blocks[rec["hash"]] = rec
                if rec["number"] == 0:
                    check_genesis(rec)
                else:
                    check_block(rec)
                if sample is None and rec["number"] > P["w_far"] + 1 and any(rec.get("_fees", [])) and rec["cellbase"]["outputs"]:
                    sample = {"number": rec["number"], "cellbase": rec["cellbase"]["outputs"][0]["capacity"], "fees": rec["_fees"],
                              "dao": list(rec["_dao"]), "epoch": rec["epoch"]}
            elif t == "judge":
                chains += 1
                if rec["tip"] not in blocks:
                    raise SystemExit("judge: unknown tip")
    if P is None:
        raise SystemExit("no params record")
    public_params = {k: v for k, v in P.items() if not k.startswith("_") and k != "t"}
    print(json.dumps({
        "checked": checked, "counts": counts, "mismatch_counts": mismatch_counts, "mismatches": mismatches,
        "assumptions": assumptions, "params": public_params, "chains": chains, "sample_block": sample,
    }))


if __name__ == "__main__":
    main()
