#!/usr/bin/env python3
"""Offline oracle for property C07 (epoch length / difficulty / issuance / compact / PoW arithmetic).

usage: arith.py <records.jsonl>

Input: one JSON record per line written by /verif/harness/varith (inputs + what the real code
returned).  Output: ONE JSON object on stdout:
  {"records":N, "evals":M, "kinds":{kind:count}, "classes":{class:count},
   "nontrivial":[input-hash,...], "mismatch_total":K, "by_sig":{sig:count},
   "mismatches":[{"id":..,"sig":..,"detail":..,"rec":{...}}, ...] (first few per signature)}

Everything is recomputed here with Python int / fractions.Fraction (unbounded, exact) from the
formulas of RFC-0020 (dynamic difficulty adjustment), RFC-0015 (issuance), RFC-0027 (header
fields: compact target, epoch field layout) -- not from the Rust code.  Floors are taken only
where the protocol defines an integer (seconds, hash rate, block counts, difficulty, shannons).
"""
import sys
import json
import hashlib
from fractions import Fraction

U64 = (1 << 64) - 1
U256 = (1 << 256) - 1
HSPACE = 1 << 256

# protocol constants (RFC-0020 parameters of CKB): L_ideal = 4h, block interval in [8 s, 48 s]
TAU = 2
MAX_EPOCH_LENGTH = 4 * 60 * 60 // 8    # 1800
MIN_EPOCH_LENGTH = 4 * 60 * 60 // 48   # 300
MIN_BLOCK_INTERVAL = 8

MAX_KEEP_PER_SIG = 3

# classes that make a record "non-trivial" (a boundary / corner of the input space was hit)
TRIVIAL = {"plain", "tail", "len_unbounded", "hr_unclamped", "rem_nonzero", "sec_rem_nonzero",
           "pow_random", "pair_random", "chain_block", "canonical", "noncanonical"}


def hx(s):
    return int(s, 16)


# ------------------------------------------------------------------ compact / target / difficulty

def compact_value(c):
    """N = mantissa * 256^(exponent-3), exact (may exceed 256 bits)."""
    e = c >> 24
    m = c & 0xFFFFFF
    if e <= 3:
        return m >> (8 * (3 - e))
    return m << (8 * (e - 3))


def encode_target(t):
    """canonical compact: exponent = number of bytes of t, mantissa = its 3 most significant bytes."""
    if t == 0:
        return 0
    n = (t.bit_length() + 7) // 8
    if n <= 3:
        m = t << (8 * (3 - n))
    else:
        m = t >> (8 * (n - 3))
    return (n << 24) | m


def is_canonical(c):
    e = c >> 24
    m = c & 0xFFFFFF
    if c == 0:
        return True
    if e == 0 or e > 32 or (m >> 16) == 0:
        return False
    if e < 3 and (m & ((1 << (8 * (3 - e))) - 1)) != 0:
        return False
    return True


def target_to_difficulty(t):
    # difficulty = floor(2^256 / target), saturated to 256 bits (only target 1 saturates)
    return min(HSPACE // t, U256)


def difficulty_to_target(d):
    return min(HSPACE // d, U256)


def compact_is_grey(c):
    """exponent above 32 but the value still fits 256 bits: may or may not be treated as overflow"""
    return (c >> 24) > 32 and (c & 0xFFFFFF) != 0 and compact_value(c) <= U256


def compact_to_difficulty(c):
    v = compact_value(c)
    if v == 0 or v > U256:
        return 0
    return target_to_difficulty(v)


# ------------------------------------------------------------------ issuance

def scheduled_primary(ipr, hi, n):
    """RFC-0015: primary issuance halves every `hi` epochs."""
    k = n // hi
    return ipr >> k  # python: 0 once k >= bit length


# ------------------------------------------------------------------ epoch field (RFC-0027)

def ep_fields(v):
    return (v & 0xFFFFFF, (v >> 24) & 0xFFFF, (v >> 40) & 0xFFFF)


def ep_well_formed(v):
    n, i, l = ep_fields(v)
    return l > 0 and i < l


def ep_is_genesis(v):
    return ep_fields(v) == (0, 0, 0)


def ep_successor(a, b):
    """b follows a, a well formed."""
    na, ia, la = ep_fields(a)
    nb, ib, lb = ep_fields(b)
    if ia + 1 < la:
        return nb == na and ib == ia + 1 and lb == la
    return nb == na + 1 and ib == 0


class Ctx:
    def __init__(self):
        self.mism = []
        self.by_sig = {}
        self.classes = {}
        self.kinds = {}
        self.nontrivial = set()
        self.evals = 0
        self.dt_pairs = []
        self.chains = {}
        self.samples = {}

    def bad(self, rec, sig, detail):
        self.by_sig[sig] = self.by_sig.get(sig, 0) + 1
        if self.by_sig[sig] <= MAX_KEEP_PER_SIG:
            self.mism.append({"id": rec.get("id"), "sig": sig, "detail": detail, "rec": rec})

    def cls(self, rec, names):
        nt = False
        for n in names:
            self.classes[n] = self.classes.get(n, 0) + 1
            if n not in TRIVIAL:
                nt = True
        if nt:
            self.nontrivial.add(rec["h"])


# ------------------------------------------------------------------ next_epoch_ext

def same_epoch(a, b):
    return all(a[k] == b[k] for k in ("n", "s", "l", "ct", "b", "r")) and hx(a["phr"]) == hx(b["phr"]) \
        and a.get("lbh") == b.get("lbh")


def check_ne(rec, S):
    i = rec["in"]
    o = rec["out"]
    c = i["c"]
    e = i["e"]
    hd = i["hd"]
    st = i["st"]
    extreme = i["cls"] == "extreme"
    classes = set()
    L = e["l"]
    start = e["s"]
    n_next = e["n"] + 1
    tail = hd["n"] == start + L - 1
    hi = c["hi"]
    at_halving = n_next % hi == 0
    shift = n_next // hi

    S.evals += 1
    if o["v"] == "panic":
        if tail and at_halving and shift >= 64 and "shift" in o.get("msg", ""):
            S.bad(rec, "primary_epoch_reward.shift_overflow_panic",
                  "next_epoch_ext panics at the tail block of epoch %d: halving count %d >= 64 makes "
                  "`initial >> halvings` overflow the shift; scheduled reward is 0 (%s)" % (e["n"], shift, o.get("msg")))
            S.cls(rec, ["halving_shift_ge_64"])
            return
        if extreme:
            S.cls(rec, ["extreme_panic"])
            return
        S.bad(rec, "next_epoch_ext.panic", "panic on in-range statistics: %s" % o.get("msg"))
        return
    if o["v"] == "none":
        S.bad(rec, "next_epoch_ext.none", "provider had the epoch but next_epoch_ext returned None")
        return

    ne = o["e"]
    if not tail:
        classes.add("non_tail")
        if o["v"] != "nonhead":
            S.bad(rec, "next_epoch_ext.nontail_new_epoch", "non-tail block %d of epoch [%d,+%d) produced a new epoch" % (hd["n"], start, L))
        elif not same_epoch(ne, e):
            S.bad(rec, "next_epoch_ext.nontail_epoch_changed", "non-tail block returned a different epoch ext")
        S.cls(rec, classes)
        return

    classes.add("tail")
    if o["v"] != "head":
        S.bad(rec, "next_epoch_ext.tail_not_head", "tail block %d did not start a new epoch" % hd["n"])
        S.cls(rec, classes)
        return

    # ---- gap-free chaining
    if ne["n"] != n_next:
        S.bad(rec, "next_epoch_ext.number_gap", "epoch number %d after %d" % (ne["n"], e["n"]))
    if ne["s"] != start + L or ne["s"] != hd["n"] + 1:
        S.bad(rec, "next_epoch_ext.start_gap", "start %d, expected %d" % (ne["s"], start + L))
    if ne["lbh"] != hd["hash"]:
        S.bad(rec, "next_epoch_ext.last_block_hash", "last_block_hash_in_previous_epoch is not the tail hash")

    # ---- issuance of the new epoch (RFC-0015)
    prev_sum = e["b"] * L + e["r"]
    if prev_sum != scheduled_primary(c["ipr"], hi, e["n"]):
        # harness promise broken: generator only emits epochs whose stored reward is on schedule
        raise RuntimeError("record %s: previous epoch reward not on schedule" % rec["id"])
    sched = scheduled_primary(c["ipr"], hi, n_next)
    if at_halving:
        classes.add("halving_boundary")
        if shift >= 64:
            classes.add("halving_shift_ge_64")
    if sched == 0:
        classes.add("reward_zero")

    U = st["u1"] - st["u0"]
    dur_ms = hd["ts"] - st["t0"]
    assert U >= 0 and dur_ms >= 0

    permanent = c["perm"] and c["pow"] == "Dummy"
    if permanent:
        classes.add("permanent")
        exp_len = -(-c["edt"] // MIN_BLOCK_INTERVAL)
        if ne["l"] != exp_len:
            S.bad(rec, "next_epoch_ext.permanent_length", "length %d expected %d" % (ne["l"], exp_len))
        if ne["ct"] != e["ct"] or hx(ne["phr"]) != hx(e["phr"]):
            S.bad(rec, "next_epoch_ext.permanent_difficulty_changed", "compact %#x -> %#x" % (e["ct"], ne["ct"]))
        if (ne["b"], ne["r"]) != divmod(sched, ne["l"]):
            S.bad(rec, "next_epoch_ext.reward_mismatch", "base/remainder (%d,%d) expected %r of %d over %d blocks" % (ne["b"], ne["r"], divmod(sched, ne["l"]), sched, ne["l"]))
        S.cls(rec, classes)
        return

    o_t = Fraction(c["ort"][0], c["ort"][1])
    L_ideal = c["edt"]
    prev = hx(e["phr"])
    got_len = ne["l"]
    got_hr = hx(ne["phr"])
    got_ct = ne["ct"]

    # ---- (1) adjusted hash rate estimation
    dur_s = max(dur_ms // 1000, 1)              # protocol works in whole seconds, at least one
    diff = compact_to_difficulty(hd["ct"])      # difficulty of the epoch = HSpace / T_i
    if compact_is_grey(hd["ct"]):
        # (extreme inputs only) not a canonical encoding; treated as invalid = difficulty 0 under the
        # conservative overflow rule that check_ct tolerates
        classes.add("header_compact_grey_zone")
        diff = 0
    hps = diff * (L + U) // dur_s               # integer hash-rate estimate
    if dur_ms == 0:
        classes.add("dur_zero")
    elif dur_ms < 1000:
        classes.add("dur_sub_second")
    if dur_ms >= 1 << 40:
        classes.add("dur_huge")
    if prev == 0:
        adj = hps
        classes.add("prev_hash_rate_zero")
    else:
        lo = prev // TAU
        hi_b = prev * TAU
        if hps < lo:
            adj = lo
            classes.add("hr_clamp_down")
        elif hps > hi_b:
            adj = hi_b
            classes.add("hr_clamp_up")
        else:
            adj = hps
            classes.add("hr_unclamped")
            if hps == lo:
                classes.add("hr_at_lower_edge")
            if hps == hi_b:
                classes.add("hr_at_upper_edge")
    if adj == 0:
        classes.add("hr_floor_one")
    adj = max(adj, 1)

    if prev > 0 and not (max(prev // TAU, 1) <= got_hr <= max(prev * TAU, 1)):
        S.bad(rec, "next_epoch_ext.hash_rate_clamp", "estimate %d outside [%d/2, %d*2]" % (got_hr, prev, prev))
    if got_hr != adj:
        S.bad(rec, "next_epoch_ext.hash_rate_mismatch", "estimate %d expected %d (raw %d, previous %d)" % (got_hr, adj, hps, prev))

    # ---- (2) next epoch length
    hi_len = min(MAX_EPOCH_LENGTH, L * TAU)
    lo_len = max(MIN_EPOCH_LENGTH, L // TAU)
    satisfiable = lo_len <= hi_len
    if L == MIN_EPOCH_LENGTH:
        classes.add("prev_len_min")
    if L == MAX_EPOCH_LENGTH:
        classes.add("prev_len_max")
    if not satisfiable:
        classes.add("prev_len_outside_consensus_range")
    skip_exact = False
    if U == 0:
        classes.add("zero_uncles")
        exp_len = hi_len
        bounded = True
        o_i = Fraction(0)
        raw = None
    else:
        if U == 2 * L:
            classes.add("max_uncles")
        o_i = Fraction(U, L)
        raw_q = o_t * (1 + o_i) * L_ideal * L / (o_i * (1 + o_t) * dur_s)
        raw = raw_q.numerator // raw_q.denominator
        if raw > U64:
            classes.add("raw_length_exceeds_u64")
            skip_exact = True
        if raw > hi_len:
            exp_len = hi_len
            bounded = True
            classes.add("len_clamp_max" if hi_len == MAX_EPOCH_LENGTH else "len_clamp_double")
        elif raw < lo_len:
            exp_len = lo_len
            bounded = True
            classes.add("len_clamp_min" if lo_len == MIN_EPOCH_LENGTH else "len_clamp_half")
            if lo_len * TAU < L:
                classes.add("len_half_of_odd_floor")
        else:
            exp_len = raw
            bounded = False
            classes.add("len_unbounded")
            if raw == hi_len:
                classes.add("len_exactly_upper")
            if raw == lo_len:
                classes.add("len_exactly_lower")

    if satisfiable:
        if not (MIN_EPOCH_LENGTH <= got_len <= MAX_EPOCH_LENGTH):
            S.bad(rec, "next_epoch_ext.length_out_of_bounds", "length %d not in [%d,%d] (previous %d)" % (got_len, MIN_EPOCH_LENGTH, MAX_EPOCH_LENGTH, L))
        if not (L // TAU <= got_len <= L * TAU):
            S.bad(rec, "next_epoch_ext.length_factor_exceeded", "length %d not within a factor %d of %d" % (got_len, TAU, L))
    else:
        ok_abs = MIN_EPOCH_LENGTH <= got_len <= MAX_EPOCH_LENGTH
        ok_rel = L // TAU <= got_len <= L * TAU
        if not (ok_abs or ok_rel):
            S.bad(rec, "next_epoch_ext.length_out_of_bounds", "length %d neither in consensus range nor within factor 2 of %d" % (got_len, L))
    if got_len == 0:
        S.bad(rec, "next_epoch_ext.length_zero", "zero length epoch")
        S.cls(rec, classes)
        return

    if not skip_exact and satisfiable and got_len != exp_len:
        S.bad(rec, "next_epoch_ext.length_mismatch", "length %d expected %d (raw %s, previous %d, uncles %d, %d s)" % (got_len, exp_len, raw, L, U, dur_s))
    if not satisfiable and not skip_exact and got_len != exp_len:
        # the two bounds contradict each other; which one wins is not specified -> use what was returned
        classes.add("len_unspecified_precedence")
        exp_len = got_len
        bounded = True if U == 0 else (raw != got_len)

    # ---- (3) next epoch difficulty
    if not skip_exact:
        num = Fraction(adj * L_ideal)
        if bounded:
            if o_i == 0:
                den = Fraction(exp_len)
            else:
                recip = (1 + o_i) * L_ideal * L / (o_i * dur_s * exp_len) - 1
                if recip <= 0:
                    classes.add("orphan_estimate_fallback")
                    o_est = o_t
                else:
                    o_est = 1 / recip
                den = (1 + o_est) * exp_len
        else:
            den = (1 + o_t) * exp_len
        if num > den:
            q = num / den
            exp_diff = q.numerator // q.denominator
        else:
            exp_diff = 1
            classes.add("difficulty_floor_one")
        if exp_diff > U256:
            classes.add("difficulty_exceeds_u256")
        else:
            exp_ct = encode_target(difficulty_to_target(exp_diff))
            if got_ct != exp_ct:
                S.bad(rec, "next_epoch_ext.difficulty_mismatch",
                      "compact %#x (difficulty %d) expected %#x (difficulty %d)" % (got_ct, compact_to_difficulty(got_ct), exp_ct, exp_diff))
    if compact_to_difficulty(got_ct) < 1:
        S.bad(rec, "next_epoch_ext.difficulty_zero", "compact target %#x decodes to difficulty 0" % got_ct)
    if not is_canonical(got_ct):
        S.bad(rec, "next_epoch_ext.compact_not_canonical", "compact target %#x" % got_ct)

    # ---- rewards: base/remainder == divmod(scheduled, length)
    if (ne["b"], ne["r"]) != divmod(sched, got_len):
        S.bad(rec, "next_epoch_ext.reward_mismatch", "base/remainder (%d,%d) expected %r of %d over %d blocks" % (ne["b"], ne["r"], divmod(sched, got_len), sched, got_len))
    if sched % got_len == 0:
        classes.add("rem_zero")
    if extreme:
        classes.add("extreme_ok")
    S.cls(rec, classes)


# ------------------------------------------------------------------ block rewards

def expand(rle):
    out = []
    for v, k in rle:
        out.append((v, k))
    return out


def check_br(rec, S):
    i = rec["in"]
    o = rec["out"]
    e = i["e"]
    L = e["l"]
    R = i["R"]
    sec = i["sec"]
    classes = set()
    S.evals += 1
    b, r = o["b"], o["r"]
    if (b, r) != divmod(R, L):
        S.bad(rec, "epoch_ext.set_primary_reward_mismatch", "(%d,%d) expected %r" % (b, r, divmod(R, L)))
        return
    classes.add("rem_zero" if r == 0 else "rem_nonzero")
    if r == L - 1 and L > 1:
        classes.add("rem_len_minus_1")
    if r == 1:
        classes.add("rem_one")
    if L == MIN_EPOCH_LENGTH:
        classes.add("len_min")
    if L == MAX_EPOCH_LENGTH:
        classes.add("len_max")
    if L == 1:
        classes.add("len_one")

    def judge(rle, total, base, what, sig):
        cnt = 0
        s = 0
        for v, k in rle:
            cnt += k
            if v == "err":
                if base + 1 <= U64:
                    S.bad(rec, sig + ".unexpected_error", "%s returned an error for an in-range block" % what)
                    return
                classes.add("capacity_overflow_error")
                s += (base + 1) * k  # what an unbounded integer would have given
                continue
            if v != base and v != base + 1:
                S.bad(rec, sig + ".value_out_of_range", "%s %d is neither %d nor %d" % (what, v, base, base + 1))
                return
            s += v * k
        if cnt != L:
            raise RuntimeError("record %s: %d values for %d blocks" % (rec["id"], cnt, L))
        if s != total:
            S.bad(rec, sig + ".sum_mismatch", "sum of %s over the epoch %d != scheduled %d (length %d)" % (what, s, total, L))

    S.evals += 1
    judge(o["pr"], R, b, "block_reward", "block_reward")
    g, g_r = divmod(sec, L)
    classes.add("sec_rem_zero" if g_r == 0 else "sec_rem_nonzero")
    judge(o["sr"], sec, g, "secondary_block_issuance", "secondary_issuance")
    for n, pv, sv in o["oob"]:
        classes.add("out_of_range_probe")
        # blocks outside the epoch must not receive a remainder share
        if pv != "err" and pv != b:
            S.bad(rec, "block_reward.out_of_range_share", "block %d outside [%d,+%d) got %d (base %d)" % (n, e["s"], L, pv, b))
        if sv != "err" and sv != g:
            S.bad(rec, "secondary_issuance.out_of_range_share", "block %d outside the epoch got %d (base %d)" % (n, sv, g))
    S.cls(rec, classes)


def check_hv(rec, S):
    i = rec["in"]
    o = rec["out"]
    S.evals += 1
    k = i["n"] // i["hi"]
    exp = scheduled_primary(i["ipr"], i["hi"], i["n"])
    classes = set()
    if i["n"] % i["hi"] == 0:
        classes.add("halving_first_epoch")
    if (i["n"] + 1) % i["hi"] == 0:
        classes.add("halving_last_epoch")
    if k >= 64:
        classes.add("halving_shift_ge_64")
    if exp == 0:
        classes.add("reward_zero")
    if k == 0:
        classes.add("before_first_halving")
    if "panic" in o:
        if k >= 64:
            S.bad(rec, "primary_epoch_reward.shift_overflow_panic",
                  "primary_epoch_reward(%d) with halving interval %d panics (%s); %d halvings of %d must give 0" % (i["n"], i["hi"], o["panic"], k, i["ipr"]))
        else:
            S.bad(rec, "primary_epoch_reward.panic", o["panic"])
    elif o["r"] != exp:
        S.bad(rec, "primary_epoch_reward.halving_mismatch", "epoch %d interval %d: %d expected %d" % (i["n"], i["hi"], o["r"], exp))
    S.cls(rec, classes or {"plain"})


# ------------------------------------------------------------------ compact

def check_ct(rec, S):
    c = rec["in"]["c"]
    o = rec["out"]
    e = c >> 24
    m = c & 0xFFFFFF
    v = compact_value(c)
    classes = set()
    S.evals += 1
    true_of = v > U256
    of = o["of"]
    if true_of and not of:
        S.bad(rec, "compact.overflow_flag", "%#x exceeds 256 bits but is not flagged" % c)
    if of and (e <= 32 or m == 0):
        S.bad(rec, "compact.overflow_flag", "%#x fits in 256 bits (exponent <= 32 or zero mantissa) but is flagged" % c)
    if of:
        classes.add("overflow_compact")
        if not true_of:
            classes.add("conservative_overflow_flag")
    if v == 0:
        classes.add("zero_target")
    if e <= 3:
        classes.add("small_exponent")
    if e == 32:
        classes.add("exponent_32")
    if not of:
        t = hx(o["t"])
        if t != v:
            S.bad(rec, "compact.target_mismatch", "%#x -> %#x expected %#x" % (c, t, v))
        enc = encode_target(v)
        canon = (enc == c)
        if canon != is_canonical(c):
            raise RuntimeError("oracle self-check: canonical predicate disagrees for %#x" % c)
        classes.add("canonical" if canon else "noncanonical")
        if o["rc"] != enc:
            sig = "compact.roundtrip" if canon else "compact.encode_mismatch"
            S.bad(rec, sig, "target_to_compact(compact_to_target(%#x)) = %#x expected %#x" % (c, o["rc"], enc))
    d = hx(o["d"])
    if v == 0 or of:
        if d != 0:
            S.bad(rec, "compact.difficulty_of_invalid", "invalid compact %#x has difficulty %d" % (c, d))
    else:
        exp = target_to_difficulty(v)
        if v == 1:
            classes.add("target_one")
        if d != exp:
            S.bad(rec, "compact.difficulty_mismatch", "%#x: difficulty %d expected %d" % (c, d, exp))
        if o["dc"] is not None:
            exp_dc = encode_target(difficulty_to_target(exp))
            if o["dc"] != exp_dc:
                S.bad(rec, "compact.difficulty_to_compact_mismatch", "difficulty %d -> %#x expected %#x" % (exp, o["dc"], exp_dc))
    S.cls(rec, classes or {"plain"})


def check_dt(rec, S):
    d = hx(rec["in"]["d"])
    o = rec["out"]
    S.evals += 1
    classes = set()
    if d == 0:
        classes.add("difficulty_zero")
        # 2^256/0 is undefined; whatever happens (the code panics) is only recorded
        S.cls(rec, classes)
        return
    if "panic" in o:
        S.bad(rec, "compact.difficulty_to_compact_panic", "difficulty %d: %s" % (d, o["panic"]))
        return
    T = difficulty_to_target(d)
    exp = encode_target(T)
    if d == 1:
        classes.add("difficulty_one")
    if d == U256:
        classes.add("difficulty_max")
    if d & (d - 1) == 0:
        classes.add("difficulty_pow2")
    if o["c"] != exp:
        S.bad(rec, "compact.difficulty_to_compact_mismatch", "difficulty %d -> %#x expected %#x" % (d, o["c"], exp))
    t = hx(o["t"])
    if o["of"] or t != compact_value(exp):
        S.bad(rec, "compact.roundtrip", "compact %#x of difficulty %d decodes to %#x overflow=%s" % (o["c"], d, t, o["of"]))
    if t > T:
        S.bad(rec, "compact.target_above_exact", "encoded target above floor(2^256/d)")
    S.dt_pairs.append((d, t, rec))
    S.cls(rec, classes or {"plain"})


def finish_dt(S):
    S.dt_pairs.sort(key=lambda x: x[0])
    for (d0, t0, r0), (d1, t1, r1) in zip(S.dt_pairs, S.dt_pairs[1:]):
        S.evals += 1
        if d1 > d0 and t1 > t0:
            S.bad(r1, "compact.monotonicity", "difficulty %d < %d but target %#x < %#x" % (d0, d1, t0, t1))


def check_tc(rec, S):
    t = hx(rec["in"]["t"])
    S.evals += 1
    exp = encode_target(t)
    classes = set()
    if t == 0:
        classes.add("zero_target")
    if t == U256:
        classes.add("target_max")
    if t.bit_length() % 8 == 0 and t:
        classes.add("target_byte_aligned")
    if rec["out"]["c"] != exp:
        S.bad(rec, "compact.encode_mismatch", "target %#x -> %#x expected %#x" % (t, rec["out"]["c"], exp))
    S.cls(rec, classes or {"plain"})


# ------------------------------------------------------------------ PoW

def ckb_blake2b(data):
    return hashlib.blake2b(data, digest_size=32, person=b"ckb-default-hash").digest()


def check_pw(rec, S):
    i = rec["in"]
    o = rec["out"]
    S.evals += 1
    classes = set()
    raw = bytes.fromhex(i["raw"])
    nonce = hx(i["nonce"])
    # compact target is the u32 at offset 4 of the 192-byte RawHeader (RFC-0027 layout):
    # version u32 | compact_target u32 | timestamp u64 | number u64 | epoch u64 | parent_hash ...
    if len(raw) != 192:
        raise RuntimeError("raw header of %d bytes" % len(raw))
    ct = int.from_bytes(raw[4:8], "little")
    if ct != i["ct"]:
        S.bad(rec, "pow.header_layout", "compact target in raw header %#x, harness set %#x" % (ct, i["ct"]))
        return
    ph = ckb_blake2b(raw)
    if ph.hex() != o["ph"]:
        S.bad(rec, "pow.pow_hash", "pow_hash is not blake2b(raw header)")
        return
    msg = ph + nonce.to_bytes(16, "little")
    if msg.hex() != o["msg"]:
        S.bad(rec, "pow.message_layout", "pow_message != pow_hash || nonce (LE)")
        return
    eag = bytes.fromhex(o["eag"])
    eng = i["eng"]
    v = compact_value(ct)
    if eng == "Dummy":
        exp = True
        classes.add("pow_dummy")
    else:
        final = eag if eng == "Eaglesong" else ckb_blake2b(eag)
        h = int.from_bytes(final, "big")
        if v == 0:
            exp = False
            classes.add("pow_zero_target")
        elif v > U256:
            exp = False
            classes.add("pow_overflow_target")
        elif (ct >> 24) > 32:
            # representable value written with an exponent above 32: implementations may flag it
            # as overflow (see check_ct); accepting is only allowed if the hash meets the target
            classes.add("conservative_overflow_flag")
            exp = o["v"] if (not o["v"] or h <= v) else False
        else:
            exp = h <= v
            classes.add("pow_accept" if exp else "pow_reject")
            if h == v:
                classes.add("pow_hash_equals_target")
            # how many leading bits of hash and target agree -> how close to the boundary
            x = h ^ v
            agree = 256 - x.bit_length()
            if agree >= 16:
                classes.add("pow_near_boundary_16")
            if agree >= 24:
                classes.add("pow_near_boundary_24")
            if ct == 0x20FFFFFF:
                classes.add("pow_difficulty_one")
    if o["v"] != exp:
        S.bad(rec, "pow.verify_vs_target", "%s verify=%s expected %s (compact %#x)" % (eng, o["v"], exp, ct))
    S.cls(rec, classes or {"pow_random"})


# ------------------------------------------------------------------ epoch fields

def check_ep(rec, S):
    a = rec["in"]["a"]
    b = rec["in"]["b"]
    o = rec["out"]
    S.evals += 1
    classes = set()
    fa, fb = ep_fields(a), ep_fields(b)
    if list(fa) != o["fa"] or list(fb) != o["fb"]:
        S.bad(rec, "epoch_fraction.decode", "fields %r %r expected %r %r" % (o["fa"], o["fb"], fa, fb))
        return
    wa, wb = ep_well_formed(a), ep_well_formed(b)
    if o["wf_a"] != wa or o["wf_b"] != wb:
        S.bad(rec, "epoch_fraction.well_formed", "is_well_formed %s/%s expected %s/%s" % (o["wf_a"], o["wf_b"], wa, wb))
    if o["gen_a"] != ep_is_genesis(a):
        S.bad(rec, "epoch_fraction.is_genesis", "is_genesis(%#x) = %s" % (a, o["gen_a"]))
    if not wa:
        classes.add("parent_malformed")
        if fa[2] == 0:
            classes.add("length_zero")
        # no well-formed epoch may follow a malformed one
        if wb and o["succ"]:
            S.bad(rec, "epoch_fraction.successor", "%r accepted as successor of malformed %r" % (fb, fa))
        exp_succ = None
    else:
        exp_succ = ep_successor(a, b)
        if o["succ"] != exp_succ:
            S.bad(rec, "epoch_fraction.successor", "is_successor_of(%r -> %r) = %s expected %s" % (fa, fb, o["succ"], exp_succ))
        if fa[1] + 1 == fa[2]:
            classes.add("parent_at_epoch_end")
        if exp_succ:
            classes.add("successor_same_epoch" if fa[0] == fb[0] else "successor_next_epoch")
        if fa[0] == 0xFFFFFF:
            classes.add("epoch_number_max")
    if not wb:
        classes.add("child_malformed")
    if (a >> 56) or (b >> 56):
        classes.add("reserved_bits_set")
    # header-level rule: well formed, and successor of the parent unless the parent is genesis
    if not wb:
        exp_hv = "malformed"
    elif ep_is_genesis(a):
        exp_hv = "ok"
        classes.add("parent_genesis")
    elif wa and exp_succ:
        exp_hv = "ok"
    else:
        exp_hv = "noncontinuous"
    if o["hv"] != exp_hv:
        S.bad(rec, "header_verifier.epoch", "HeaderVerifier says %s for %r -> %r, expected %s" % (o["hv"], fa, fb, exp_hv))
    S.cls(rec, classes or {"pair_random"})


def check_cb(rec, S):
    i = rec["in"]
    o = rec["out"]
    S.evals += 1
    classes = {"chain_block"}
    ch = S.chains.setdefault(i["chain"], {"prev": None})
    n = i["n"]
    ep = o["ep"]
    num, idx, ln = ep_fields(ep)
    prev = ch["prev"]
    if n == 0:
        ch["l0"] = o["el"]
        ch["prev"] = (n, ep, o)
        S.cls(rec, classes)
        return
    if prev is None or prev[0] != n - 1:
        raise RuntimeError("chain records out of order at %s" % rec["id"])
    pn, pep, po = prev
    if not ep_well_formed(ep) or ep >> 56:
        S.bad(rec, "epoch_chain.malformed", "block %d epoch %#x" % (n, ep))
    if (num, ln) != (o["en"], o["el"]) or idx != n - o["es"]:
        S.bad(rec, "epoch_chain.ext_mismatch", "block %d epoch field (%d,%d,%d) vs epoch ext number %d start %d length %d" % (n, num, idx, ln, o["en"], o["es"], o["el"]))
    if o["head"] != (idx == 0):
        S.bad(rec, "epoch_chain.head_flag", "block %d index %d head=%s" % (n, idx, o["head"]))
    if pn == 0:
        # genesis carries (0,0,0); its successor is block 1 of epoch 0 (or the head of epoch 1 if the
        # genesis epoch has a single block)
        l0 = ch["l0"]
        exp = (0, 1, l0) if l0 > 1 else (1, 0, ln)
        if (num, idx, ln) != exp:
            S.bad(rec, "epoch_chain.gap", "block 1 epoch (%d,%d,%d) expected %r" % (num, idx, ln, exp))
    else:
        if not ep_successor(pep, ep):
            S.bad(rec, "epoch_chain.gap", "block %d epoch %r does not follow %r" % (n, ep_fields(ep), ep_fields(pep)))
    if o["head"]:
        classes.add("chain_epoch_head")
        if o["es"] != po["es"] + po["el"] or o["en"] != po["en"] + 1:
            S.bad(rec, "epoch_chain.gap", "epoch %d starts at %d after epoch %d [%d,+%d)" % (o["en"], o["es"], po["en"], po["es"], po["el"]))
    else:
        if (o["en"], o["es"], o["el"]) != (po["en"], po["es"], po["el"]):
            S.bad(rec, "epoch_chain.ext_changed_inside_epoch", "block %d" % n)
    if o["hv"] != "ok":
        S.bad(rec, "header_verifier.rejects_valid_successor", "block %d: %s" % (n, o["hv"]))
    if o["ct"] != o["ect"]:
        S.bad(rec, "epoch_chain.compact_target", "block %d" % n)
    ch["prev"] = (n, ep, o)
    S.cls(rec, classes)


def check_consts(rec, S):
    o = rec["out"]
    S.evals += 1
    if o["minl"] != MIN_EPOCH_LENGTH or o["maxl"] != MAX_EPOCH_LENGTH:
        S.bad(rec, "consensus.epoch_length_bounds", "min/max epoch length %d/%d expected %d/%d" % (o["minl"], o["maxl"], MIN_EPOCH_LENGTH, MAX_EPOCH_LENGTH))
    if o["tau"] != TAU:
        S.bad(rec, "consensus.tau", "tau %d" % o["tau"])
    S.cls(rec, {"plain"})


CHECKS = {"ne": check_ne, "br": check_br, "hv": check_hv, "ct": check_ct, "dt": check_dt,
          "tc": check_tc, "pw": check_pw, "ep": check_ep, "cb": check_cb, "consts": check_consts}


def main():
    S = Ctx()
    n = 0
    with open(sys.argv[1], "r") as f:
        for line in f:
            if not line.strip():
                continue
            rec = json.loads(line)
            n += 1
            k = rec["k"]
            S.kinds[k] = S.kinds.get(k, 0) + 1
            if k not in S.samples and k in ("ne", "pw", "br") and len(line) < 3000:
                S.samples[k] = rec
            CHECKS[k](rec, S)
    finish_dt(S)
    out = {
        "records": n,
        "evals": S.evals,
        "kinds": S.kinds,
        "classes": S.classes,
        "nontrivial": sorted(S.nontrivial),
        "mismatch_total": sum(S.by_sig.values()),
        "by_sig": S.by_sig,
        "mismatches": S.mism,
        "samples": list(S.samples.values()),
    }
    json.dump(out, sys.stdout)
    sys.stdout.write("\n")


if __name__ == "__main__":
    main()
