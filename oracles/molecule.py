#!/usr/bin/env python3
"""Independent molecule implementation + CKB hash definitions (python3 stdlib only).

Shares no code with /repo: the schema files (*.mol) are parsed here, and validation, decoding,
canonical encoding and hashing are written from the molecule encoding specification and the
hash *definitions* documented in util/gen-types/src/extension/calc_hash.rs.

Encoding specification implemented here (molecule `encoding_spec.md`):
  byte     1 byte
  array    item_count * item_size bytes, no header
  struct   concatenation of the (fixed size) fields, no header
  fixvec   u32le item_count | items           (items have a fixed size)
  dynvec   u32le total_size | u32le offset[i] for every item | items; empty dynvec = 04000000
  table    like dynvec, the number of items is the number of declared fields
  option   empty = none, otherwise the item
  union    u32le item_id | item
Strict validity: exactly the layout above, recursively. Compatible validity (`compatible =
true` of the generated Rust readers): a table may carry MORE fields than declared; the header
must still be a well-formed table header; the declared fields are validated recursively (in
compatible mode), the extra fields are opaque.

Command line:
  molecule.py types  <schema_dir>                     -> all type names, one per line
  molecule.py gen    <schema_dir> --mode codec|hostile --seed S --count N --out FILE
  molecule.py verify <schema_dir> --cases FILE --hashes FILE   -> JSON lines (mismatches + summary)
  molecule.py selftest <schema_dir>
"""
import hashlib
import json
import os
import re
import struct
import sys

U32 = struct.Struct("<I")


# --------------------------------------------------------------------------------------------
# schema language
# --------------------------------------------------------------------------------------------
class T:
    __slots__ = ("name", "kind", "item", "count", "fields", "items", "size", "_item_name",
                 "_field_names", "_item_names")

    def __repr__(self):
        return "<%s %s>" % (self.kind, self.name)


def _strip_comments(src):
    src = re.sub(r"/\*.*?\*/", " ", src, flags=re.S)
    src = re.sub(r"//[^\n]*", " ", src)
    return src


def parse_schema_text(src, decls, imports):
    toks = re.findall(r"[A-Za-z_][A-Za-z0-9_]*|\d+|[\[\]{}()<>;:,]", _strip_comments(src))
    i = 0

    def expect(s):
        nonlocal i
        if toks[i] != s:
            raise ValueError("schema: expected %r got %r at token %d" % (s, toks[i], i))
        i += 1

    def ident():
        nonlocal i
        t = toks[i]
        if not re.match(r"[A-Za-z_]", t):
            raise ValueError("schema: identifier expected, got %r" % t)
        i += 1
        return t

    while i < len(toks):
        kw = ident()
        if kw == "import":
            imports.append(ident())
            expect(";")
            continue
        name = ident()
        t = T()
        t.name = name
        t.item = t.count = t.fields = t.items = t.size = None
        if kw == "array":
            expect("[")
            t._item_name = ident()
            expect(";")
            t.count = int(toks[i])
            i += 1
            expect("]")
            expect(";")
            t.kind = "array"
        elif kw == "vector":
            expect("<")
            t._item_name = ident()
            expect(">")
            expect(";")
            t.kind = "vector"
        elif kw == "option":
            expect("(")
            t._item_name = ident()
            expect(")")
            expect(";")
            t.kind = "option"
        elif kw in ("struct", "table"):
            expect("{")
            t._field_names = []
            while toks[i] != "}":
                fname = ident()
                expect(":")
                ftype = ident()
                t._field_names.append((fname, ftype))
                if toks[i] == ",":
                    i += 1
            expect("}")
            t.kind = kw
        elif kw == "union":
            expect("{")
            t._item_names = []
            next_id = 0
            while toks[i] != "}":
                iname = ident()
                if toks[i] == ":":
                    i += 1
                    next_id = int(toks[i])
                    i += 1
                t._item_names.append((next_id, iname))
                next_id += 1
                if toks[i] == ",":
                    i += 1
            expect("}")
            t.kind = "union"
        else:
            raise ValueError("schema: unknown declaration %r" % kw)
        if name in decls:
            raise ValueError("schema: duplicate type %s" % name)
        decls[name] = t


def load_schemas(schema_dir, files=("blockchain", "extensions", "protocols")):
    """Parse the given schema files (following imports). Returns {name: T} in declaration order."""
    decls = {}
    seen = set()
    order = []

    def load(name):
        if name in seen:
            return
        seen.add(name)
        with open(os.path.join(schema_dir, name + ".mol")) as f:
            src = f.read()
        imports = []
        local = {}
        parse_schema_text(src, local, imports)
        for imp in imports:
            load(imp)
        for k, v in local.items():
            if k in decls:
                raise ValueError("duplicate type %s" % k)
            decls[k] = v
            order.append(k)

    for f in files:
        load(f)
    byte = T()
    byte.name = "byte"
    byte.kind = "byte"
    byte.size = 1
    byte.item = byte.count = byte.fields = byte.items = None
    env = dict(decls)
    env["byte"] = byte

    resolved = set()

    def resolve(t, stack=()):
        if t.kind == "byte" or t.name in resolved:
            return
        if t.name in stack:
            raise ValueError("recursive type %s" % t.name)
        st = stack + (t.name,)
        if t.kind in ("array", "vector", "option"):
            t.item = env[t._item_name]
            resolve(t.item, st)
            if t.kind == "array":
                if t.item.size is None:
                    raise ValueError("array of dynamic item: %s" % t.name)
                t.size = t.item.size * t.count
            elif t.kind == "vector":
                t.kind = "fixvec" if t.item.size is not None else "dynvec"
        elif t.kind in ("struct", "table"):
            t.fields = []
            for fname, ftype in t._field_names:
                ft = env[ftype]
                resolve(ft, st)
                t.fields.append((fname, ft))
            if t.kind == "struct":
                if any(ft.size is None for _, ft in t.fields):
                    raise ValueError("struct with dynamic field: %s" % t.name)
                t.size = sum(ft.size for _, ft in t.fields)
        elif t.kind == "union":
            t.items = {}
            for iid, iname in t._item_names:
                it = env[iname]
                resolve(it, st)
                t.items[iid] = it
        resolved.add(t.name)

    for name in order:
        resolve(decls[name])
    return {name: decls[name] for name in order}


# --------------------------------------------------------------------------------------------
# validation
# --------------------------------------------------------------------------------------------
def _dyn_header(b, s, e):
    """Header of a dynvec/table occupying b[s:e]; returns the list of item boundaries
    [off0, off1, ..., total] (absolute positions relative to s) or None if malformed.
    An empty list is returned for the empty encoding (total_size == 4)."""
    n = e - s
    if n < 4:
        return None
    total = U32.unpack_from(b, s)[0]
    if total != n:
        return None
    if n == 4:
        return []
    if n < 8:
        return None
    first = U32.unpack_from(b, s + 4)[0]
    if first % 4 != 0 or first < 8 or first > n:
        return None
    cnt = first // 4 - 1
    offs = list(struct.unpack_from("<%dI" % cnt, b, s + 4))
    offs.append(total)
    prev = first
    for o in offs:
        if o < prev:
            return None
        prev = o
    return offs


def valid(t, b, s=0, e=None, compat=False):
    """Is b[s:e] a valid encoding of type t?"""
    if e is None:
        e = len(b)
    k = t.kind
    n = e - s
    if k == "byte" or k == "array" or k == "struct":
        return n == t.size
    if k == "fixvec":
        if n < 4:
            return False
        cnt = U32.unpack_from(b, s)[0]
        return n == 4 + cnt * t.item.size
    if k == "option":
        return n == 0 or valid(t.item, b, s, e, compat)
    if k == "union":
        if n < 4:
            return False
        it = t.items.get(U32.unpack_from(b, s)[0])
        return it is not None and valid(it, b, s + 4, e, compat)
    if k == "dynvec":
        offs = _dyn_header(b, s, e)
        if offs is None:
            return False
        it = t.item
        for i in range(len(offs) - 1):
            if not valid(it, b, s + offs[i], s + offs[i + 1], compat):
                return False
        return True
    if k == "table":
        offs = _dyn_header(b, s, e)
        if offs is None:
            return False
        nf = len(t.fields)
        have = max(len(offs) - 1, 0)
        if have < nf or (have > nf and not compat):
            return False
        for i in range(nf):
            if not valid(t.fields[i][1], b, s + offs[i], s + offs[i + 1], compat):
                return False
        return True
    raise AssertionError(k)


# --------------------------------------------------------------------------------------------
# decode / canonical encode
#   byte -> int; array/fixvec of byte -> bytes; other array/fixvec/dynvec -> list;
#   struct -> list (field order); table -> list (field order, then raw `bytes` of extra fields);
#   option -> None | value; union -> (item_id, value)
# --------------------------------------------------------------------------------------------
def decode(t, b, s=0, e=None):
    """Decode a (compatible-)valid encoding. Caller must have validated first."""
    if e is None:
        e = len(b)
    k = t.kind
    if k == "byte":
        return b[s]
    if k == "array":
        it = t.item
        if it.kind == "byte":
            return bytes(b[s:e])
        return [decode(it, b, s + i * it.size, s + (i + 1) * it.size) for i in range(t.count)]
    if k == "struct":
        out = []
        p = s
        for _, ft in t.fields:
            out.append(decode(ft, b, p, p + ft.size))
            p += ft.size
        return out
    if k == "fixvec":
        it = t.item
        cnt = U32.unpack_from(b, s)[0]
        if it.kind == "byte":
            return bytes(b[s + 4:e])
        return [decode(it, b, s + 4 + i * it.size, s + 4 + (i + 1) * it.size) for i in range(cnt)]
    if k == "option":
        return None if e == s else decode(t.item, b, s, e)
    if k == "union":
        iid = U32.unpack_from(b, s)[0]
        return (iid, decode(t.items[iid], b, s + 4, e))
    offs = _dyn_header(b, s, e)
    if k == "dynvec":
        return [decode(t.item, b, s + offs[i], s + offs[i + 1]) for i in range(len(offs) - 1)]
    if k == "table":
        out = []
        nf = len(t.fields)
        for i in range(max(len(offs) - 1, 0)):
            if i < nf:
                out.append(decode(t.fields[i][1], b, s + offs[i], s + offs[i + 1]))
            else:
                out.append(bytes(b[s + offs[i]:s + offs[i + 1]]))
        return out
    raise AssertionError(k)


def _dyn(parts):
    n = len(parts)
    if n == 0:
        return b"\x04\x00\x00\x00"
    head = 4 * (n + 1)
    offs = []
    p = head
    for x in parts:
        offs.append(p)
        p += len(x)
    return struct.pack("<%dI" % (n + 1), p, *offs) + b"".join(parts)


def encode(t, v):
    k = t.kind
    if k == "byte":
        return bytes((v,))
    if k == "array":
        if t.item.kind == "byte":
            assert len(v) == t.count
            return bytes(v)
        assert len(v) == t.count
        return b"".join(encode(t.item, x) for x in v)
    if k == "struct":
        return b"".join(encode(ft, x) for (_, ft), x in zip(t.fields, v))
    if k == "fixvec":
        if t.item.kind == "byte":
            return U32.pack(len(v)) + bytes(v)
        return U32.pack(len(v)) + b"".join(encode(t.item, x) for x in v)
    if k == "option":
        return b"" if v is None else encode(t.item, v)
    if k == "union":
        return U32.pack(v[0]) + encode(t.items[v[0]], v[1])
    if k == "dynvec":
        return _dyn([encode(t.item, x) for x in v])
    if k == "table":
        nf = len(t.fields)
        parts = [encode(t.fields[i][1], v[i]) for i in range(nf)]
        parts.extend(bytes(x) for x in v[nf:])  # extra (opaque) fields
        if not parts:
            return b"\x04\x00\x00\x00"
        return _dyn(parts)
    raise AssertionError(k)


def header_positions(t, b, s=0, e=None, out=None):
    """Byte positions of every u32 header number (sizes, offsets, counts, union ids) in a valid
    encoding."""
    if out is None:
        out = []
    if e is None:
        e = len(b)
    k = t.kind
    if k in ("byte", "array", "struct"):
        return out
    if k == "fixvec":
        out.append(s)
        return out
    if k == "option":
        if e > s:
            header_positions(t.item, b, s, e, out)
        return out
    if k == "union":
        out.append(s)
        header_positions(t.items[U32.unpack_from(b, s)[0]], b, s + 4, e, out)
        return out
    offs = _dyn_header(b, s, e)
    out.append(s)
    for i in range(max(len(offs) - 1, 0)):
        out.append(s + 4 + 4 * i)
    if k == "dynvec":
        for i in range(len(offs) - 1):
            header_positions(t.item, b, s + offs[i], s + offs[i + 1], out)
    else:
        for i in range(min(len(t.fields), max(len(offs) - 1, 0))):
            header_positions(t.fields[i][1], b, s + offs[i], s + offs[i + 1], out)
    return out


# --------------------------------------------------------------------------------------------
# CKB hashing (definitions: util/gen-types/src/extension/calc_hash.rs, util/types/src/extension.rs,
# util/types/src/core/views.rs, merkle-cbt README)
# --------------------------------------------------------------------------------------------
ZERO32 = bytes(32)


def ckbhash(*chunks):
    h = hashlib.blake2b(digest_size=32, person=b"ckb-default-hash")
    for c in chunks:
        h.update(c)
    return h.digest()


def cbmt_root(leaves):
    """Complete binary merkle tree, array form: 2n-1 nodes, leaf i at n-1+i,
    node[i] = merge(node[2i+1], node[2i+2]); empty -> zero."""
    n = len(leaves)
    if n == 0:
        return ZERO32
    nodes = [None] * (n - 1) + list(leaves)
    for i in range(n - 2, -1, -1):
        nodes[i] = ckbhash(nodes[2 * i + 1], nodes[2 * i + 2])
    return nodes[0]


def _table_fields(b, s=0, e=None):
    """Raw field slices of a table/dynvec (including extra fields)."""
    if e is None:
        e = len(b)
    offs = _dyn_header(b, s, e)
    return [bytes(b[s + offs[i]:s + offs[i + 1]]) for i in range(max(len(offs) - 1, 0))]


def tx_hashes(tx):
    """tx: bytes of a Transaction table -> (tx_hash, witness_hash)."""
    raw = _table_fields(tx)[0]
    return ckbhash(raw), ckbhash(tx)


def header_hash(header):
    return ckbhash(header)  # 208 bytes: RawHeader || nonce


def proposals_hash(pvec):
    """pvec: bytes of ProposalShortIdVec (fixvec of 10-byte ids)."""
    cnt = U32.unpack_from(pvec, 0)[0]
    if cnt == 0:
        return ZERO32
    return ckbhash(pvec[4:4 + 10 * cnt])


def uncles_hash(uvec):
    """uvec: bytes of UncleBlockVec (dynvec of tables {header, proposals})."""
    uncles = _table_fields(uvec)
    if not uncles:
        return ZERO32
    return ckbhash(*[header_hash(_table_fields(u)[0]) for u in uncles])


def block_hashes(blk):
    """blk: bytes of a Block (maybe with the extension as 5th field). Returns dict of hex."""
    f = _table_fields(blk)
    header, uncles, txs, proposals = f[0], f[1], f[2], f[3]
    out = {}
    out["header_hash"] = header_hash(header)
    out["proposals_hash"] = proposals_hash(proposals)
    uh = uncles_hash(uncles)
    out["uncles_hash"] = uh
    if len(f) > 4:
        ext = f[4]
        cnt = U32.unpack_from(ext, 0)[0]
        eh = ckbhash(ext[4:4 + cnt])
        out["extension_hash"] = eh
        out["extra_hash"] = ckbhash(uh, eh)
    else:
        out["extra_hash"] = uh
    th = [tx_hashes(t) for t in _table_fields(txs)]
    raw_root = cbmt_root([a for a, _ in th])
    wit_root = cbmt_root([w for _, w in th])
    out["raw_transactions_root"] = raw_root
    out["witnesses_root"] = wit_root
    out["transactions_root"] = cbmt_root([raw_root, wit_root])
    out["tx_hashes"] = b"".join(a for a, _ in th)
    out["tx_witness_hashes"] = b"".join(w for _, w in th)
    return out


def expected_hashes(tname, b):
    """All hashes the oracle knows for a strict-valid value of type tname: {key: bytes}."""
    if tname == "Transaction":
        a, w = tx_hashes(b)
        return {"tx_hash": a, "witness_hash": w}
    if tname == "RawTransaction":
        return {"tx_hash": ckbhash(b)}
    if tname == "Header":
        return {"header_hash": ckbhash(b), "pow_hash": ckbhash(b[:192])}
    if tname == "RawHeader":
        return {"pow_hash": ckbhash(b)}
    if tname == "Script":
        return {"script_hash": ckbhash(b)}
    if tname == "Bytes":
        raw = b[4:]
        return {"raw_data_hash": ckbhash(raw), "cell_data_hash": ZERO32 if not raw else ckbhash(raw)}
    if tname == "CellOutput":
        return {"lock_hash": ckbhash(_table_fields(b)[1])}
    if tname == "ProposalShortIdVec":
        return {"proposals_hash": proposals_hash(b)}
    if tname == "UncleBlockVec":
        return {"uncles_hash": uncles_hash(b)}
    if tname == "UncleBlock":
        f = _table_fields(b)
        return {"header_hash": header_hash(f[0]), "proposals_hash": proposals_hash(f[1])}
    if tname in ("Block", "BlockV1"):
        return block_hashes(b)
    if tname in ("CompactBlock", "CompactBlockV1"):
        return {"header_hash": header_hash(_table_fields(b)[0])}
    if tname == "RawAlert":
        return {"alert_hash": ckbhash(b)}
    if tname == "Alert":
        return {"alert_hash": ckbhash(_table_fields(b)[0])}
    if tname == "HeaderDigest":
        return {"mmr_hash": ckbhash(b)}
    return {}


# --------------------------------------------------------------------------------------------
# CLI glue (generation lives in molecule_gen.py)
# --------------------------------------------------------------------------------------------
def _selftest(schema_dir):
    import random
    import molecule_gen as g
    types = load_schemas(schema_dir)
    rng = random.Random(7)
    n = 0
    for name, t in types.items():
        for _ in range(40):
            v = g.gen_value(t, rng, g.Budget(rng.choice((64, 400, 4000))))
            b = encode(t, v)
            assert valid(t, b), name
            assert valid(t, b, compat=True), name
            assert decode(t, b) == v, name
            assert encode(t, decode(t, b)) == b, name
            for p in header_positions(t, b):
                assert 0 <= p <= len(b) - 4, (name, p)
            n += 1
    # known vectors
    assert ckbhash(b"").hex() == "44f4c69744d5f8c55d642062949dcae49bc4e7ef43d388c5a12f42b5633d163e"
    assert cbmt_root([]) == ZERO32
    print("selftest ok: %d values over %d types" % (n, len(types)))


def main(argv):
    here = os.path.dirname(os.path.abspath(__file__))
    if here not in sys.path:
        sys.path.insert(0, here)
    if len(argv) < 3:
        sys.stderr.write(__doc__)
        return 2
    cmd, schema_dir = argv[1], argv[2]
    if cmd == "types":
        for name, t in load_schemas(schema_dir).items():
            print(name, t.kind)
        return 0
    if cmd == "selftest":
        _selftest(schema_dir)
        return 0
    opts = {}
    rest = argv[3:]
    i = 0
    while i < len(rest):
        if rest[i].startswith("--") and i + 1 < len(rest):
            opts[rest[i][2:]] = rest[i + 1]
            i += 2
        else:
            i += 1
    if cmd == "gen":
        import molecule_gen as g
        return g.cmd_gen(load_schemas(schema_dir), opts)
    if cmd == "verify":
        import molecule_gen as g
        return g.cmd_verify(load_schemas(schema_dir), opts)
    sys.stderr.write("unknown command %s\n" % cmd)
    return 2


if __name__ == "__main__":
    sys.exit(main(sys.argv))
