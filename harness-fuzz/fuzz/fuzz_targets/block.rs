#![no_main]
libfuzzer_sys::fuzz_target!(|data: &[u8]| {
    vfuzz::fuzz_decode("Block", data);
});
