//! libFuzzer entry points shared by the targets in ../fuzz.
//!
//! The walker is the one of the vcodec engine (`walk.rs`, included by path). A finding whose
//! signature is listed in `VFUZZ_KNOWN` (comma separated; the engine passes the signatures of
//! /verif/known_findings.json) is ignored so that the fuzzer keeps exploring behind it; any
//! other finding aborts the process, which libFuzzer records as a crash artifact. The engine
//! re-runs every artifact through its own child walker to obtain signature and witness.

#[path = "../../harness/vcodec/src/types.rs"]
#[allow(dead_code)]
pub mod types;
#[path = "../../harness/vcodec/src/util.rs"]
#[allow(dead_code)]
pub mod util;
#[path = "../../harness/vcodec/src/walk.rs"]
#[allow(dead_code)]
pub mod walk;

use std::sync::OnceLock;

static CTX: OnceLock<walk::Ctx> = OnceLock::new();
static KNOWN: OnceLock<Vec<String>> = OnceLock::new();

fn init() -> (&'static walk::Ctx, &'static Vec<String>) {
    let ctx = CTX.get_or_init(|| {
        // replaces the abort-on-panic hook of libfuzzer-sys: panics are caught per step
        util::install_panic_capture();
        walk::Ctx::new()
    });
    let known = KNOWN.get_or_init(|| {
        std::env::var("VFUZZ_KNOWN")
            .unwrap_or_default()
            .split(',')
            .filter(|s| !s.is_empty())
            .map(|s| s.to_string())
            .collect()
    });
    (ctx, known)
}

/// from_slice / from_compatible_slice + walk of everything, as in `vcodec hostile`.
pub fn fuzz_decode(ty: &str, data: &[u8]) {
    let (ctx, known) = init();
    let mut out = walk::Out::new();
    let mut verdict = [false, false];
    for (i, compat) in [false, true].into_iter().enumerate() {
        match walk::verify(ty, data, compat) {
            Some(Ok(v)) => verdict[i] = v,
            Some(Err(msg)) => out.findings.push(util::Finding::new(
                format!("panic@{ty}.verify_{}", if compat { "compat" } else { "strict" }),
                msg,
            )),
            None => panic!("unknown type {ty}"),
        }
    }
    if verdict[0] {
        walk::walk(ctx, ty, data, false, true, &mut out, 0);
    } else if verdict[1] {
        walk::walk(ctx, ty, data, true, false, &mut out, 0);
    }
    for f in &out.findings {
        if !known.iter().any(|k| k == &f.sig) {
            eprintln!("VFUZZ-FINDING {} :: {}", f.sig, f.detail);
            std::process::abort();
        }
    }
}

/// network frame decompression (function and codec).
pub fn fuzz_decompress(data: &[u8]) {
    use ckb_network::bytes::BytesMut;
    const MAX: usize = 1 << 23;
    let _ = init();
    let r = util::guarded(|| ckb_network::compress::decompress(BytesMut::from(data)));
    match r {
        Ok(Ok(out)) => {
            if !data.is_empty() && data[0] & 0x80 != 0 && out.len() > MAX {
                eprintln!("VFUZZ-FINDING decompress.exceeds_max :: {}", out.len());
                std::process::abort();
            }
        }
        Ok(Err(_)) => {}
        Err(msg) => {
            eprintln!("VFUZZ-FINDING panic@decompress :: {msg}");
            std::process::abort();
        }
    }
}
