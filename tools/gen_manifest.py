#!/usr/bin/env python3
"""Regenerates /verif/MANIFEST.json from the table below (run after adding a check)."""
import json, subprocess

ROOT = "/verif"
ids = [json.loads(l)["id"] for l in open(f"{ROOT}/properties.jsonl")]

hook_commits = subprocess.run(
    ["git", "-C", "/repo", "log", "--format=%H %s", "--reverse"], capture_output=True, text=True
).stdout.strip().splitlines()
hooks = [l.split()[0] for l in hook_commits if " verif hook " in " " + l.split(" ", 1)[1] or l.split(" ", 1)[1].startswith("verif hook")]

CHAIN_NOTE = ("Trusted: RocksDB snapshot isolation / WAL atomicity; blake2b and U256 primitives; dao/reward/epoch fields of "
              "generated blocks are filled in by production calculators (their correctness is C06/C07's question). "
              "Only schedules, trees and orders the workload produced are judged.")

CHECKS = {
    "C01": dict(engine="chain", category="exploration", design="4/C01",
                technique="runtime monitoring: RefChain oracle over callbacks, published tips (hook H3) and final state; seeded delay injection; panic monitor",
                text="Random block trees (forks, uneven difficulty across an epoch boundary, invalid blocks and re-parented descendants of invalid blocks) are delivered to fresh real nodes under in-order / reverse / random / child-before-parent / duplicate-heavy / switch-back (A -> B -> A, first blocks re-attached as already verified) / orphans-across-the-clean-up-timer (hook H3b) arrival orders, 1-4 submitter threads and seeded delay plans at the hook points between the insert / preload / verify threads. Oracles: every connectable valid block is answered, no valid block is reported failed, published tips strictly increase in total difficulty and are fully valid, the final tip is in the model's arg-max set of fully valid chains, no connectable block is left in the orphan pool, no node thread panics; a sample of nodes is restarted on the same database (production open path) and must come back with the same tip. Held = on the executions observed.",
                note=CHAIN_NOTE),
    "C02": dict(engine="chain", category="exploration", design="4/C02",
                technique="runtime monitoring: raw column dumps of store and of concurrently loaded snapshots compared both ways with an independent replay model",
                text="At every quiescent point of every delivered node, on the builder node after all its truncations, and inside snapshots loaded by reader threads while blocks are being processed, all canonical columns (live cells with data and data hash, tx locations, number<->hash index, uncle index, tip, current epoch, per-block epoch records, epoch-number index, block ext incl. fees/sizes/accumulated difficulty, MMR nodes) are dumped raw and compared in both directions with a replay of the model's main chain; repeated after a restart of the node on the same database.",
                note=CHAIN_NOTE),
    "C19": dict(engine="chain+filter", category="exploration", design="4/C19",
                technique="runtime monitoring: own MMR model vs committed roots on every fork; proofs from the node verified against committed and rival roots; stored block filters decoded and matched against the model's scripts per main-chain block, with the builder thread held at hook points (H9) while reorgs are delivered",
                text="For every generated block on every fork the committed chain root is compared with the harness's own MMR over the ancestors' digests; after every delivery run (i.e. after reorgs, incl. to shorter heavier branches) the root served by the node is checked to be the one the tip commits to, membership proofs for random position sets must verify against it and must not verify against the root of a competing fork; stored MMR nodes are compared with the model (shared with C02). Block-filter part (engine vfilter): the real BlockFilter builder runs after some operations only (backlogs, fork recovery) on a node that goes through real reorgs; for every main-chain block a filter must be stored, match blake2b(script) of every output lock/type and every spent-input lock/type (inputs from the model's replay of the parent plus same-block outputs), not match a control script, chain its hash to the parent's, and the latest-built marker must equal the tip; race episodes hold the builder between its snapshot and a block build while a heavier branch is delivered and later abandoned again.",
                note=CHAIN_NOTE),
    "C20": dict(engine="chain+pool", category="exploration", design="4/C20",
                technique="runtime monitoring: proposal view of every published snapshot (hook H3) vs own window arithmetic; dropped ids reported to the tx-pool (hook H5 notification log) vs model window difference",
                text="The proposal view (set/gap) of every published snapshot, of concurrently loaded snapshots, of quiescent nodes and of the builder node after truncations is compared with the model's window sets computed by its own arithmetic over the main chain (proposal ids of blocks and their uncles), for windows (2,10), (1,3), (1,1); also after a restart of the node on the same database (table rebuilt by the start-up path). Pool-side clauses (engine pool, nodes running a tx-pool and block assembler through random submissions, blocks, reorgs of depth 1..w_far+3 and own mined templates): every notification the chain service sends to the pool carries exactly set(old tip) minus set(new tip) of the model as dropped ids, and the published view equals the model window at every tip change.",
                note=CHAIN_NOTE),
    "C07": dict(engine="arith", category="exploration", design="4/C07",
                technique="runtime monitoring: real APIs driven over boundary-biased inputs, JSONL records judged by an exact-arithmetic Python oracle; Miri on pure-Rust arithmetic (thorough)",
                text="next_epoch_ext (mock EpochProvider, one-shot and along synthetic multi-epoch chains), primary_epoch_reward / block_reward / secondary issuance sums, compact<->target<->difficulty conversions, the three PoW engines and the epoch-fraction successor predicate are driven over boundary-biased inputs; every record is re-derived exactly (int/Fraction) by oracles/arith.py written from RFC-0020/0015. Thorough adds a Miri pass over ckb-rational, eaglesong and compact/difficulty code.",
                note="Trusted: Python int/Fraction arithmetic, hashlib.blake2b. hash == target equality is unreachable by search (stated in evidence). Miri stops at the first UB of a stage; UB inside the third-party numext crate is listed as known finding."),
}


POOL_NOTE = ("Trusted: the H5 dump is taken under the pool's own write lock; ckb-types accessors to read transactions; "
             "the builder node stands for the rest of the network. Genuine tx-pool defects that are not repaired are listed in known_findings.json "
             "by cause-specific signature suffixes computed by the harness (see DESIGN section 10).")
CHECKS.update({
    "C11": dict(engine="pool", category="exploration", design="4/C11",
                technique="runtime monitoring: invariant recomputation over the pool dump (hook H5) after every operation of random op sequences on the real tx-pool service",
                text="Random operation sequences (submissions over tx DAGs with chains, shared cell deps and header deps, conflicting submissions with RBF on/off, removals, expiry by virtual time, size-limit eviction with small limits, blocks and reorgs of depth 1..w_far+3, template mining, cell-dep users of cells a pooled transaction spends, submissions parked at the pool lock while a block commits a conflicting transaction, sessions with small max_block_bytes / max_block_cycles with late fills and child-pays-for-parent packages, replacements of several transactions paying exactly the same fee (unrelated / parent+child / diamond) aimed at and just below the threshold, a committed creator taken back into the pool below its pooled dep user and spender and then conflicted out) drive the real TxPoolService; after every operation the dump is judged by recomputation: no double spends, input/dep/header-dep indexes equal the entries, links symmetric and equal to actual spends/deps (L_min subset links subset L_allowed), ancestor/descendant aggregates equal a fold over the link closure (also as reported by get_all_entry_info), totals and per-status counters, ancestor limit, replacement fee accounting.",
                note=POOL_NOTE),
    "C12": dict(engine="pool", category="exploration", design="4/C12",
                technique="runtime monitoring: pool dump vs RefChain after every tip change; reorg notification log (hook H5) vs model forks",
                text="After every tip change (extension, reorg, own template mined) and logical pool quiescence: no pooled tx is committed on the model main chain, every input/dep is live there or a pooled output, header deps are on the main chain, transactions committed only on the abandoned branch and absent from the pool are not admissible (test_accept_tx) unless policy explains it, each entry's stage equals the model's window classification (mine mode), and the pool received one notification per tip change with the model's detached/attached blocks and dropped proposal ids. A dangling input/dep is attributed to a listed known finding only when the harness's own log of that very tip change proves the listed cause (creator detached by this tip change and not re-admitted; creator in the family of an id the chain reported as dropped); any other way of losing a creator while keeping its descendants is reported.",
                note=POOL_NOTE),
    "C13": dict(engine="pool", category="exploration", design="4/C13",
                technique="runtime monitoring: every template is sealed and run through the node's own full verification on a dropped store transaction; a fraction is mined on the node and on a second node",
                text="Templates requested after every pool/chain operation are converted exactly as the miner does, sealed, and run through HeaderVerifier, BlockVerifier, NonContextualBlockTxsVerifier and ContextualBlockVerifier (non-committing) on the node itself; size/cycle limits, parents-first order and in-window proposals are checked structurally; ~45% are mined: the node and a second node must accept them.",
                note=POOL_NOTE),
    "C03": dict(engine="rules", category="exploration", design="4/C03",
                technique="runtime monitoring: single-rule mutants and boundary-valid variants of valid candidate blocks through the real pipeline (HeaderVerifier + chain service) with full-state before/after comparison; RefChain facts for window / median / uncle eligibility",
                text="On tips of random block trees (epoch heads/tails, windows (2,10) (1,3) (2,4) (1,1), lowered proposal limit, a real-PoW context) a valid candidate is drafted on the builder node; ~57 single-rule violations (number, epoch fraction, timestamp vs past median / future bound, target, PoW, merkle/proposal/extra hashes, cellbase shape, reward amount/lock/presence, each dao component +-1, duplicates, proposal limit, extension shapes and chain root, uncle count/duplicate/epoch/target/descent/double inclusion/proposals hash, commit not proposed / too recent / expired by exactly one block (window ladder: an uncommitted proposal at every distance 1..w_far+2); mutants that change the transaction set get their dao field recomputed so that they break one rule only; a tiny-reward context where every cellbase must stay empty must be rejected by the header check or reported Err by the chain service with the full store dump and tip unchanged; boundary-valid variants (median+1, now+15s, extension 32/96 bytes, limits exactly met, commit exactly at w_close / w_far) must be attached. Side branches: an invalid block parked on a lighter branch plus re-parented descendants making it heavier must be refused as a whole (submitter gets Err, canonical state unchanged); the valid twin branch must then be attached.",
                note="Trusted: mutants break exactly one rule by construction; dao/reward of the valid candidate come from production calculators (C06). Block version is not a consensus rule (versionbits) and is not mutated."),
    "C08": dict(engine="crash", category="fault_enumeration", design="4/C08",
                technique="runtime monitoring under injected faults: process death at every durable write (hook H2) in child processes, recovery through the production open path, dumps judged by RefChain",
                text="For generated histories (forks, invalid blocks, orphan and duplicate arrival) a child process importing the history is killed immediately before / after its k-th durable write (transaction commit or batch write), for every k in the thorough tier (every 5th in quick) plus sampled second crashes during recovery; a recovery child reopens the database through SharedBuilder::new (migration check, InitLoadUnverified), dumps, redelivers everything and dumps again. Oracles: reopen succeeds, the recovered state equals a replay of the reported tip's chain (all C02 columns), the tip is a delivered valid block, no stored block with a judged parent is left unverified, after redelivery the tip is in the arg-max set and equals the uncrashed baseline when unique.",
                note="Trusted: RocksDB WAL atomicity (a crash is modelled as process death before/after a durable write, not a torn write inside RocksDB). Which thread performs write k depends on real scheduling; every observed recovery is judged on its own."),
    "C10": dict(engine="freeze", category="fault_enumeration", design="4/C10",
                technique="runtime monitoring under injected faults: answer vectors of every chain query before / during / after freezing, after restart and after process death at every durable write of the wipe-out (hook H2), compared with answers derived from the RefChain model; freeze pass driven through hook H4",
                text="Chains of several tiny epochs with forks at heights that become frozen, uncles, proposals and extensions are imported into a path database with the freezer enabled (child processes). The answer vector (block, packed block, header, body, tx hashes, cellbase, uncles, proposals, extension also through the script data loader, transactions with location, ancestors, number index, live cells) is evaluated before freezing, by reader threads during Shared::freeze, after freezing with warm caches, after a second pass, after restart with cold caches, after a crash immediately before/after every durable write of the freeze/wipe-out sequence followed by restart and a further pass, and with the freezer disabled; every vector must equal the answers derived from the model's copies of the blocks. Frozen range: only heights below the model's two-epoch threshold, complete and contiguous, a second pass moves nothing; side-chain blocks survive at unfrozen heights.",
                note="Trusted: RocksDB WAL atomicity; byte-level cuts of the freezer files are C09's subject (not repeated here); virtual time keeps the node out of IBD."),
    "C15": dict(engine="codec", category="exploration", design="4/C15",
                technique="runtime monitoring: differential against an independent molecule implementation and hash definitions (oracles/molecule.py) over schema-driven values and mutations",
                text="Schema-driven random values and single-field/byte/offset mutations for all 127 packed types: strict/compatible acceptance must agree with the independent validator, accepted bytes must be reproduced by a field-by-field rebuild, packed<->JSON round trips, every hash recomputed by the Python oracle from its own parse, cached hashes of views built through every constructor path.",
                note="Trusted: Python hashlib.blake2b; the .mol schema files as the specification of the encodings."),
    "C16": dict(engine="codec-hostile", category="exploration", design="4/C16",
                technique="runtime monitoring: hostile byte strings through decoders and every accessor/verifier under catch_unwind in child processes; libFuzzer+ASan and Miri in the thorough tier",
                text="Random bytes and well-formedness-keeping/-breaking mutations of valid messages for every protocol and consensus type go through from_slice/from_compatible_slice, and on success through every accessor, conversion, hash and context-free verifier behind the node's own guards; panics, aborts (child processes, bisected) and super-linear time are the refuting events; compress/decompress frames incl. oversized declarations. Thorough adds 7 libFuzzer+ASan targets and a Miri pass. Part (c), engine vrelay: against a real node with Relayer, random pool subsets, arbitrary prefilled sets and 27 tamper kinds (short ids incl. simulated collisions, prefilled entries, uncles, proposals, extension), random received transactions / uncles; reconstruct_block (behind the node's CompactBlockVerifier) may only return a block whose header is byte-identical to the announced one and whose transactions root, proposals hash and extra hash recomputed by the harness equal the header's; Missing must equal the model's index sets; honest compact blocks reconstruct byte-identically; message-level episodes through Relayer::received must never panic the handler nor make an unannounced block the tip.",
                note="Trusted: the harness replicates the synchronizer/relayer guards (extra-field count, BlockV1 validity, check_data) before the calls the node makes next. MAX_UNCOMPRESSED_LEN hard-coded (private constant)."),
    "C17": dict(engine="structs", category="exploration", design="4/C17",
                technique="runtime monitoring: bounded-exhaustive and random op sequences against reference models; Wing-Gong linearizability check of concurrent HeaderMap histories with delays at hook points",
                text="OrphanBlockPool vs set model (all op sequences <=5/6 over all forest shapes <=5 blocks, random to 200 blocks, concurrent conservation), InflightBlocks vs map model under virtual time (exhaustive <=4/5 ops, random, eviction workloads), HeaderMap vs HashMap with spills at every position (sequences <=7/8, limits 1-3) and concurrent per-key linearizability, skip-list ancestors and locators vs parent walking.",
                note="Trusted: virtual time (ckb-systemtime faketime). Concurrency defects of HeaderMap and one InflightBlocks defect are known findings."),
})

CHECKS.update({
    "C04": dict(engine="tx", category="exploration", design="4/C04",
                technique="runtime monitoring: candidate transactions with model-computed thresholds judged by the real pool (test_accept_tx) and the real chain service (single-tx block) on nodes that reached the same context through different delivery orders",
                text="Generated chain contexts (tiny epochs of several lengths, windows, forks, uncles) x ~40 candidate transactions per context: valid bases and single-rule violations (dead / unknown / duplicate / side-branch inputs, dead / unknown / duplicate cell deps, dep groups with live members / malformed data, header deps on the main chain / side branch / unknown / duplicate, capacity overflow by one shannon and output one shannon below occupied, since absolute/relative x block/epoch/timestamp exactly at the threshold and one unit early, malformed since encodings, cellbase exactly mature / one block early, always_failure lock / type, secp256k1 valid / corrupted signature, several inputs with mixed since values, dep-group expansion exactly at / one over the limit of 2048 with and without the pre-resolved system dep group, several transactions in one block: spend of an earlier / later output, double spend across transactions, cell dep spent earlier / later in the block, dep-group member spent earlier in the block, inputs created / spent in blocks that were re-attached after a switch-back, inputs spent only on a side branch). Thresholds for the commit position come from the RefChain model (block numbers, epoch fractions, past medians, cellbase positions). Each candidate is judged alone in a block at the commit position and by the pool at the tip; expected verdicts come from construction. Soundness: whatever the pool accepts must be valid in the next block. History independence: the verdict vectors of a node that received everything in reverse (orphan-first) order, of a node whose main chain lost to a side branch and won again, and of a node that synchronised through two assume-valid targets must equal the direct node's. A block refused only because of its dao field although the harness could not even resolve its body is reported (every transaction rule let it pass).",
                note="Trusted: single-rule construction of candidates; bundled always_success / always_failure / secp256k1 binaries. The pool's conservative commit-position estimate is honoured: pool expectations are only set where it cannot matter."),
    "C14": dict(engine="tx", category="exploration", design="4/C14",
                technique="runtime monitoring: differential between a warm node with default caches and a node with store caches of size 0/1 whose verification cache is cleared before every event; repeated events on the warm node (cache hits)",
                text="The C04 candidate/event sequence is replayed on a warm node and on a cold node (StoreConfig cache sizes 0 or 1, txs_verify_cache cleared before every event): pool and block verdicts, recorded fees / cycles / sizes (BlockExt) and the chain answer vector (blocks, headers, transactions, cells of the whole context) must be identical; every event is repeated on the warm node after the verification cache has been filled by the pool and block paths (context-dependent candidates: since, maturity, liveness must still be refused); a block carrying a transaction with a corrupted signature after its valid twin (same tx hash, different witness) was cached must be refused; commit-position shift: since / maturity candidates cached as valid for position n are offered at position n-1 and must be refused; half of the contexts run with the process-wide SYSTEM_CELL cache initialised as `ckb run` does, half without. Also compared between the two nodes: what the store answers about the hash of a probe block refused and deleted as invalid, about the first output of a candidate whose block was attached, read once and truncated away, and about every attached probe block whose hash had been asked about once before the block was delivered. Script-skip episode: a node with one assume-valid target imports a sibling of the target block (same transaction, scripts off), is truncated back and imports the target block with full verification, with and without clearing the verification cache in between: verdict and recorded cycles must equal those of a directly synchronised node.",
                note="Trusted: an LRU of capacity 0 disables a cache (measured, DESIGN section 9)."),
    "C05": dict(engine="script", category="exploration", design="4/C05",
                technique="runtime monitoring: differential of chunked / signalled executions of the real ckb-script scheduler against the uninterrupted run of the same transaction; pause points recorded through hook H6",
                text="For every (transaction, VM version) of a corpus of bundled and test-vector scripts (spawn/pipe/exec trees, syscalls, load-cell loops, always_success, secp256k1) the uninterrupted verify(unlimited) gives the reference verdict and cycles C. resumable_verify / resume_from_state under constant, growing, windowed and random per-chunk limits, complete() from every intermediate state, budgets C-1 / C / C+k, and resumable_verify_with_signal under seeded Suspend/Resume/Stop sequences must give the same verdict and C, never succeed with less than C, never consume more than C in total.",
                note="Trusted: the uninterrupted run as the reference (C03/C04 check its verdict against construction). Scheduler iteration-accounting defects with several VMs are known findings."),
    "C09": dict(engine="freezer", category="fault_enumeration", design="4/C09",
                technique="runtime monitoring under injected faults: the real ckb-freezer against a Vec<Vec<u8>> model; crash states enumerated as every (data-file cut, index-file cut) pair after every operation, then reopened through the production open path",
                text="Random and directed histories of append / truncate / retrieve / reopen on FreezerFiles and Freezer with tiny max file sizes (roll-over at every position, empty items, items larger than a file). After every operation the directory is copied and every byte cut of the head data file combined with every cut of the index file (all positions in thorough, strided in quick) is reopened: open must succeed or fail cleanly, the recovered item count is a prefix of the model containing every item acknowledged before the last sync, every retrievable item is byte-identical to the model, appends after recovery keep all of it.",
                note="Trusted: the file system keeps synced bytes and truncates files at a byte position (no torn sectors, no reordering across fsync)."),
    "C06": dict(engine="econ", category="exploration", design="4/C06",
                technique="runtime monitoring: offline checker with exact integer arithmetic (oracles/econ.py, written from the RFCs) over the recorded block log of generated histories on a real node, on every fork",
                text="Histories with random fees, proposers spread over main-chain blocks and uncles, re-proposals inside the window, several epoch lengths with remainder rewards, NervosDAO deposits / withdraw phases 1 and 2, forks and truncations are generated on a real node; every block ever accepted (on every fork) is exported and the Python checker recomputes primary / secondary issuance, the committer and proposer shares per fee (earliest proposer, each share paid once), the cellbase amount and lock, every DAO field component (C, AR, S, U) from the parent's, U against the occupied capacity of the replayed live-cell set, and withdrawal maxima; compared with the recorded cellbase outputs, headers and BlockExt fees.",
                note="Trusted: the RFC formulas as transcribed in oracles/econ.py; block template numbers come from production calculators but are only inputs to be judged. One consensus-affecting defect (proposer share of block #1) is a known finding."),
    "C18": dict(engine="indexer", category="exploration", design="4/C18",
                technique="runtime monitoring: the real ckb-indexer (hook H8) and the real ckb-rich-indexer on in-memory SQLite (hook H8b) following a builder node through reorgs exactly as IndexerSyncService decides; every RPC answer compared with a direct filter over a model folded from the harness's own block copies; byte dump of the index before append vs after rollback (answers before / after for the SQL indexer)",
                text="Generated histories with reorgs, shared / prefix-related lock and type scripts, cells created and consumed in the same block, pruning (keep_num / prune_interval) are followed by the real Indexer through append / rollback; at tips and after steps, generated search keys (lock / type, prefix / exact, filter script, script_len / data / data_len / capacity / block ranges, asc / desc, page sizes and cursors, grouped transactions) are answered by IndexerHandle::{get_cells, get_transactions, get_cells_capacity, get_indexer_tip} and by the model; rollback of the last block must restore the raw key-value dump taken before it was appended (within retention). Rich-indexer part: an AsyncRichIndexer on in-memory SQLite follows a share of the same histories (plus histories whose args and data are made of 0xff bytes) through append / rollback of any depth; get_cells / get_transactions (grouped and ungrouped) / get_cells_capacity / get_indexer_tip are judged by the same model for lock / type keys in exact / prefix / default / partial mode with every filter kind, asc / desc, cursor walks with small pages, and append(b); rollback() must restore every answer for a key set.",
                note="Trusted: the documented RPC semantics ([inclusive, exclusive) ranges, prefix default); for the rich-indexer its documented differences (partial mode everywhere, every filter kind in get_transactions, filter.script matched as prefix, opaque cursors, unspecified order inside one transaction, null capacity when nothing matches) are encoded as assumptions in the evidence; SQLite only (the PostgreSQL branches of the SQL builders are not run). Prefix searches with args ending in zero bytes (RocksDB indexer) and prefixes made of 0xff bytes (rich-indexer) are known findings."),
})

NOT_YET = "check under construction (DESIGN.md section 4); not claimed yet"

checks = []
for pid, c in CHECKS.items():
    checks.append({
        "property_id": pid,
        "quick_cmd": f"./check {pid} --tier quick",
        "thorough_cmd": f"./check {pid} --tier thorough",
        "evidence_file": f"/verif/evidence/{pid}.json",
        "replay_cmd_template": f"./check {pid} --replay {{path}}",
        "engine": c["engine"],
        "level_claimed": {"category": c["category"], "text": c["text"], "design_ref": c["design"]},
        "level_note": c["note"],
        "technique": c["technique"],
    })

engines = [
    {"name": "chain", "path": "harness/vmon/src/engines/chain.rs", "serves_properties": ["C01", "C02", "C19", "C20"],
     "kind_free_text": "real nodes + builder node + RefChain model; hooks H1/H3"},
    {"name": "arith", "path": "harness/varith", "serves_properties": ["C07"],
     "kind_free_text": "API driver + oracles/arith.py exact oracle; harness-miri/arith"},
    {"name": "rules", "path": "harness/vmon/src/engines/rules.rs", "serves_properties": ["C03"],
     "kind_free_text": "mutators over drafted candidate blocks; real pipeline on a synchronised node"},
    {"name": "crash", "path": "harness/vmon/src/engines/crash.rs", "serves_properties": ["C08"],
     "kind_free_text": "parent + crash/recovery child processes; hook H2 (ckb-db durable write counter / abort)"},
    {"name": "freeze", "path": "harness/vmon/src/engines/freeze.rs", "serves_properties": ["C10"],
     "kind_free_text": "parent + build/freeze/restart child processes on a path database with freezer; hooks H2, H4"},
    {"name": "pool", "path": "harness/vmon/src/engines/pool.rs", "serves_properties": ["C11", "C12", "C13", "C20"],
     "kind_free_text": "real tx-pool service + builder node + RefChain; hook H5"},
    {"name": "codec", "path": "harness/vcodec", "serves_properties": ["C15", "C16"],
     "kind_free_text": "oracles/molecule.py independent codec; harness-fuzz; harness-miri/codec"},
    {"name": "structs", "path": "harness/vstructs", "serves_properties": ["C17"],
     "kind_free_text": "reference models + linearizability checker; hooks H3/H4/H7"},
]

m = {
    "version": 1,
    "setup_cmd": "cd /verif/harness && cargo build --offline",
    "hooks": {
        "guard": "ckb_verif",
        "enable": "rustc cfg flag `--cfg ckb_verif`, set via [build] rustflags in /verif/harness/.cargo/config.toml; every check runs `cargo build --offline` in /verif/harness, whose path dependencies point at /repo's working tree",
        "baseline_off_cmd": "cd /repo && cargo nextest run --workspace --no-fail-fast --tool-config-file pb:/w/lib/nextest.toml --profile pb --test-threads 8 --offline || cargo test --workspace --no-fail-fast --offline",
        "source_commits": hooks,
        "add_only": True,
    },
    "engines": engines,
    "checks": checks,
    "not_applicable": [{"property_id": i, "reason": NOT_YET} for i in ids if i not in CHECKS],
    "notes": "Verdicts are three-valued (held / VIOLATION exit 1 / INCONCLUSIVE exit 2). Known findings: /verif/known_findings.json. See DESIGN.md.",
}
json.dump(m, open(f"{ROOT}/MANIFEST.json", "w"), indent=1)
print("checks:", [c["property_id"] for c in checks], "hooks:", len(hooks))
