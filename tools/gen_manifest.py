#!/usr/bin/env python3
"""Regenerates /verif/MANIFEST.json from the table below (run after adding a check)."""
import json, subprocess

ROOT = "/verif"
ids = [json.loads(l)["id"] for l in open(f"{ROOT}/properties.jsonl")]

hook_commits = subprocess.run(
    ["git", "-C", "/repo", "log", "--format=%H %s", "--reverse"], capture_output=True, text=True
).stdout.strip().splitlines()
hooks = [l.split()[0] for l in hook_commits if " verif hook " in " " + l.split(" ", 1)[1] or l.split(" ", 1)[1].startswith("verif hook")]

CHAIN_NOTE = ("Trusted: RocksDB snapshot isolation / WAL atomicity; blake2b and U256 primitives; dao/reward/epoch fields of "
              "generated blocks are filled in by production calculators (their correctness is C06/C07's question). "
              "Only schedules, trees and orders the workload produced are judged.")

CHECKS = {
    "C01": dict(engine="chain", category="exploration", design="4/C01",
                technique="runtime monitoring: RefChain oracle over callbacks, published tips (hook H3) and final state; seeded delay injection; panic monitor",
                text="Random block trees (forks, uneven difficulty across an epoch boundary, invalid blocks and re-parented descendants of invalid blocks) are delivered to fresh real nodes under in-order / reverse / random / child-before-parent / duplicate-heavy arrival orders, 1-4 submitter threads and seeded delay plans at the hook points between the insert / preload / verify threads. Oracles: every connectable valid block is answered, no valid block is reported failed, published tips strictly increase in total difficulty and are fully valid, the final tip is in the model's arg-max set of fully valid chains, no connectable block is left in the orphan pool, no node thread panics. Held = on the executions observed.",
                note=CHAIN_NOTE),
    "C02": dict(engine="chain", category="exploration", design="4/C02",
                technique="runtime monitoring: raw column dumps of store and of concurrently loaded snapshots compared both ways with an independent replay model",
                text="At every quiescent point of every delivered node, on the builder node after all its truncations, and inside snapshots loaded by reader threads while blocks are being processed, all canonical columns (live cells with data and data hash, tx locations, number<->hash index, uncle index, tip, current epoch, per-block epoch records, epoch-number index, block ext incl. fees/sizes/accumulated difficulty, MMR nodes) are dumped raw and compared in both directions with a replay of the model's main chain.",
                note=CHAIN_NOTE),
    "C19": dict(engine="chain", category="exploration", design="4/C19",
                technique="runtime monitoring: own MMR model vs committed roots on every fork; proofs from the node verified against committed and rival roots",
                text="For every generated block on every fork the committed chain root is compared with the harness's own MMR over the ancestors' digests; after every delivery run (i.e. after reorgs, incl. to shorter heavier branches) the root served by the node is checked to be the one the tip commits to, membership proofs for random position sets must verify against it and must not verify against the root of a competing fork; stored MMR nodes are compared with the model (shared with C02). Block-filter part: see engine filter.",
                note=CHAIN_NOTE),
    "C20": dict(engine="chain", category="exploration", design="4/C20",
                technique="runtime monitoring: proposal view of every published snapshot (hook H3) vs own window arithmetic",
                text="The proposal view (set/gap) of every published snapshot, of concurrently loaded snapshots, of quiescent nodes and of the builder node after truncations is compared with the model's window sets computed by its own arithmetic over the main chain (proposal ids of blocks and their uncles), for windows (2,10), (1,3), (1,1).",
                note=CHAIN_NOTE),
    "C07": dict(engine="arith", category="exploration", design="4/C07",
                technique="runtime monitoring: real APIs driven over boundary-biased inputs, JSONL records judged by an exact-arithmetic Python oracle; Miri on pure-Rust arithmetic (thorough)",
                text="next_epoch_ext (mock EpochProvider, one-shot and along synthetic multi-epoch chains), primary_epoch_reward / block_reward / secondary issuance sums, compact<->target<->difficulty conversions, the three PoW engines and the epoch-fraction successor predicate are driven over boundary-biased inputs; every record is re-derived exactly (int/Fraction) by oracles/arith.py written from RFC-0020/0015. Thorough adds a Miri pass over ckb-rational, eaglesong and compact/difficulty code.",
                note="Trusted: Python int/Fraction arithmetic, hashlib.blake2b. hash == target equality is unreachable by search (stated in evidence). Miri stops at the first UB of a stage; UB inside the third-party numext crate is listed as known finding."),
}

NOT_YET = "check under construction (DESIGN.md section 4); not claimed yet"

checks = []
for pid, c in CHECKS.items():
    checks.append({
        "property_id": pid,
        "quick_cmd": f"./check {pid} --tier quick",
        "thorough_cmd": f"./check {pid} --tier thorough",
        "evidence_file": f"/verif/evidence/{pid}.json",
        "replay_cmd_template": f"./check {pid} --replay {{path}}",
        "engine": c["engine"],
        "level_claimed": {"category": c["category"], "text": c["text"], "design_ref": c["design"]},
        "level_note": c["note"],
        "technique": c["technique"],
    })

engines = [
    {"name": "chain", "path": "harness/vmon/src/engines/chain.rs", "serves_properties": ["C01", "C02", "C19", "C20"],
     "kind_free_text": "real nodes + builder node + RefChain model; hooks H1/H3"},
    {"name": "arith", "path": "harness/varith", "serves_properties": ["C07"],
     "kind_free_text": "API driver + oracles/arith.py exact oracle; harness-miri/arith"},
]

m = {
    "version": 1,
    "setup_cmd": "cd /verif/harness && cargo build --offline",
    "hooks": {
        "guard": "ckb_verif",
        "enable": "rustc cfg flag `--cfg ckb_verif`, set via [build] rustflags in /verif/harness/.cargo/config.toml; every check runs `cargo build --offline` in /verif/harness, whose path dependencies point at /repo's working tree",
        "baseline_off_cmd": "cd /repo && cargo nextest run --workspace --no-fail-fast --tool-config-file pb:/w/lib/nextest.toml --profile pb --test-threads 8 --offline || cargo test --workspace --no-fail-fast --offline",
        "source_commits": hooks,
        "add_only": True,
    },
    "engines": engines,
    "checks": checks,
    "not_applicable": [{"property_id": i, "reason": NOT_YET} for i in ids if i not in CHECKS],
    "notes": "Verdicts are three-valued (held / VIOLATION exit 1 / INCONCLUSIVE exit 2). Known findings: /verif/known_findings.json. See DESIGN.md.",
}
json.dump(m, open(f"{ROOT}/MANIFEST.json", "w"), indent=1)
print("checks:", [c["property_id"] for c in checks], "hooks:", len(hooks))
