#!/usr/bin/env python3
"""Rewrite the table between <!-- SEEDED:BEGIN --> and <!-- SEEDED:END --> in DESIGN.md from
/verif/seeded/*/meta.json and result.json (written by tools/seedrun.py)."""
import json, os, re
ROOT = "/verif"
rows = []
for name in sorted(os.listdir(f"{ROOT}/seeded")):
    d = f"{ROOT}/seeded/{name}"
    if not os.path.isfile(f"{d}/meta.json"):
        continue
    m = json.load(open(f"{d}/meta.json"))
    res = json.load(open(f"{d}/result.json")) if os.path.exists(f"{d}/result.json") else []
    caught = {}
    for r in res:
        if r.get("caught"):
            caught.setdefault(r["check"], (r["tier"], r["signatures"][:2]))
    missed = sorted({r["check"] for r in res if not r.get("caught")} - set(caught))
    title = (m.get("title") or "").replace("|", "/").replace("\n", " ")
    files = ", ".join(os.path.basename(f) for f in m.get("files", [])[:3])
    c = "; ".join(f"**{k}** ({t}): `{'`, `'.join(s)}`" for k, (t, s) in sorted(caught.items())) or "—"
    rows.append(f"| {name} | {title[:150]} ({files}) | {m.get('subtlety','')} | {c} | {', '.join(missed) or '—'} |")
tbl = "| change | what it does | kind | caught by (tier): first signatures | run but silent |\n|---|---|---|---|---|\n" + "\n".join(rows) + "\n"
p = f"{ROOT}/DESIGN.md"
s = open(p).read()
s2 = re.sub(r"(<!-- SEEDED:BEGIN -->\n).*?(<!-- SEEDED:END -->)", lambda mm: mm.group(1) + tbl + mm.group(2), s, flags=re.S)
open(p, "w").write(s2)
print(len(rows), "rows")
