#!/usr/bin/env python3
"""Run checks against seeded property-breaking changes.

  tools/seedrun.py [--tier quick|thorough] [--seed N] [--checks C01,C02] [--lab DIR] <seeded dir>...

--lab DIR: instead of /repo use the scratch copy made by `tools/scratch.sh new DIR` (DIR/repo is a
git worktree of /repo, DIR/harness a copy of /verif/harness re-pointed at it and re-synchronised
from /verif/harness before every run); lets seeded runs proceed while /repo is in use.

For every /verif/seeded/<name>/ (patch.diff + meta.json): /repo must be clean; the patch is applied
(git -C /repo apply), the check(s) of the property named in meta.json (or --checks) are run with the
evidence redirected to the seeded directory, and the patch is undone straight afterwards
(git -C /repo checkout -- . plus removal of files the patch added). The outcome is written to
<dir>/result.json: {check, tier, seed, exit, caught, signatures[], inconclusive[], wall_s}.
Nothing is ever committed in /repo.
"""
import json, os, re, subprocess, sys, time

ROOT = "/verif"
REPO = "/repo"
LAB = None


def sh(cmd, **kw):
    return subprocess.run(cmd, stdout=subprocess.PIPE, stderr=subprocess.STDOUT, text=True, **kw)


def repo_clean():
    return sh(["git", "-C", REPO, "status", "--porcelain", "--untracked-files=no"]).stdout.strip() == ""


def added_files(patch):
    out = []
    for m in re.finditer(r"^diff --git a/(\S+) b/(\S+)\nnew file mode", open(patch).read(), re.M):
        out.append(m.group(2))
    return out


def undo(patch):
    sh(["git", "-C", REPO, "checkout", "--", "."])
    for f in added_files(patch):
        p = os.path.join(REPO, f)
        if os.path.exists(p):
            os.remove(p)


def main():
    argv = sys.argv[1:]
    tier, seed, checks, dirs = "quick", "1", None, []
    i = 0
    while i < len(argv):
        if argv[i] == "--tier":
            tier = argv[i + 1]; i += 2
        elif argv[i] == "--seed":
            seed = argv[i + 1]; i += 2
        elif argv[i] == "--lab":
            global REPO, LAB
            LAB = os.path.abspath(argv[i + 1]); REPO = os.path.join(LAB, "repo"); i += 2
        elif argv[i] == "--checks":
            checks = argv[i + 1].split(","); i += 2
        else:
            dirs.append(argv[i]); i += 1
    rc_all = 0
    if LAB:
        # same base commit and same harness sources as /verif and /repo
        head = sh(["git", "-C", "/repo", "rev-parse", "HEAD"]).stdout.strip()
        sh(["git", "-C", REPO, "checkout", "-q", "--detach", head])
        sh(["rsync", "-a", "--exclude", "target", "--exclude", "/Cargo.toml", "--exclude", "/.cargo", "/verif/harness/", os.path.join(LAB, "harness") + "/"])
        sh(["cp", "/verif/known_findings.json", os.path.join(LAB, "out", "known_findings.json")])
        # workspace manifest: same content, path dependencies re-pointed at the lab's worktree
        top = open("/verif/harness/Cargo.toml").read().replace('"/repo/', '"%s/' % REPO)
        open(os.path.join(LAB, "harness", "Cargo.toml"), "w").write(top)
    for d in dirs:
        d = os.path.abspath(d)
        patch = os.path.join(d, "patch.diff")
        meta = json.load(open(os.path.join(d, "meta.json")))
        ids = checks or [meta["property"]]
        if not repo_clean():
            print("refusing: /repo has uncommitted changes")
            return 3
        r = sh(["git", "-C", REPO, "apply", patch])
        if r.returncode != 0:
            print(f"{d}: patch does not apply: {r.stdout[-400:]}")
            undo(patch)
            rc_all = 3
            continue
        results = []
        try:
            for pid in ids:
                t0 = time.time()
                env = dict(os.environ, VERIF_EVIDENCE_DIR=os.path.join(d, "evidence"))
                if LAB:
                    env.update(VERIF_ROOT=os.path.join(LAB, "out"), VERIF_HARNESS=os.path.join(LAB, "harness"), VERIF_TARGET=os.path.join(LAB, "target"))
                r = sh([os.path.join(ROOT, "check"), pid, "--tier", tier, "--seed", seed], env=env, cwd=ROOT)
                sigs = re.findall(r"^  signature: (.*)$", r.stdout, re.M)
                inc = re.findall(r"^INCONCLUSIVE .*reason=(.*)$", r.stdout, re.M)
                res = {
                    "check": pid, "tier": tier, "seed": int(seed), "exit": r.returncode,
                    "caught": r.returncode == 1 and "VIOLATION property=" in r.stdout,
                    "signatures": sigs[:40], "inconclusive": [x[:300] for x in inc[:5]],
                    "wall_s": round(time.time() - t0, 1),
                    "tail": r.stdout[-600:] if r.returncode not in (0, 1) else "",
                }
                results.append(res)
                print(f"{os.path.basename(d)} {pid} {tier} seed={seed}: exit={r.returncode} caught={res['caught']} sigs={sigs[:3]} {res['wall_s']}s", flush=True)
        finally:
            undo(patch)
        prev = []
        rp = os.path.join(d, "result.json")
        if os.path.exists(rp):
            prev = json.load(open(rp))
        prev = [p for p in prev if not any(p["check"] == r["check"] and p["tier"] == r["tier"] and p["seed"] == r["seed"] for r in results)]
        json.dump(prev + results, open(rp, "w"), indent=1)
    return rc_all


if __name__ == "__main__":
    sys.exit(main())
