#!/usr/bin/env python3
"""Independent confirmation of a seeded change delivered by a sub-agent, in that change's scratch worktree.

  tools/seedverify.py <base> <ID> <k> --tests "<-p crate ...>" --demo-dest <path in repo> \
       --mod-file <file> --mod-line "<line(s) to append>" --filter <test name filter> [--hook] [--features F]

<base>/<ID>/wt is the git worktree, <base>/<ID>/target its build cache, <base>/<ID>/out/<k>/ the delivery.
Steps (all in the worktree, which must be clean and is left clean):
  1. git apply patch.diff                      -> must apply
  2. existing tests of the named crates         -> must all pass (the demonstration is not placed yet)
  3. place the demonstration (+ demo_hook.diff) -> run it: must FAIL with the change
  4. git apply -R patch.diff                    -> run it again: must PASS without the change
Writes <out>/verify.json {applies, tests_passed, tests_failed, demo_fails_with_patch, demo_passes_without_patch, confirmed}.
"""
import json, os, re, subprocess, sys, time


def sh(cmd, cwd, env, log):
    r = subprocess.run(cmd, cwd=cwd, env=env, shell=True, stdout=subprocess.PIPE, stderr=subprocess.STDOUT, text=True)
    log.write(f"$ {cmd}\n{r.stdout[-6000:]}\n[exit {r.returncode}]\n")
    log.flush()
    return r


def counts(out):
    m = re.search(r"(\d+) tests? run: (\d+) passed(?: \(.*?\))?(?:, (\d+) failed)?", out)
    if m:
        return int(m.group(2)), int(m.group(3) or 0)
    return None, None


def main():
    a = sys.argv[1:]
    base, pid, k = a[0], a[1], a[2]
    opt = {"--tests": "", "--demo-dest": "", "--mod-file": "", "--mod-line": "", "--filter": "", "--features": "", "--demo-crate": "", "--demo-tests": "", "--env": ""}
    hook = False
    i = 3
    while i < len(a):
        if a[i] == "--hook":
            hook = True; i += 1
        else:
            opt[a[i]] = a[i + 1]; i += 2
    wt, out = f"{base}/{pid}/wt", f"{base}/{pid}/out/{k}"
    env = dict(os.environ, CARGO_TARGET_DIR=f"{base}/{pid}/target", TMPDIR=f"{base}/{pid}/tmp", CARGO_NET_OFFLINE="true", CARGO_INCREMENTAL="0")
    for kv in opt["--env"].split():
        k_, v_ = kv.split("=", 1)
        env[k_] = v_
    os.makedirs(f"{base}/{pid}/tmp", exist_ok=True)
    log = open(f"{out}/verify.log", "w")
    res = {"property": pid, "k": int(k), "when": time.strftime("%Y-%m-%dT%H:%M:%S"), "confirmed": False}
    st = sh("git status --porcelain", wt, env, log).stdout.strip()
    if st:
        sh("git checkout -- . && git clean -fdq", wt, env, log)
    feat = f" --features {opt['--features']}" if opt["--features"] else ""
    try:
        r = sh(f"git apply {out}/patch.diff", wt, env, log)
        res["applies"] = r.returncode == 0
        if not res["applies"]:
            return res
        r = sh(f"cargo nextest run --offline --build-jobs 6 --test-threads 6 --no-fail-fast {opt['--tests']}{feat} 2>&1 | tail -40", wt, env, log)
        p, f = counts(r.stdout)
        res["tests_passed"], res["tests_failed"] = p, f
        res["existing_tests_pass_with_patch"] = p is not None and p > 0 and f == 0
        # place the demonstration
        if hook:
            r = sh(f"git apply {out}/demo_hook.diff", wt, env, log)
            res["hook_applies_on_patched"] = r.returncode == 0
        dest = os.path.join(wt, opt["--demo-dest"])
        os.makedirs(os.path.dirname(dest), exist_ok=True)
        open(dest, "w").write(open(f"{out}/demo.rs").read())
        with open(os.path.join(wt, opt["--mod-file"]), "a") as fh:
            fh.write("\n" + opt["--mod-line"].replace("\\n", "\n") + "\n")
        demo_sel = opt["--demo-tests"] or f"{opt['--tests']}{feat} {opt['--filter']}"
        r = sh(f"cargo nextest run --offline --build-jobs 6 --test-threads 4 --no-fail-fast {demo_sel} 2>&1 | tail -60", wt, env, log)
        p, f = counts(r.stdout)
        res["demo_with_patch"] = {"passed": p, "failed": f}
        res["demo_fails_with_patch"] = f is not None and f > 0
        r = sh(f"git apply -R {out}/patch.diff", wt, env, log)
        if r.returncode != 0:
            # the hook touches neighbouring lines: rebuild the unpatched state from scratch
            # (clean tracked files, hook only, demonstration placed again)
            sh("git checkout -- . && git clean -fdq", wt, env, log)
            if hook:
                r = sh(f"git apply {out}/demo_hook.diff", wt, env, log)
                res["hook_applies_on_clean"] = r.returncode == 0
            open(dest, "w").write(open(f"{out}/demo.rs").read())
            with open(os.path.join(wt, opt["--mod-file"]), "a") as fh:
                fh.write("\n" + opt["--mod-line"].replace("\\n", "\n") + "\n")
        r = sh(f"cargo nextest run --offline --build-jobs 6 --test-threads 4 --no-fail-fast {demo_sel} 2>&1 | tail -60", wt, env, log)
        p, f = counts(r.stdout)
        res["demo_without_patch"] = {"passed": p, "failed": f}
        res["demo_passes_without_patch"] = p is not None and p > 0 and f == 0
        res["confirmed"] = bool(res["existing_tests_pass_with_patch"] and res["demo_fails_with_patch"] and res["demo_passes_without_patch"])
        return res
    finally:
        sh("git checkout -- . && git clean -fdq", wt, env, log)
        json.dump(res, open(f"{out}/verify.json", "w"), indent=1)
        print(json.dumps(res))


if __name__ == "__main__":
    main()
