#!/bin/bash
# Create (or remove) a scratch copy of the repository + harness for seeded-fault experiments,
# so that /repo itself is never touched.
#   scratch.sh new <dir>     -> <dir>/repo (git worktree of /repo HEAD), <dir>/harness (copy with
#                               path deps re-pointed), build output in <dir>/target,
#                               evidence in <dir>/out (VERIF_ROOT)
#   scratch.sh rm <dir>      -> remove worktree and directory
# Usage afterwards:  cd <dir>/harness && VERIF_ROOT=<dir>/out cargo run --offline -p <crate> -- ...
set -euo pipefail
cmd=$1; dir=$2
case "$cmd" in
  new)
    mkdir -p "$dir/out/evidence"
    git -C /repo worktree add --detach "$dir/repo" HEAD >/dev/null
    mkdir -p "$dir/harness"
    rsync -a --exclude target /verif/harness/ "$dir/harness/"
    sed -i "s#\"/repo/#\"$dir/repo/#g" "$dir/harness/Cargo.toml"
    find "$dir/harness" -name Cargo.toml -not -path "$dir/harness/Cargo.toml" -exec sed -i "s#\"/repo/#\"$dir/repo/#g" {} +
    mkdir -p "$dir/harness/.cargo"
    cat > "$dir/harness/.cargo/config.toml" <<EOC
[net]
offline = true
[build]
incremental = false
rustflags = ["--cfg", "ckb_verif"]
target-dir = "$dir/target"
EOC
    # seed the build cache with hard links (third-party crates are reused); the lock file must be private
    if [ -d /verif/harness/target ] && [ ! -d "$dir/target" ]; then
      cp -al /verif/harness/target "$dir/target"
      rm -f "$dir/target/debug/.cargo-lock"; touch "$dir/target/debug/.cargo-lock"
    fi
    cp /verif/known_findings.json "$dir/out/" 2>/dev/null || true
    echo "scratch ready: $dir (repo worktree: $dir/repo)"
    ;;
  rm)
    git -C /repo worktree remove --force "$dir/repo" 2>/dev/null || true
    rm -rf "$dir"
    git -C /repo worktree prune
    ;;
esac
