#!/usr/bin/env python3
"""Copy seeded changes produced by the mutation-author agents (/tmp/seed/<ID>/out/<k>/) into
/verif/seeded/<ID>-<k>/ (patch.diff, demonstration files, meta.json)."""
import json, os, shutil, sys
for pid in sys.argv[1:]:
    base = f"{os.environ.get('SEED_BASE', '/tmp/seed')}/{pid}/out"
    for k in sorted(os.listdir(base)):
        src = os.path.join(base, k)
        if not os.path.isfile(os.path.join(src, "patch.diff")):
            continue
        dst = f"/verif/seeded/{pid}-{k}"
        os.makedirs(dst, exist_ok=True)
        for f in os.listdir(src):
            p = os.path.join(src, f)
            if os.path.isfile(p) and os.path.getsize(p) < 400_000:
                shutil.copy(p, os.path.join(dst, f))
        mp = os.path.join(dst, "meta.json")
        if not os.path.exists(mp):
            json.dump({"property": pid, "k": int(k), "title": "(meta.json not written yet by the author)"}, open(mp, "w"), indent=1)
        else:
            m = json.load(open(mp)); m.setdefault("property", pid); json.dump(m, open(mp, "w"), indent=1)
        print("imported", dst)
