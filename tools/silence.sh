#!/bin/bash
# tools/silence.sh "<ids>" "<seeds>" [tier]  — run checks on the unchanged tree at several seeds with the
# evidence redirected (so committed evidence is not overwritten); prints one line per run and the
# VIOLATION / INCONCLUSIVE lines, exit 1 if any run was not silent.
ids="$1"; seeds="$2"; tier="${3:-quick}"
ev=/dev/shm/ckb-verif-silence-$$; mkdir -p $ev; bad=0
for s in $seeds; do for id in $ids; do
  out=$(VERIF_EVIDENCE_DIR=$ev VERIF_SEED=$s /verif/check $id --tier $tier 2>&1); rc=$?
  echo "$id seed=$s tier=$tier exit=$rc $(echo "$out" | tail -1)"
  if [ $rc -ne 0 ]; then bad=1; echo "$out" | grep -E 'VIOLATION|INCONCLUSIVE|signature|detail' | head -12; fi
done; done
rm -rf $ev; exit $bad
