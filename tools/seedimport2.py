#!/usr/bin/env python3
"""Import wave-2 seeded changes from /tmp/seed2/<ID>/out/<k>/ into /verif/seeded/<ID>-<k>/."""
import json, os, shutil, sys
for pid in sys.argv[1:]:
    base = f"/tmp/seed2/{pid}/out"
    for k in sorted(os.listdir(base)):
        src = os.path.join(base, k)
        if not os.path.isfile(os.path.join(src, "patch.diff")):
            continue
        dst = f"/verif/seeded/{pid}-{k}"
        os.makedirs(dst, exist_ok=True)
        for f in os.listdir(src):
            p = os.path.join(src, f)
            if os.path.isfile(p) and os.path.getsize(p) < 400_000:
                shutil.copy(p, os.path.join(dst, f))
        mp = os.path.join(dst, "meta.json")
        m = json.load(open(mp)) if os.path.exists(mp) else {"title": "(no meta)"}
        m.setdefault("property", pid); m["wave"] = 2
        json.dump(m, open(mp, "w"), indent=1)
        print("imported", dst)
    os.system(f"git -C /repo worktree remove --force /tmp/seed2/{pid}/wt; rm -rf /tmp/seed2/{pid}/target /tmp/seed2/{pid}/tmp")
