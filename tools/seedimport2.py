#!/usr/bin/env python3
"""Import wave-2 seeded changes from /tmp/seed2/<ID>/out/<k>/ into /verif/seeded/<ID>-<k>/."""
import json, os, shutil, sys
for pid in sys.argv[1:]:
    root = os.environ.get("SEED_BASE", "/tmp/seed2"); base = f"{root}/{pid}/out"
    for k in sorted(os.listdir(base)):
        src = os.path.join(base, k)
        if not os.path.isfile(os.path.join(src, "patch.diff")):
            continue
        dst = f"/verif/seeded/{pid}-{k}"
        os.makedirs(dst, exist_ok=True)
        for f in os.listdir(src):
            p = os.path.join(src, f)
            if os.path.isfile(p) and os.path.getsize(p) < 400_000:
                shutil.copy(p, os.path.join(dst, f))
        mp = os.path.join(dst, "meta.json")
        m = json.load(open(mp)) if os.path.exists(mp) else {"title": "(no meta)"}
        m.setdefault("property", pid); m["wave"] = int(os.environ.get("SEED_WAVE", "2"))
        json.dump(m, open(mp, "w"), indent=1)
        print("imported", dst)
    os.system(f"git -C /repo worktree remove --force {root}/{pid}/wt; rm -rf {root}/{pid}/target {root}/{pid}/tmp")
